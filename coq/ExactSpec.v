(* ExactSpec.v — C01, the NON-MONOTONE operators: specification side.
   [Spec.valid] is the structural part of "what the grammar derives".  This file adds the negative
   conditions of Choice (first match) and of the sequence family (maximal path), for grammars with
   a level assignment (stratification), and the pure facts about the resulting relation:

   * [closed R M e]      e mentions only rules in R and Memoize indexes in M; [compat_agree]:
                         compatibility of a derivation with a left-recursion context only depends on
                         the counters of the indexes that can occur in it;
   * [exact1 has]        derivations with the negative premises, relative to a predicate
                         [has e pos] = "the observed operand e has a match at pos";
   * [lev_ok L e], [stratified_b]   the level discipline (decidable);
   * [hasL L], [exact L] the canonical meaning, by recursion on the level; [exact_level_up] /
                         [exact_level_indep]: it does not depend on the level once [lev_ok] holds;
                         [has_consistent]: [hasL top] is a fixed point on observed operands;
                         [exact0_valid]: level 0 = the monotone fragment, exact = valid;
                         [exact_level1]: level 1 = "the negative premises ask for valid derivations";
   * [unpump_x], [pump_ends_x]      the pumping lemma of Pump.v for [exact1];
   * [dseq D], [maximal]            sequences of derivations over an arbitrary element relation D.
   No engine here. *)
From Coq Require Import String List NArith Bool Arith Lia.
From Parsley Require Import Obs Base Grammar Engine TermFacts TermTok EngineFacts SetMapFacts Spec Sound Complete Pump.
Import ListNotations.
Open Scope N_scope.

(* ------------------------------------------------------------------------------------- *)
(* induction on expressions with the list operands covered by [Forall]                    *)
(* ------------------------------------------------------------------------------------- *)
Section PexprInd.
  Variable P : pexpr -> Prop.
  Hypothesis HTerm : forall t, P (PTerm t).
  Hypothesis HEmpty : P PEmpty.
  Hypothesis HEnd : P PEnd.
  Hypothesis HRef : forall k, P (PRef k).
  Hypothesis HMemo : forall idx p, P p -> P (PMemo idx p).
  Hypothesis HAny : forall ps, Forall P ps -> P (PAny ps).
  Hypothesis HChoice : forall ps, Forall P ps -> P (PChoice ps).
  Hypothesis HOpt : forall p, P p -> P (POpt p).
  Hypothesis HSeq : forall k ip s nm ps, Forall P ps -> P (PSeq k ip s nm ps).
  Hypothesis HName : forall nm p, P p -> P (PName nm p).
  Hypothesis HLeft : forall m p, P p -> P (PLeftTrim m p).
  Hypothesis HRight : forall m p, P p -> P (PRightTrim m p).
  Hypothesis HSuppress : forall p, P p -> P (PSuppress p).
  Hypothesis HSingle : forall p, P p -> P (PSingle p).
  Fixpoint pexpr_indF (e : pexpr) : P e :=
    let all := fix go (l : list pexpr) : Forall P l :=
                 match l with [] => Forall_nil P | x :: t => Forall_cons x (pexpr_indF x) (go t) end in
    match e with
    | PTerm t => HTerm t
    | PEmpty => HEmpty
    | PEnd => HEnd
    | PRef k => HRef k
    | PMemo idx p => HMemo idx p (pexpr_indF p)
    | PAny ps => HAny ps (all ps)
    | PChoice ps => HChoice ps (all ps)
    | POpt p => HOpt p (pexpr_indF p)
    | PSeq k ip s nm ps => HSeq k ip s nm ps (all ps)
    | PName nm p => HName nm p (pexpr_indF p)
    | PLeftTrim m p => HLeft m p (pexpr_indF p)
    | PRightTrim m p => HRight m p (pexpr_indF p)
    | PSuppress p => HSuppress p (pexpr_indF p)
    | PSingle p => HSingle p (pexpr_indF p)
    end.
End PexprInd.

Lemma forallb_Forall_impl {A} (P : A -> Prop) (f g : A -> bool) l :
  Forall (fun x => f x = true -> g x = true) l -> forallb f l = true -> forallb g l = true.
Proof.
  induction 1 as [|x l Hx _ IH]; cbn [forallb]; [reflexivity|].
  intros H. apply andb_true_iff in H. destruct H as [H1 H2]. rewrite (Hx H1), (IH H2). reflexivity.
Qed.

(* ------------------------------------------------------------------------------------- *)
(* Part 1: which Memoize indexes can occur in the derivations of an expression            *)
(* ------------------------------------------------------------------------------------- *)
Section Closed.
  Variable R : N -> bool.       (* rules that may be referenced *)
  Variable M : N -> bool.       (* Memoize indexes that may occur *)
  Fixpoint closed (e : pexpr) : bool :=
    match e with
    | PTerm _ | PEmpty | PEnd => true
    | PRef k => R k
    | PMemo idx p => M idx && closed p
    | PAny ps | PChoice ps | PSeq _ _ _ _ ps => forallb closed ps
    | POpt p | PName _ p | PLeftTrim _ p | PRightTrim _ p | PSuppress p | PSingle p => closed p
    end.
  Definition closed_rules (rules : list pexpr) : Prop :=
    forall k body, R k = true -> nth_N rules k = Some body -> closed body = true.
  (* the left-recursion context has no counter for an index that can occur *)
  Definition zero_on (l : intmap) : Prop := forall idx, M idx = true -> map_get idx l = 0.
  Definition agree (l1 l2 : intmap) : Prop := forall idx, M idx = true -> map_get idx l1 = map_get idx l2.

  Lemma zero_on_nil : zero_on [].
  Proof. intros idx _. reflexivity. Qed.
  Lemma zero_agree l : zero_on l -> agree [] l.
  Proof. intros H idx Hm. rewrite (H idx Hm). reflexivity. Qed.
  Lemma agree_sym l1 l2 : agree l1 l2 -> agree l2 l1.
  Proof. intros H idx Hm. symmetry. apply H, Hm. Qed.
  Lemma agree_inc idx l1 l2 : agree l1 l2 -> agree (map_inc idx l1) (map_inc idx l2).
  Proof. intros H j Hj. rewrite !map_get_inc. destruct (j =? idx) eqn:E; [|apply H, Hj].
         apply N.eqb_eq in E. subst j. rewrite (H idx Hj). reflexivity. Qed.
  Lemma agree_refl l : agree l l.
  Proof. intros idx _. reflexivity. Qed.

  Section Agree.
    Variable inp : input.
    Variable rules : list pexpr.
    Hypothesis Hrules : closed_rules rules.

    (* compatibility with a context only looks at the counters of indexes that occur *)
    Lemma compat_agree e pos d : valid inp rules e pos d -> closed e = true ->
      forall l1 l2, agree l1 l2 -> compat inp l1 pos d -> compat inp l2 pos d.
    Proof.
      intros H.
      induction H using valid_ind2 with
        (P0 := fun k ps depth pos ds => forallb closed ps = true ->
           forall l1 l2, agree l1 l2 -> compat_seq inp l1 pos ds -> compat_seq inp l2 pos ds);
        intros Hcl l1 l2 Hag Hc; cbn [compat] in *; try exact I; cbn [closed] in Hcl.
      - (* VRef *) apply (IHvalid (Hrules _ _ Hcl H) l1 l2 Hag Hc).
      - (* VMemo *) apply andb_true_iff in Hcl. destruct Hcl as [Hm Hcl]. destruct Hc as [Hle Hc].
        split; [rewrite <- (Hag idx Hm); exact Hle|].
        apply (IHvalid Hcl (map_inc idx l1) (map_inc idx l2) (agree_inc idx l1 l2 Hag) Hc).
      - (* VAny *) apply (IHvalid (forallb_nth _ _ _ _ Hcl H) l1 l2 Hag Hc).
      - (* VChoice *) apply (IHvalid (forallb_nth _ _ _ _ Hcl H) l1 l2 Hag Hc).
      - (* VOptS *) apply (IHvalid Hcl l1 l2 Hag Hc).
      - (* VSeq *) apply (IHvalid Hcl l1 l2 Hag Hc).
      - (* VScons *) cbn [compat_seq] in *. destruct Hc as [Hc1 Hc2]. split.
        + apply (IHvalid (forallb_in _ _ _ Hcl (seq_lookup_in _ _ _ _ H)) l1 l2 Hag Hc1).
        + destruct (pos <? dend d).
          * apply (IHvalid0 Hcl [] [] (agree_refl []) Hc2).
          * apply (IHvalid0 Hcl l1 l2 Hag Hc2).
    Qed.
  End Agree.
End Closed.

(* everything is closed in the full sets: the case "called with the empty context" *)
Lemma closed_all e : closed (fun _ => true) (fun _ => true) e = true.
Proof.
  induction e using pexpr_indF; cbn [closed]; cbn beta; try reflexivity; try assumption;
    try (apply forallb_forall; intros x Hx; rewrite Forall_forall in H; apply H, Hx).
Qed.
Lemma closed_rules_all rules : closed_rules (fun _ => true) (fun _ => true) rules.
Proof. intros k body _ _. apply closed_all. Qed.

(* ------------------------------------------------------------------------------------- *)
(* Part 2: sequences of derivations over an arbitrary element relation; maximal paths     *)
(* ------------------------------------------------------------------------------------- *)
Section DSeq.
  Variable D : pexpr -> N -> dtree -> Prop.
  Inductive dseq : seqkind -> list pexpr -> nat -> N -> list dtree -> Prop :=
  | DSnil k ps depth pos : dseq k ps depth pos []
  | DScons k ps depth pos e d ds :
      seq_lookup k ps depth = Some e -> D e pos d ->
      dseq k ps (S depth) (dend d) ds -> dseq k ps depth pos (d :: ds).
  (* no match at all *)
  Definition nod (e : pexpr) (pos : N) : Prop := ~ exists d, D e pos d.
  (* the path [ds] (started at depth [depth], position [pos]) cannot be extended: the element
     parser that would come next has no match where the path ends (or there is none) *)
  Definition maximal (k : seqkind) (ps : list pexpr) (depth : nat) (pos : N) (ds : list dtree) : Prop :=
    forall e', seq_lookup k ps (depth + length ds) = Some e' -> nod e' (seq_end pos ds).
End DSeq.

Lemma dseq_valid inp rules k ps depth pos ds :
  dseq (valid inp rules) k ps depth pos ds <-> valid_seq inp rules k ps depth pos ds.
Proof.
  split; intros H.
  - induction H; [apply VSnil|eapply VScons; eassumption].
  - induction H; [apply DSnil|eapply DScons; eassumption].
Qed.

(* ------------------------------------------------------------------------------------- *)
(* Part 3: exact derivations relative to [has]                                            *)
(* ------------------------------------------------------------------------------------- *)
Section Exact1.
  Variable inp : input.
  Variable rules : list pexpr.
  Variable has : pexpr -> N -> Prop.     (* the observed operand has a match at the position *)

  Inductive exact1 : pexpr -> N -> dtree -> Prop :=
  | XTerm t pos n : term_parse inp t pos = ([n], None) -> exact1 (PTerm t) pos (DTerm n)
  | XEmpty pos : exact1 PEmpty pos (DEmpty pos)
  | XEnd pos : is_eof inp pos = true -> exact1 PEnd pos (DEnd pos)
  | XRef k body pos d : nth_N rules k = Some body -> exact1 body pos d -> exact1 (PRef k) pos (DRef k d)
  | XMemo idx e pos d : exact1 e pos d -> exact1 (PMemo idx e) pos (DMemo idx d)
  | XAny ps i e pos d : nth_error ps i = Some e -> exact1 e pos d -> exact1 (PAny ps) pos (DAlt i d)
  (* Choice: alternative i matches and NO EARLIER alternative has a match *)
  | XChoice ps i e pos d : nth_error ps i = Some e -> exact1 e pos d ->
      (forall j e', (j < i)%nat -> nth_error ps j = Some e' -> ~ has e' pos) ->
      exact1 (PChoice ps) pos (DAlt i d)
  | XOptS e pos d : exact1 e pos d -> exact1 (POpt e) pos (DOptS d)
  | XOptN e pos : exact1 (POpt e) pos (DOptN pos)
  (* the sequence family: a path through element matches whose length passes the length check and
     that is MAXIMAL: the next element parser (if any) has no match where the path ends.  For
     SeqOf the length check forces [length ds = length ps], there is no next element parser and
     the premise is vacuous. *)
  | XSeq k ip single ps pos ds :
      exact_seq k ps 0%nat pos ds ->
      seq_lencheck k (length ps) (length ds) = true ->
      (forall e', seq_lookup k ps (length ds) = Some e' -> ~ has e' (seq_end pos ds)) ->
      exact1 (PSeq k ip single None ps) pos
             (DSeq {| q_kind := k; q_ip := ip; q_single := single; q_ps := ps |} pos ds)
  with exact_seq : seqkind -> list pexpr -> nat -> N -> list dtree -> Prop :=
  | XSnil k ps depth pos : exact_seq k ps depth pos []
  | XScons k ps depth pos e d ds :
      seq_lookup k ps depth = Some e -> exact1 e pos d ->
      exact_seq k ps (S depth) (dend d) ds -> exact_seq k ps depth pos (d :: ds).
End Exact1.

Scheme exact1_ind2 := Minimality for exact1 Sort Prop
  with exact_seq_ind2 := Minimality for exact_seq Sort Prop.
Combined Scheme exact1_mutind from exact1_ind2, exact_seq_ind2.

Lemma dseq_exact inp rules (has : pexpr -> N -> Prop) k ps depth pos ds :
  dseq (exact1 inp rules has) k ps depth pos ds <-> exact_seq inp rules has k ps depth pos ds.
Proof.
  split; intros H.
  - induction H; [apply XSnil|eapply XScons; eassumption].
  - induction H; [apply DSnil|eapply DScons; eassumption].
Qed.

Section Exact1Facts.
  Variable inp : input.
  Variable rules : list pexpr.

  (* exact derivations are valid derivations *)
  Lemma exact1_valid_mut (has : pexpr -> N -> Prop) :
    (forall e pos d, exact1 inp rules has e pos d -> valid inp rules e pos d) /\
    (forall k ps depth pos ds, exact_seq inp rules has k ps depth pos ds -> valid_seq inp rules k ps depth pos ds).
  Proof.
    apply exact1_mutind; intros.
    - apply VTerm; assumption.
    - apply VEmpty.
    - apply VEnd; assumption.
    - eapply VRef; eassumption.
    - apply VMemo; assumption.
    - eapply VAny; eassumption.
    - eapply VChoice; eassumption.
    - apply VOptS; assumption.
    - apply VOptN.
    - apply VSeq; assumption.
    - apply VSnil.
    - eapply VScons; eassumption.
  Qed.
  Lemma exact1_valid (has : pexpr -> N -> Prop) e pos d : exact1 inp rules has e pos d -> valid inp rules e pos d.
  Proof. apply (proj1 (exact1_valid_mut has)). Qed.
  Lemma exact_seq_valid (has : pexpr -> N -> Prop) k ps depth pos ds :
    exact_seq inp rules has k ps depth pos ds -> valid_seq inp rules k ps depth pos ds.
  Proof. apply (proj2 (exact1_valid_mut has)). Qed.

  (* the negative premises only matter through [has] on the operands that are asked *)
  Lemma exact1_ext_mut (has has' : pexpr -> N -> Prop) :
    (forall e pos, has' e pos -> has e pos) ->
    (forall e pos d, exact1 inp rules has e pos d -> exact1 inp rules has' e pos d) /\
    (forall k ps depth pos ds, exact_seq inp rules has k ps depth pos ds -> exact_seq inp rules has' k ps depth pos ds).
  Proof.
    intros Hh. apply exact1_mutind; intros.
    - apply XTerm; assumption.
    - apply XEmpty.
    - apply XEnd; assumption.
    - eapply XRef; eassumption.
    - apply XMemo; assumption.
    - eapply XAny; eassumption.
    - eapply XChoice; try eassumption. intros j e' Hj He' Hx. eapply H2; [exact Hj|exact He'|apply Hh, Hx].
    - apply XOptS; assumption.
    - apply XOptN.
    - apply XSeq; try assumption. intros e' He' Hx. eapply H2; [exact He'|apply Hh, Hx].
    - apply XSnil.
    - eapply XScons; eassumption.
  Qed.

  (* on the monotone fragment the negative premises are vacuous: exact = valid *)
  Section Mono.
    Hypothesis rules_mono : forall k body, nth_N rules k = Some body -> mono body = true.
    Lemma mono_exact1 (has : pexpr -> N -> Prop) e pos d : valid inp rules e pos d -> mono e = true -> exact1 inp rules has e pos d.
    Proof.
      intros H.
      induction H using valid_ind2 with
        (P0 := fun k ps depth pos ds => forallb mono ps = true -> exact_seq inp rules has k ps depth pos ds);
        intros Hm; cbn [mono] in Hm; try discriminate Hm.
      - apply XTerm; assumption.
      - apply XEmpty.
      - apply XEnd; assumption.
      - eapply XRef; [eassumption|]. apply IHvalid. eapply rules_mono; eassumption.
      - apply XMemo, IHvalid, Hm.
      - eapply XAny; [eassumption|]. apply IHvalid. eapply forallb_nth; eassumption.
      - apply XOptS, IHvalid, Hm.
      - apply XOptN.
      - destruct k; try discriminate Hm. apply XSeq; [apply IHvalid, Hm|assumption|].
        intros e' He'. exfalso. cbn [seq_lencheck] in H0. apply Nat.eqb_eq in H0.
        cbn [seq_lookup] in He'. rewrite H0 in He'.
        assert (nth_error ps (length ps) = None) by (apply nth_error_None; lia). congruence.
      - apply XSnil.
      - eapply XScons; [eassumption| |apply IHvalid0, Hm].
        apply IHvalid. eapply forallb_in; [exact Hm|]. eapply seq_lookup_in; eassumption.
    Qed.
  End Mono.
End Exact1Facts.

(* ------------------------------------------------------------------------------------- *)
(* Part 4: the pumping lemma for exact derivations                                        *)
(* ------------------------------------------------------------------------------------- *)
Section PumpX.
  Variable inp : input.
  Variable rules : list pexpr.
  Variable site : N -> option pexpr.
  Variable has : pexpr -> N -> Prop.
  Hypothesis rules_wf : wf_rules rules site.

  Notation X := (exact1 inp rules has).
  Notation Xs := (exact_seq inp rules has).
  Notation wf := (wf rules site).
  Notation wfs := (wfs rules site).

  Lemma X_ge e pos d : X e pos d -> pos <= dend d.
  Proof. intros H. apply (valid_ge inp rules _ _ _ (exact1_valid _ _ _ _ _ _ H)). Qed.

  (* spine nodes of index idx are exact derivations of THE Memoize with that index *)
  Lemma spine_x e pos d : X e pos d -> wf e ->
    forall idx n, In n (spine_nodes idx pos d) -> exists body, site idx = Some body /\ X (PMemo idx body) pos n.
  Proof.
    intros H.
    induction H using exact1_ind2 with
      (P0 := fun k ps depth pos ds => wfs ps -> forall idx n, In n (spine_seq idx pos ds) ->
               exists body, site idx = Some body /\ X (PMemo idx body) pos n);
      intros Hwf idx0 n0 Hin; cbn [spine_nodes] in Hin; try (destruct Hin; fail).
    - (* XRef *) apply (IHexact1 (rules_wf _ _ H) idx0 n0 Hin).
    - (* XMemo *) destruct Hwf as [Hsite Hwe]. apply in_app_or in Hin. destruct Hin as [Hin|Hin]; [|apply (IHexact1 Hwe idx0 n0 Hin)].
      destruct (idx =? idx0) eqn:E; [|destruct Hin]. apply N.eqb_eq in E. subst idx0.
      destruct Hin as [Hin|[]]. subst n0. exists e. split; [exact Hsite|]. apply XMemo. exact H.
    - (* XAny *) apply (IHexact1 (Pump.wfs_nth _ _ _ _ _ Hwf H) idx0 n0 Hin).
    - (* XChoice *) apply (IHexact1 (Pump.wfs_nth _ _ _ _ _ Hwf H) idx0 n0 Hin).
    - (* XOptS *) apply (IHexact1 Hwf idx0 n0 Hin).
    - (* XSeq *) apply (IHexact1 Hwf idx0 n0 Hin).
    - (* XScons *) cbn [spine_seq] in Hin. apply in_app_or in Hin. destruct Hin as [Hin|Hin].
      + apply (IHexact1 (wfs_lookup _ _ _ _ _ _ Hwf H) idx0 n0 Hin).
      + destruct (pos <? dend d) eqn:E; [destruct Hin|].
        rewrite (not_consumed _ _ (X_ge _ _ _ H0) E) in IHexact0, Hin. apply (IHexact0 Hwf idx0 n0 Hin).
  Qed.

  (* every exact derivation can be cut down to an unpumpable exact one with the same end: the
     negative premises only mention the operand list, the alternative number / the length of the
     path, and positions, all of which the cutting preserves *)
  Theorem unpump_x e pos d : X e pos d -> wf e ->
    exists d', X e pos d' /\ dend d' = dend d /\ nopump pos d'.
  Proof.
    intros H.
    induction H using exact1_ind2 with
      (P0 := fun k ps depth pos ds => wfs ps ->
         exists ds', Xs k ps depth pos ds' /\ length ds' = length ds /\
                     seq_end pos ds' = seq_end pos ds /\ nopump_seq pos ds');
      intros Hwf.
    - exists (DTerm n). split; [apply XTerm; exact H|split; [reflexivity|exact I]].
    - exists (DEmpty pos). split; [apply XEmpty|split; [reflexivity|exact I]].
    - exists (DEnd pos). split; [apply XEnd; exact H|split; [reflexivity|exact I]].
    - (* XRef *) destruct (IHexact1 (rules_wf _ _ H)) as [d' [A [B C]]].
      exists (DRef k d'). split; [eapply XRef; eassumption|split; [exact B|exact C]].
    - (* XMemo *) destruct Hwf as [Hsite Hwe]. destruct (IHexact1 Hwe) as [d1 [A [B C]]].
      destruct (find (fun n => dend n =? dend d1) (spine_nodes idx pos d1)) as [n|] eqn:Ef.
      + apply find_some in Ef. destruct Ef as [Hin En]. apply N.eqb_eq in En.
        destruct (spine_x _ _ _ A Hwe idx n Hin) as [body [Hs Hv]].
        rewrite Hsite in Hs. inversion Hs; subst body.
        exists n. split; [exact Hv|]. split; [rewrite En; exact B|].
        apply (spine_nopump inp rules _ _ _ (exact1_valid _ _ _ _ _ _ A) C idx n Hin).
      + exists (DMemo idx d1). split; [apply XMemo; exact A|]. split; [exact B|].
        cbn [nopump]. split; [|exact C]. intros Hin. apply in_map_iff in Hin. destruct Hin as [x [Ex Hx]].
        pose proof (find_none _ _ Ef x Hx) as Hn. cbn beta in Hn. rewrite Ex, N.eqb_refl in Hn. discriminate Hn.
    - (* XAny *) destruct (IHexact1 (Pump.wfs_nth _ _ _ _ _ Hwf H)) as [d' [A [B C]]].
      exists (DAlt i d'). split; [eapply XAny; eassumption|split; [exact B|exact C]].
    - (* XChoice *) destruct (IHexact1 (Pump.wfs_nth _ _ _ _ _ Hwf H)) as [d' [A [B C]]].
      exists (DAlt i d'). split; [eapply XChoice; eassumption|split; [exact B|exact C]].
    - (* XOptS *) destruct (IHexact1 Hwf) as [d' [A [B C]]].
      exists (DOptS d'). split; [apply XOptS; exact A|split; [exact B|exact C]].
    - exists (DOptN pos). split; [apply XOptN|split; [reflexivity|exact I]].
    - (* XSeq *) destruct (IHexact1 Hwf) as [ds' [A [L [B C]]]].
      exists (DSeq {| q_kind := k; q_ip := ip; q_single := single; q_ps := ps |} pos ds').
      split; [apply XSeq; [exact A|rewrite L; exact H0|rewrite L, B; exact H1]|].
      split; [rewrite !dend_DSeq; exact B|exact C].
    - exists []. split; [apply XSnil|split; [reflexivity|split; [reflexivity|exact I]]].
    - (* XScons *) destruct (IHexact1 (wfs_lookup _ _ _ _ _ _ Hwf H)) as [d' [A [B C]]].
      destruct (IHexact0 Hwf) as [ds' [A0 [L0 [B0 C0]]]].
      exists (d' :: ds'). split; [eapply XScons; [exact H|exact A|rewrite B; exact A0]|].
      split; [cbn [length]; rewrite L0; reflexivity|]. cbn [seq_end nopump_seq]. rewrite B.
      split; [exact B0|split; [exact C|exact C0]].
  Qed.

  (* every end reachable by an exact derivation is reached by an exact one within the bound *)
  Theorem pump_ends_x e pos d : X e pos d -> wf e -> in_file inp pos ->
    exists d', X e pos d' /\ dend d' = dend d /\ compat inp [] pos d'.
  Proof.
    intros Hv Hwf Hf. destruct (unpump_x _ _ _ Hv Hwf) as [d' [A [B C]]].
    exists d'. split; [exact A|split; [exact B|]].
    apply (nopump_compat inp rules _ _ _ (exact1_valid _ _ _ _ _ _ A) Hf C).
  Qed.
End PumpX.

(* ------------------------------------------------------------------------------------- *)
(* Part 5: levels (stratification) and the canonical meaning                              *)
(* ------------------------------------------------------------------------------------- *)
Lemma forallb_impl_F {A} (f g : A -> bool) l :
  Forall (fun x => f x = true -> g x = true) l -> forallb f l = true -> forallb g l = true.
Proof.
  induction 1 as [|x l Hx _ IH]; cbn [forallb]; [reflexivity|].
  intros H. apply andb_true_iff in H. destruct H as [H1 H2]. rewrite (Hx H1), (IH H2). reflexivity.
Qed.

Section Levels.
  Variable rl : N -> nat.        (* level of rule k *)
  Variable ml : N -> nat.        (* level of the Memoize with index idx *)

  (* [lev_ok L e]: e fits in level L.  References and Memoize wrappers go to levels <= L (the body
     of a Memoize lives at the level of its index); the operands whose FAILURE is observed — all
     alternatives of a Choice, all element parsers of SeqTry / SeqFirstOrAll / Many / SepBy — live
     at a level STRICTLY below L.  The C01 fragment only (unnamed sequences, no trims). *)
  Fixpoint lev_ok (L : nat) (e : pexpr) {struct e} : bool :=
    match e with
    | PTerm _ | PEmpty | PEnd => true
    | PRef k => Nat.leb (rl k) L
    | PMemo idx p => Nat.leb (ml idx) L && lev_ok (ml idx) p
    | PAny ps => forallb (lev_ok L) ps
    | POpt p => lev_ok L p
    | PSeq SeqOf _ _ None ps => forallb (lev_ok L) ps
    | PChoice ps => match L with O => false | S L' => forallb (lev_ok L') ps end
    | PSeq _ _ _ None ps => match L with O => false | S L' => forallb (lev_ok L') ps end
    | _ => false
    end.

  Definition rules_lev (rules : list pexpr) : Prop :=
    forall k body, nth_N rules k = Some body -> lev_ok (rl k) body = true.
  (* the decidable check: rule k fits in its level *)
  Definition stratified_b (rules : list pexpr) : bool :=
    forallb (fun kb => lev_ok (rl (N.of_nat (fst kb))) (snd kb)) (combine (seq 0 (length rules)) rules).

  Lemma combine_seq_nth {A} (l : list A) : forall s i x, nth_error l i = Some x -> In ((s + i)%nat, x) (combine (seq s (length l)) l).
  Proof.
    induction l as [|y l IH]; intros s [|i] x H; cbn [nth_error] in H; try discriminate.
    - inversion H; subst. cbn [length seq combine]. left. rewrite Nat.add_0_r. reflexivity.
    - cbn [length seq combine]. right. replace (s + S i)%nat with (S s + i)%nat by lia. apply IH, H.
  Qed.
  Lemma stratified_b_sound rules : stratified_b rules = true -> rules_lev rules.
  Proof.
    intros H k body Hk. unfold stratified_b in H. rewrite forallb_forall in H. unfold nth_N in Hk.
    specialize (H _ (combine_seq_nth rules 0%nat _ _ Hk)). cbn [fst snd plus] in H.
    rewrite N2Nat.id in H. exact H.
  Qed.

  Lemma lev_ok_mono e : forall L L', lev_ok L e = true -> (L <= L')%nat -> lev_ok L' e = true.
  Proof.
    induction e using pexpr_indF; intros L L' Hl Hle; cbn [lev_ok] in *; try reflexivity; try discriminate Hl.
    - apply Nat.leb_le in Hl. apply Nat.leb_le. lia.
    - apply andb_true_iff in Hl. destruct Hl as [H1 H2]. rewrite H2, andb_true_r.
      apply Nat.leb_le in H1. apply Nat.leb_le. lia.
    - revert Hl. apply forallb_impl_F. eapply Forall_impl; [|exact H]. intros x Hx Hxl. apply (Hx L L' Hxl Hle).
    - destruct L as [|L0]; [discriminate Hl|]. destruct L' as [|L0']; [lia|].
      revert Hl. apply forallb_impl_F. eapply Forall_impl; [|exact H]. intros x Hx Hxl. apply (Hx L0 L0' Hxl). lia.
    - apply (IHe L L' Hl Hle).
    - destruct nm; [destruct k; discriminate Hl|].
      assert (Hup : forallb (lev_ok L) ps = true -> forallb (lev_ok L') ps = true).
      { apply forallb_impl_F. eapply Forall_impl; [|exact H]. intros x Hx Hxl. apply (Hx L L' Hxl Hle). }
      assert (Hdn : match L with O => false | S L0 => forallb (lev_ok L0) ps end = true ->
                    match L' with O => false | S L0 => forallb (lev_ok L0) ps end = true).
      { destruct L as [|L0]; [discriminate|]. destruct L' as [|L0']; [lia|].
        apply forallb_impl_F. eapply Forall_impl; [|exact H]. intros x Hx Hxl. apply (Hx L0 L0' Hxl). lia. }
      destruct k; [apply Hup, Hl|apply Hdn, Hl..].
  Qed.

  (* the operands of an observer at level S L are at level L (hence also at S L) *)
  Lemma lev_ok_choice L ps e : lev_ok (S L) (PChoice ps) = true -> In e ps -> lev_ok L e = true.
  Proof. cbn [lev_ok]. intros H Hin. eapply forallb_in; eassumption. Qed.

  (* elements of any unnamed sequence at level L are at level L; of a non-SeqOf one, strictly below *)
  Lemma lev_ok_seq_elems L k ip s ps : lev_ok L (PSeq k ip s None ps) = true -> forallb (lev_ok L) ps = true.
  Proof.
    cbn [lev_ok]. intros H.
    assert (Hdn : match L with O => false | S L0 => forallb (lev_ok L0) ps end = true -> forallb (lev_ok L) ps = true).
    { destruct L as [|L0]; [discriminate|]. apply forallb_impl_F. apply Forall_forall. intros x _ Hx.
      apply (lev_ok_mono x L0 (S L0) Hx). lia. }
    destruct k; [exact H|apply Hdn, H..].
  Qed.
  Lemma lev_ok_seq_obs L k ip s ps : k <> SeqOf -> lev_ok L (PSeq k ip s None ps) = true ->
    exists L0, L = S L0 /\ forallb (lev_ok L0) ps = true.
  Proof.
    cbn [lev_ok]. intros Hk H. destruct k; [congruence| | | |];
      (destruct L as [|L0]; [discriminate H|exists L0; split; [reflexivity|exact H]]).
  Qed.

  Definition RL (L : nat) (k : N) : bool := Nat.leb (rl k) L.
  Definition ML (L : nat) (idx : N) : bool := Nat.leb (ml idx) L.

  Lemma lev_ok_closed e : forall L, lev_ok L e = true -> closed (RL L) (ML L) e = true.
  Proof.
    induction e using pexpr_indF; intros L Hl; cbn [lev_ok closed] in *; try reflexivity; try discriminate Hl.
    - exact Hl.
    - apply andb_true_iff in Hl. destruct Hl as [H1 H2]. unfold ML at 1. rewrite H1. cbn [andb].
      apply IHe. apply Nat.leb_le in H1. apply (lev_ok_mono e _ _ H2 H1).
    - revert Hl. apply forallb_impl_F. eapply Forall_impl; [|exact H]. intros x Hx Hxl. apply (Hx L Hxl).
    - destruct L as [|L0]; [discriminate Hl|].
      revert Hl. apply forallb_impl_F. eapply Forall_impl; [|exact H]. intros x Hx Hxl. apply (Hx (S L0)).
      apply (lev_ok_mono x L0 (S L0) Hxl). lia.
    - apply (IHe L Hl).
    - destruct nm; [destruct k; discriminate Hl|].
      pose proof (lev_ok_seq_elems L k ip s ps Hl) as Hall.
      revert Hall. apply forallb_impl_F. eapply Forall_impl; [|exact H]. intros x Hx Hxl. apply (Hx L Hxl).
  Qed.
  Lemma lev_closed_rules rules L : rules_lev rules -> closed_rules (RL L) (ML L) rules.
  Proof.
    intros Hr k body Hk Hb. apply lev_ok_closed. unfold RL in Hk. apply Nat.leb_le in Hk.
    apply (lev_ok_mono body _ _ (Hr k body Hb) Hk).
  Qed.

  Section Meaning.
    Variable inp : input.
    Variable rules : list pexpr.
    Hypothesis Hlev : rules_lev rules.

    (* "the operand has a match", by recursion on the level *)
    Fixpoint hasL (L : nat) : pexpr -> N -> Prop :=
      match L with
      | O => fun _ _ => False
      | S L' => fun e pos => exists d, exact1 inp rules (hasL L') e pos d
      end.
    (* THE exact derivations of an expression of level <= L *)
    Definition exact (L : nat) : pexpr -> N -> dtree -> Prop := exact1 inp rules (hasL L).
    Definition exacts (L : nat) := exact_seq inp rules (hasL L).

    (* changing [has] on operands that are never asked changes nothing *)
    Lemma exact1_swap L (h h' : pexpr -> N -> Prop) :
      (forall L0 e pos, L = S L0 -> lev_ok L0 e = true -> h' e pos -> h e pos) ->
      forall e pos d, exact1 inp rules h e pos d -> lev_ok L e = true -> exact1 inp rules h' e pos d.
    Proof.
      intros Hh e pos d H.
      induction H using exact1_ind2 with
        (P0 := fun k ps depth pos ds => forallb (lev_ok L) ps = true -> exact_seq inp rules h' k ps depth pos ds);
        intros Hl.
      - apply XTerm; assumption.
      - apply XEmpty.
      - apply XEnd; assumption.
      - eapply XRef; [eassumption|]. apply IHexact1. cbn [lev_ok] in Hl. apply Nat.leb_le in Hl.
        apply (lev_ok_mono body _ _ (Hlev k body H) Hl).
      - apply XMemo, IHexact1. cbn [lev_ok] in Hl. apply andb_true_iff in Hl. destruct Hl as [H1 H2].
        apply Nat.leb_le in H1. apply (lev_ok_mono e _ _ H2 H1).
      - eapply XAny; [eassumption|]. apply IHexact1. cbn [lev_ok] in Hl. eapply forallb_nth; eassumption.
      - destruct L as [|L0]; [discriminate Hl|].
        eapply XChoice; [eassumption| |].
        + apply IHexact1. apply (lev_ok_mono e L0 (S L0)); [|lia].
          apply (lev_ok_choice L0 ps e Hl). eapply nth_error_In; eassumption.
        + intros j e' Hj He' Hx. apply (H1 j e' Hj He'). apply (Hh L0 e' pos eq_refl); [|exact Hx].
          apply (lev_ok_choice L0 ps e' Hl). eapply nth_error_In; eassumption.
      - apply XOptS, IHexact1. exact Hl.
      - apply XOptN.
      - apply XSeq; [apply IHexact1; apply (lev_ok_seq_elems L k ip single ps Hl)|assumption|].
        intros e' He' Hx. apply (H1 e' He').
        destruct k.
        + exfalso. cbn [seq_lencheck] in H0. apply Nat.eqb_eq in H0. cbn [seq_lookup] in He'. rewrite H0 in He'.
          assert (nth_error ps (length ps) = None) by (apply nth_error_None; lia). congruence.
        + destruct (lev_ok_seq_obs L SeqTry ip single ps ltac:(discriminate) Hl) as [L0 [-> Hall]].
          apply (Hh L0 e' _ eq_refl); [|exact Hx]. apply (forallb_in _ _ _ Hall (seq_lookup_in _ _ _ _ He')).
        + destruct (lev_ok_seq_obs L SeqFirstOrAll ip single ps ltac:(discriminate) Hl) as [L0 [-> Hall]].
          apply (Hh L0 e' _ eq_refl); [|exact Hx]. apply (forallb_in _ _ _ Hall (seq_lookup_in _ _ _ _ He')).
        + destruct (lev_ok_seq_obs L (SMany allowEmpty) ip single ps ltac:(discriminate) Hl) as [L0 [-> Hall]].
          apply (Hh L0 e' _ eq_refl); [|exact Hx]. apply (forallb_in _ _ _ Hall (seq_lookup_in _ _ _ _ He')).
        + destruct (lev_ok_seq_obs L (SSepBy allowEmpty) ip single ps ltac:(discriminate) Hl) as [L0 [-> Hall]].
          apply (Hh L0 e' _ eq_refl); [|exact Hx]. apply (forallb_in _ _ _ Hall (seq_lookup_in _ _ _ _ He')).
      - apply XSnil.
      - eapply XScons; [eassumption| |apply IHexact0, Hl].
        apply IHexact1. apply (forallb_in _ _ _ Hl (seq_lookup_in _ _ _ _ H)).
    Qed.

    (* the meaning of an expression of level <= L is the same at level L + 1 ... *)
    Lemma exact_level_up : forall L e pos d, lev_ok L e = true -> (exact L e pos d <-> exact (S L) e pos d).
    Proof.
      induction L as [|L IH]; intros e pos d Hl; unfold exact.
      - split; intros H; (eapply exact1_swap; [|exact H|exact Hl]); intros L0 e0 pos0 E; discriminate E.
      - split; intros H; (eapply exact1_swap; [|exact H|exact Hl]); intros L0 e0 pos0 E He0 Hx;
          inversion E; subst L0; cbn [hasL] in *; destruct Hx as [d0 Hd0]; exists d0.
        + apply (proj2 (IH e0 pos0 d0 He0)). exact Hd0.
        + apply (proj1 (IH e0 pos0 d0 He0)). exact Hd0.
    Qed.
    (* ... hence at every larger level *)
    Lemma exact_level_indep L L' e pos d : lev_ok L e = true -> (L <= L')%nat -> (exact L e pos d <-> exact L' e pos d).
    Proof.
      intros Hl Hle. induction Hle as [|L' Hle IH]; [tauto|].
      rewrite IH. apply exact_level_up. apply (lev_ok_mono e L L' Hl Hle).
    Qed.

    (* [hasL top] is consistent with [exact top] on every operand that an observer of level <= top can ask *)
    Lemma has_consistent top L e pos : (L < top)%nat -> lev_ok L e = true ->
      (hasL top e pos <-> exists d, exact top e pos d).
    Proof.
      intros Hlt Hl. destruct top as [|t]; [lia|]. cbn [hasL].
      assert (Ht : lev_ok t e = true) by (apply (lev_ok_mono e L t Hl); lia).
      split; intros [d Hd]; exists d; [apply (proj1 (exact_level_up t e pos d Ht)) | apply (proj2 (exact_level_up t e pos d Ht))]; exact Hd.
    Qed.

    Lemma exact_valid L e pos d : exact L e pos d -> valid inp rules e pos d.
    Proof. apply exact1_valid. Qed.

    (* level 0 is the monotone fragment: every valid derivation is exact there, whatever [has] is *)
    Lemma lev0_exact1 (h : pexpr -> N -> Prop) e pos d :
      valid inp rules e pos d -> lev_ok 0 e = true -> exact1 inp rules h e pos d.
    Proof.
      intros H.
      induction H using valid_ind2 with
        (P0 := fun k ps depth pos ds => forallb (lev_ok 0) ps = true -> exact_seq inp rules h k ps depth pos ds);
        intros Hl; cbn [lev_ok] in Hl; try discriminate Hl.
      - apply XTerm; assumption.
      - apply XEmpty.
      - apply XEnd; assumption.
      - eapply XRef; [eassumption|]. apply IHvalid. apply Nat.leb_le in Hl.
        apply (lev_ok_mono body _ _ (Hlev k body H) Hl).
      - apply XMemo, IHvalid. apply andb_true_iff in Hl. destruct Hl as [H1 H2]. apply Nat.leb_le in H1.
        apply (lev_ok_mono e _ _ H2 H1).
      - eapply XAny; [eassumption|]. apply IHvalid. eapply forallb_nth; eassumption.
      - apply XOptS, IHvalid, Hl.
      - apply XOptN.
      - destruct k; try discriminate Hl. apply XSeq; [apply IHvalid, Hl|assumption|].
        intros e' He'. exfalso. cbn [seq_lencheck] in H0. apply Nat.eqb_eq in H0. cbn [seq_lookup] in He'. rewrite H0 in He'.
        assert (nth_error ps (length ps) = None) by (apply nth_error_None; lia). congruence.
      - apply XSnil.
      - eapply XScons; [eassumption| |apply IHvalid0, Hl].
        apply IHvalid. apply (forallb_in _ _ _ Hl (seq_lookup_in _ _ _ _ H)).
    Qed.
    Lemma exact0_valid e pos d : lev_ok 0 e = true -> (exact 0 e pos d <-> valid inp rules e pos d).
    Proof. intros Hl. split; [apply exact_valid|intros H; apply lev0_exact1; assumption]. Qed.

    (* level 1 is "one level": the negative premises ask for [valid] derivations of the operands *)
    Lemma exact_level1 e pos d : lev_ok 1 e = true ->
      (exact 1 e pos d <-> exact1 inp rules (fun e0 p0 => exists d0, valid inp rules e0 p0 d0) e pos d).
    Proof.
      intros Hl. unfold exact. split; intros H; (eapply exact1_swap; [|exact H|exact Hl]);
        intros L0 e0 p0 E He0; inversion E; subst L0; cbn [hasL].
      - intros [d0 Hd0]. exists d0. apply lev0_exact1; assumption.
      - intros [d0 Hd0]. exists d0. apply (exact1_valid _ _ _ _ _ _ Hd0).
    Qed.
  End Meaning.
End Levels.
