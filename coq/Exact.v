(* Exact.v — C01, the NON-MONOTONE operators: Choice follows the first-match rule, SeqTry /
   SeqFirstOrAll / Many / SepBy return exactly the maximal paths (engine side).
   Part A: the operators over operands that satisfy an abstract "operand contract" (sound, complete
           for compatible derivations, empty result = no derivation).
   Part B (stage 1): the contract holds for operands of the monotone, End-free, wf fragment by
           Sound.sound_inv / Complete.complete_inv / Pump.pump_ends: [empty_iff_no_derivation],
           [C01_choice_exact], [C01_seq_maximal_exact].
   Part C (stage 2): stratified grammars of any depth: [C01_exact_sound], [C01_exact_complete],
           [C01_exact_complete_ends] for [ExactSpec.exact].
   Part D (stage 3): non-vacuity examples and the counterexample for an unstratified Choice.
   Specification side: ExactSpec.v. *)
From Coq Require Import String List NArith Bool Arith Lia.
From Parsley Require Import Obs Base Grammar Engine TermFacts TermTok EngineFacts SetMapFacts Spec Sound Complete Pump ExactSpec.
Import ListNotations.
Open Scope N_scope.

(* ------------------------------------------------------------------------------------- *)
(* small facts                                                                            *)
(* ------------------------------------------------------------------------------------- *)
Lemma is_eof_handle_any q p ch : noeof ch -> is_eof_node (handle_result q p ch) = false.
Proof.
  intros Hn. unfold handle_result. destruct ch as [|n [|n2 t]].
  - destruct (q_kind q); reflexivity.
  - destruct (q_single q); [apply Hn; left; reflexivity|destruct (q_kind q); reflexivity].
  - destruct (q_kind q); reflexivity.
Qed.
Lemma noeof_rev ns : noeof ns -> noeof (rev ns).
Proof. intros H n Hn. apply H. apply in_rev. exact Hn. Qed.
Lemma noeof_cons n ns : is_eof_node n = false -> noeof ns -> noeof (n :: ns).
Proof. intros H1 H2 x [Hx|Hx]; [subst x; exact H1|apply H2, Hx]. Qed.
Lemma subset_refl a : subset a a.
Proof. intros m Hm; exact Hm. Qed.
Lemma subset_trans a b c : subset a b -> subset b c -> subset a c.
Proof. intros H1 H2 m Hm. apply H2, H1, Hm. Qed.
Lemma seqkind_eq_SeqOf k : {k = SeqOf} + {k <> SeqOf}.
Proof. destruct k; [left; reflexivity|right; discriminate..]. Qed.
Lemma lencheck_SeqOf_none ps n : seq_lencheck SeqOf (length ps) n = true -> seq_lookup SeqOf ps n = None.
Proof.
  cbn [seq_lencheck seq_lookup]. intros H. apply Nat.eqb_eq in H. subst n. apply nth_error_None. lia.
Qed.

(* ------------------------------------------------------------------------------------- *)
(* Part A: the non-monotone operators over an abstract operand contract                   *)
(* ------------------------------------------------------------------------------------- *)
Section Abs.
  Variable inp : input.
  Variable D : pexpr -> N -> dtree -> Prop.     (* the derivations of operands *)
  Variable Inv : ctx -> Prop.                   (* the cache invariant *)
  Variable LC : intmap -> Prop.                 (* admissible left-recursion contexts *)
  Variable okm : pexpr -> Prop.                 (* operands in monotone position *)
  Variable oko : pexpr -> Prop.                 (* operands whose failure is observed *)
  Variable rp : ptype.
  Variable rs : stype.

  Notation in_file := (in_file inp).
  Definition dsound (e : pexpr) (pos : N) (ns : list node) : Prop :=
    forall n, In n ns -> exists d, D e pos d /\ yield d = n.
  Definition dcomplete (e : pexpr) (pos : N) (ns : list node) (l' : intmap) : Prop :=
    forall d, D e pos d -> compat inp l' pos d -> In (yield d) ns.

  Hypothesis LC_nil : LC [].
  Hypothesis Inv_reg : forall c, Inv c -> Inv (reg_call c).
  Hypothesis Inv_seterr : forall c e, Inv c -> Inv (set_error c e).
  Hypothesis D_file : forall e pos d, D e pos d -> in_file pos -> in_file (dend d).
  Hypothesis oko_okm : forall e, oko e -> okm e.
  (* the operand contract: sound, no EOF node, complete for every derivation compatible with a
     context that is at least the current one on the curtailing parsers *)
  Hypothesis Hm : forall e c stk l pos ns cp err c',
      okm e -> Inv c -> in_file pos -> LC l -> rp e c stk l pos = Ok (ns, cp, err, c') ->
      Inv c' /\ dsound e pos ns /\ noeof ns /\ forall l', ge_on cp l l' -> dcomplete e pos ns l'.
  (* and for observed operands: an empty result means that there is no derivation at all *)
  Hypothesis Ho : forall e c stk l pos cp err c',
      oko e -> Inv c -> in_file pos -> LC l -> rp e c stk l pos = Ok ([], cp, err, c') -> nod D e pos.

  (* ---------- Choice ---------- *)
  Lemma choice_loop_x stk l pos : forall ps done c cp err nf ns cp' err' c',
    (forall e, In e ps -> oko e) -> Inv c -> in_file pos -> LC l ->
    (forall e, In e done -> nod D e pos) ->
    choice_loop rp stk l pos ps c cp err nf = Ok (ns, cp', err', c') ->
    Inv c' /\ subset cp cp' /\ noeof ns /\
    ((ns = [] /\ forall e, In e (done ++ ps) -> nod D e pos) \/
     (exists pre e post c0 cp0 err0 c1, ps = pre ++ e :: post /\
        (forall e', In e' (done ++ pre) -> nod D e' pos) /\ ns <> [] /\
        Inv c0 /\ rp e (reg_call c0) stk l pos = Ok (ns, cp0, err0, c1) /\
        dsound e pos ns /\ forall l', ge_on cp' l l' -> dcomplete e pos ns l')).
  Proof.
    induction ps as [|q ps IH]; intros done c cp err nf ns cp' err' c' Hok Hc Hin Hl Hdone H; cbn [choice_loop] in H.
    - inversion H; subst. split; [exact Hc|]. split; [apply subset_refl|]. split; [apply noeof_nil|].
      left. split; [reflexivity|]. rewrite app_nil_r. exact Hdone.
    - apply bind_ok in H. destruct H as [[[[res2 cp2] err2] c2] [H1 H2]].
      assert (Hoq : oko q) by (apply Hok; left; reflexivity).
      destruct (Hm q (reg_call c) stk l pos res2 cp2 err2 c2 (oko_okm q Hoq) (Inv_reg c Hc) Hin Hl H1)
        as [Hc2 [Hs2 [Hn2 Hcomp2]]].
      destruct (alt_err pos err nf err2) as [err1 nf1].
      destruct res2 as [|n2 res2].
      + pose proof (Ho q (reg_call c) stk l pos cp2 err2 c2 Hoq (Inv_reg c Hc) Hin Hl H1) as Hnod.
        destruct (IH (done ++ [q]) c2 (set_union cp cp2) err1 nf1 ns cp' err' c') as [A [B [C Dj]]]; try assumption.
        * intros e He. apply Hok. right; exact He.
        * intros e He. apply in_app_or in He. destruct He as [He|[He|[]]]; [apply Hdone, He|subst e; exact Hnod].
        * split; [exact A|]. split; [eapply subset_trans; [apply subset_union_l|exact B]|]. split; [exact C|].
          destruct Dj as [[En Hall]|[pre [e [post [c0 [cp0 [err0 [c1 [Eps [Hpre Hrest]]]]]]]]]].
          -- left. split; [exact En|]. intros e He. apply Hall. rewrite <- app_assoc. exact He.
          -- right. exists (q :: pre), e, post, c0, cp0, err0, c1. split; [rewrite Eps; reflexivity|].
             split; [|exact Hrest]. intros e' He'. apply Hpre. rewrite <- app_assoc. exact He'.
      + inversion H2; subst ns cp' err' c'. split; [apply Inv_seterr, Hc2|].
        split; [apply subset_union_l|]. split; [exact Hn2|].
        right. exists [], q, ps, c, cp2, err2, c2. split; [reflexivity|].
        split; [rewrite app_nil_r; exact Hdone|]. split; [discriminate|]. split; [exact Hc|]. split; [exact H1|].
        split; [exact Hs2|]. intros l' Hge. apply Hcomp2. eapply ge_on_sub; [apply subset_union_r|exact Hge].
  Qed.

  (* the first-match rule, with alternative numbers *)
  Lemma choice_x stk l pos ps c ns cp err c' :
    (forall e, In e ps -> oko e) -> Inv c -> in_file pos -> LC l ->
    choice_loop rp stk l pos ps c [] None None = Ok (ns, cp, err, c') ->
    Inv c' /\ noeof ns /\
    ((ns = [] /\ forall e, In e ps -> nod D e pos) \/
     (exists i e, nth_error ps i = Some e /\
        (forall j e', (j < i)%nat -> nth_error ps j = Some e' -> nod D e' pos) /\ ns <> [] /\
        (exists c0 cp0 err0 c1, Inv c0 /\ rp e (reg_call c0) stk l pos = Ok (ns, cp0, err0, c1)) /\
        dsound e pos ns /\ forall l', ge_on cp l l' -> dcomplete e pos ns l')).
  Proof.
    intros Hok Hc Hin Hl H.
    destruct (choice_loop_x stk l pos ps [] c [] None None ns cp err c' Hok Hc Hin Hl (fun e (F : In e []) => match F with end) H)
      as [A [_ [C Dj]]].
    split; [exact A|]. split; [exact C|].
    destruct Dj as [[En Hall]|[pre [e [post [c0 [cp0 [err0 [c1 [Eps [Hpre [Hne [Hc0 [Hrun [Hs Hcm]]]]]]]]]]]]]].
    - left. split; [exact En|exact Hall].
    - right. exists (length pre), e. subst ps.
      split; [rewrite nth_error_app2 by lia; rewrite Nat.sub_diag; reflexivity|].
      split; [|split; [exact Hne|split; [exists c0, cp0, err0, c1; split; assumption|split; assumption]]].
      intros j e' Hj He'. apply Hpre. cbn [app]. rewrite nth_error_app1 in He' by exact Hj.
      eapply nth_error_In; exact He'.
  Qed.

  (* ---------- the sequence family ---------- *)
  (* which sequences: SeqOf over operands in monotone position, or any kind over observed operands *)
  Definition elems (q : seqinfo) : Prop :=
    (q_kind q = SeqOf /\ forall e, In e (q_ps q) -> okm e) \/ (forall e, In e (q_ps q) -> oko e).
  Lemma elems_okm q e : elems q -> In e (q_ps q) -> okm e.
  Proof. intros [[_ H]|H] Hin; [apply H, Hin|apply oko_okm, H, Hin]. Qed.

  Notation dseqD := (dseq D).
  Notation maxD := (maximal D).

  (* the search at depth d, position p: no early stop (no EOF node anywhere), every new result is a
     maximal path from here with the right total length, every maximal compatible path is emitted *)
  Definition sx (rs0 : stype) : Prop :=
    forall q d c stk l p m st stop st' c',
      elems q -> Inv c -> in_file p -> LC l -> noeof (s_nodes st) -> noeof (s_res st) ->
      rs0 q d c stk l p m st = Ok (stop, st', c') ->
      Inv c' /\ stop = false /\ noeof (s_res st') /\ subset (s_cp st) (s_cp st') /\ incl (s_res st) (s_res st') /\
      (forall n, In n (s_res st') -> In n (s_res st) \/
         exists ds, dseqD (q_kind q) (q_ps q) d p ds /\
                    seq_lencheck (q_kind q) (length (q_ps q)) (d + length ds) = true /\
                    maxD (q_kind q) (q_ps q) d p ds /\
                    n = handle_result q p (rev (s_nodes st) ++ map yield ds)) /\
      (forall l', (if m then ge_on (s_cp st') l l' else l' = l) ->
         forall ds, dseqD (q_kind q) (q_ps q) d p ds -> compat_seq inp l' p ds ->
           seq_lencheck (q_kind q) (length (q_ps q)) (d + length ds) = true ->
           maxD (q_kind q) (q_ps q) d p ds ->
           In (handle_result q p (rev (s_nodes st) ++ map yield ds)) (s_res st')).

  Hypothesis Hs : sx rs.

  Lemma alts_loop_x q d stk l p m prefix e :
    elems q -> seq_lookup (q_kind q) (q_ps q) d = Some e -> in_file p -> LC l -> noeof prefix ->
    forall ns st c stop st' c', Inv c -> noeof ns -> dsound e p ns -> noeof (s_res st) ->
    alts_loop rs q d stk l p m prefix ns st c = Ok (stop, st', c') ->
    Inv c' /\ stop = false /\ noeof (s_res st') /\ subset (s_cp st) (s_cp st') /\ incl (s_res st) (s_res st') /\
    (forall n', In n' (s_res st') -> In n' (s_res st) \/
       exists n ds, In n ns /\ dseqD (q_kind q) (q_ps q) (S d) (node_rpos n) ds /\
                    seq_lencheck (q_kind q) (length (q_ps q)) (S d + length ds) = true /\
                    maxD (q_kind q) (q_ps q) (S d) (node_rpos n) ds /\
                    n' = handle_result q (node_rpos n) (rev (n :: prefix) ++ map yield ds)) /\
    (forall l', (if m then ge_on (s_cp st') l l' else l' = l) ->
       forall n ds, In n ns -> dseqD (q_kind q) (q_ps q) (S d) (node_rpos n) ds ->
         compat_seq inp (if p <? node_rpos n then [] else l') (node_rpos n) ds ->
         seq_lencheck (q_kind q) (length (q_ps q)) (S d + length ds) = true ->
         maxD (q_kind q) (q_ps q) (S d) (node_rpos n) ds ->
         In (handle_result q (node_rpos n) (rev (n :: prefix) ++ map yield ds)) (s_res st')).
  Proof.
    intros Hel Hlk Hin Hl Hpre. induction ns as [|n0 ns IH]; intros st c stop st' c' Hc Hnn Hsnd Hnr H; cbn [alts_loop] in H.
    - inversion H; subst. split; [exact Hc|]. split; [reflexivity|]. split; [exact Hnr|].
      split; [apply subset_refl|]. split; [intros x Hx; exact Hx|].
      split; [intros n' Hn'; left; exact Hn'|]. intros l' _ n ds [].
    - apply bind_ok in H. destruct H as [[[stop1 st1] c1] [H1 H2]].
      destruct (Hsnd n0 (or_introl eq_refl)) as [dn [Hdn Hyn]].
      assert (Hin1 : in_file (node_rpos n0)).
      { pose proof (D_file _ _ _ Hdn Hin) as Hx. unfold dend in Hx. rewrite Hyn in Hx. exact Hx. }
      assert (Hl1 : LC (if p <? node_rpos n0 then [] else l)) by (destruct (p <? node_rpos n0); assumption).
      destruct (Hs q (S d) c stk (if p <? node_rpos n0 then [] else l) (node_rpos n0)
                   (if p <? node_rpos n0 then false else m)
                   {| s_cp := s_cp st; s_res := s_res st; s_err := s_err st; s_nodes := n0 :: prefix |}
                   stop1 st1 c1 Hel Hc Hin1 Hl1
                   (noeof_cons n0 prefix (Hnn n0 (or_introl eq_refl)) Hpre) Hnr H1)
        as [Hc1 [Es1 [Nr1 [Sub1 [Inc1 [Snd1 Comp1]]]]]].
      cbn [s_cp s_res s_nodes] in Sub1, Inc1, Snd1, Comp1. subst stop1.
      destruct (IH st1 c1 stop st' c' Hc1 (fun x Hx => Hnn x (or_intror Hx)) (fun x Hx => Hsnd x (or_intror Hx)) Nr1 H2)
        as [Hc' [Es [Nr2 [Sub2 [Inc2 [Snd2 Comp2]]]]]].
      split; [exact Hc'|]. split; [exact Es|]. split; [exact Nr2|].
      split; [eapply subset_trans; eassumption|]. split; [intros x Hx; apply Inc2, Inc1, Hx|]. split.
      + intros n' Hn'. destruct (Snd2 n' Hn') as [Hold|[n [ds [Hn Hrest]]]].
        * destruct (Snd1 n' Hold) as [Hold1|[ds [A [B [C E]]]]]; [left; exact Hold1|].
          right. exists n0, ds. split; [left; reflexivity|]. split; [exact A|]. split; [exact B|]. split; [exact C|exact E].
        * right. exists n, ds. split; [right; exact Hn|exact Hrest].
      + intros l' Hcond n ds [En|Hn] Hv Hcm Hlen Hmax.
        * subst n. apply Inc2.
          apply (Comp1 (if p <? node_rpos n0 then [] else l')); [|exact Hv|exact Hcm|exact Hlen|exact Hmax].
          destruct (p <? node_rpos n0); [reflexivity|].
          destruct m; [|exact Hcond]. eapply ge_on_sub; [exact Sub2|exact Hcond].
        * apply (Comp2 l' Hcond n ds Hn Hv Hcm Hlen Hmax).
  Qed.

  Lemma seq_step_x : sx (seq_step rp rs).
  Proof.
    intros q d c stk l p m st stop st' c' Hel Hc Hin Hl Hnn Hnr H. unfold seq_step in H.
    apply bind_ok in H. destruct H as [[[[res cp] err] c1] [H1 H2]].
    set (st1 := {| s_cp := if m then set_union (s_cp st) cp else s_cp st; s_res := s_res st;
                   s_err := keep_max (s_err st) err; s_nodes := s_nodes st |}) in *.
    assert (Hsub1 : subset (s_cp st) (s_cp st1)).
    { intros x Hx. cbn [st1 s_cp]. destruct m; [rewrite set_mem_union, Hx; reflexivity | exact Hx]. }
    assert (Hcpsub : m = true -> subset cp (s_cp st1)).
    { intros -> x Hx. cbn [st1 s_cp]. rewrite set_mem_union, Hx, orb_true_r. reflexivity. }
    (* what the sub-call gives *)
    assert (Hsubcall : Inv c1 /\ noeof res /\
              (forall e, seq_lookup (q_kind q) (q_ps q) d = Some e ->
                 dsound e p res /\ (forall l', ge_on cp l l' -> dcomplete e p res l') /\
                 (res = [] -> q_kind q <> SeqOf -> nod D e p)) /\
              (seq_lookup (q_kind q) (q_ps q) d = None -> res = [])).
    { destruct (seq_lookup (q_kind q) (q_ps q) d) as [e|] eqn:Eq.
      - pose proof (seq_lookup_in _ _ _ _ Eq) as Hine.
        destruct (Hm e (reg_call c) stk l p res cp err c1 (elems_okm q e Hel Hine) (Inv_reg c Hc) Hin Hl H1)
          as [A [B [C E]]].
        split; [exact A|]. split; [exact C|]. split; [|discriminate].
        intros e' Ee'. inversion Ee'; subst e'. split; [exact B|]. split; [exact E|].
        intros -> Hk. destruct Hel as [[Hk' _]|Hobs]; [congruence|].
        apply (Ho e (reg_call c) stk l p cp err c1 (Hobs e Hine) (Inv_reg c Hc) Hin Hl H1).
      - inversion H1; subst. split; [exact Hc|]. split; [apply noeof_nil|]. split; [discriminate|reflexivity]. }
    destruct Hsubcall as [Hc1 [Hnres [Hsome Hnone]]].
    assert (Hge_cp : forall X l', subset (s_cp st1) X -> (if m then ge_on X l l' else l' = l) -> ge_on cp l l').
    { intros X l' HX Hcond. destruct m; [|subst; apply ge_on_refl].
      eapply ge_on_sub; [|exact Hcond]. intros x Hx. apply HX, Hcpsub; [reflexivity|exact Hx]. }
    (* a completion that starts with a derivation of the element is impossible when it returned nothing *)
    assert (Hnocons : res = [] -> forall X l' d0 ds, subset (s_cp st1) X -> (if m then ge_on X l l' else l' = l) ->
              dseqD (q_kind q) (q_ps q) d p (d0 :: ds) -> compat_seq inp l' p (d0 :: ds) -> False).
    { intros -> X l' d0 ds HX Hcond Hv Hcm. inversion Hv; subst. cbn [compat_seq] in Hcm. destruct Hcm as [Hcm0 _].
      match goal with Hx : seq_lookup _ _ _ = Some ?e |- _ => destruct (Hsome e Hx) as [_ [Hcmp _]] end.
      eapply (Hcmp l' (Hge_cp X l' HX Hcond)); eassumption. }
    destruct res as [|n ns].
    - destruct (seq_lencheck (q_kind q) (length (q_ps q)) d) eqn:Ed.
      + (* emission *)
        set (nd := handle_result q p (rev (s_nodes st1))) in *.
        assert (Hst' : stop = false /\ c' = c1 /\ s_res st' = append_node (s_res st) [nd] /\ s_cp st' = s_cp st1).
        { cbn [s_nodes st1 s_res s_cp s_err] in H2. destruct (s_nodes st) as [|lastn pre] eqn:En.
          - inversion H2; subst. cbn [s_res s_cp]. repeat split; reflexivity.
          - rewrite (Hnn lastn (or_introl eq_refl)) in H2. inversion H2; subst. cbn [s_res s_cp]. repeat split; reflexivity. }
        destruct Hst' as [Es [Ec [Er Ecp]]]. subst stop c'. rewrite Er, Ecp.
        split; [exact Hc1|]. split; [reflexivity|].
        split; [apply noeof_append; [exact Hnr|]; intros x [Hx|[]]; subst x; apply is_eof_handle_any, noeof_rev, Hnn|].
        split; [exact Hsub1|]. split; [intros x Hx; apply append_node_in_l; exact Hx|]. split.
        * intros n0 Hn0. apply append_node_inv in Hn0. destruct Hn0 as [Hn0|[Hn0|[]]]; [left; exact Hn0|].
          right. exists []. split; [apply DSnil|]. cbn [length]. rewrite Nat.add_0_r. split; [exact Ed|].
          split; [|subst n0; cbn [map]; rewrite app_nil_r; reflexivity].
          intros e' He'. cbn [length] in He'. rewrite Nat.add_0_r in He'. cbn [seq_end].
          destruct (Hsome e' He') as [_ [_ Hno]]. apply Hno; [reflexivity|].
          intros Hk. rewrite Hk in Ed, He'. rewrite (lencheck_SeqOf_none _ _ Ed) in He'. discriminate He'.
        * intros l' Hcond ds Hv Hcm Hlen Hmax. destruct ds as [|d0 ds].
          -- cbn [map]. rewrite app_nil_r. apply append_node_in_r. left. reflexivity.
          -- exfalso. apply (Hnocons eq_refl (s_cp st1) l' d0 ds (subset_refl _) Hcond Hv Hcm).
      + inversion H2; subst stop st' c'. cbn [st1 s_res s_cp].
        split; [exact Hc1|]. split; [reflexivity|]. split; [exact Hnr|]. split; [exact Hsub1|].
        split; [intros x Hx; exact Hx|]. split; [intros n0 Hn0; left; exact Hn0|].
        intros l' Hcond ds Hv Hcm Hlen Hmax. exfalso. destruct ds as [|d0 ds].
        * cbn [length] in Hlen. rewrite Nat.add_0_r in Hlen. congruence.
        * apply (Hnocons eq_refl (s_cp st1) l' d0 ds (subset_refl _) Hcond Hv Hcm).
    - destruct (seq_lookup (q_kind q) (q_ps q) d) as [e|] eqn:Eq; [|specialize (Hnone eq_refl); discriminate].
      destruct (Hsome e eq_refl) as [Hsnd [Hcmp _]].
      destruct (alts_loop_x q d stk l p m (s_nodes st1) e Hel Eq Hin Hl Hnn (n :: ns) st1 c1 stop st' c' Hc1 Hnres Hsnd Hnr H2)
        as [Hc' [Es [Nr2 [Sub2 [Inc2 [Snd2 Comp2]]]]]].
      split; [exact Hc'|]. split; [exact Es|]. split; [exact Nr2|].
      split; [eapply subset_trans; eassumption|]. split; [exact Inc2|]. split.
      + intros n' Hn'. destruct (Snd2 n' Hn') as [Hold|[n1 [ds [Hn1 [A [B [C E]]]]]]]; [left; exact Hold|].
        right. destruct (Hsnd n1 Hn1) as [dn [Hdn Hyn]].
        assert (Hend : dend dn = node_rpos n1) by (unfold dend; rewrite Hyn; reflexivity).
        exists (dn :: ds). split; [eapply DScons; [exact Eq|exact Hdn|rewrite Hend; exact A]|].
        cbn [length]. rewrite Nat.add_succ_r. split; [exact B|]. split.
        * intros e' He'. cbn [length] in He'. rewrite Nat.add_succ_r in He'. cbn [seq_end]. rewrite Hend. apply C, He'.
        * subst n'. cbn [rev map st1 s_nodes]. rewrite Hyn, <- app_assoc. cbn [app].
          apply handle_result_app_nonempty.
      + intros l' Hcond ds Hv Hcm Hlen Hmax. destruct ds as [|d0 ds'].
        * exfalso. specialize (Hmax e). cbn [length] in Hmax. rewrite Nat.add_0_r in Hmax. cbn [seq_end] in Hmax.
          apply (Hmax Eq). destruct (Hsnd n (or_introl eq_refl)) as [dn [Hdn _]]. exists dn. exact Hdn.
        * inversion Hv; subst. cbn [compat_seq] in Hcm. destruct Hcm as [Hcm0 Hcm1].
          match goal with Hx : seq_lookup _ _ _ = Some ?e' |- _ => rewrite Eq in Hx; inversion Hx; subst e' end.
          match goal with Hx : D e p d0, Hy : dseq _ _ _ _ (dend d0) ds' |- _ =>
            assert (Hin0 : In (yield d0) (n :: ns)) by (apply (Hcmp l' (Hge_cp _ l' Sub2 Hcond) d0 Hx Hcm0));
            specialize (Comp2 l' Hcond (yield d0) ds' Hin0 Hy Hcm1)
          end.
          cbn [length] in Hlen. rewrite Nat.add_succ_r in Hlen. specialize (Comp2 Hlen).
          assert (Hmax' : maxD (q_kind q) (q_ps q) (S d) (node_rpos (yield d0)) ds').
          { intros e' He'. specialize (Hmax e'). cbn [length] in Hmax. rewrite Nat.add_succ_r in Hmax.
            cbn [seq_end] in Hmax. apply Hmax, He'. }
          specialize (Comp2 Hmax').
          cbn [rev map] in *. rewrite <- app_assoc in Comp2. cbn [app] in Comp2. cbn [st1 s_nodes] in Comp2.
          erewrite handle_result_app_nonempty. exact Comp2.
  Qed.
End Abs.

(* ------------------------------------------------------------------------------------- *)
(* Part B (stage 1): ONE LEVEL — a non-monotone operator over monotone operands           *)
(* ------------------------------------------------------------------------------------- *)
Lemma mono_frag e : mono e = true -> frag e = true.
Proof.
  induction e using pexpr_indF; cbn [mono frag]; intros Hm; try reflexivity; try discriminate Hm; try (apply IHe, Hm).
  - revert Hm. apply forallb_impl_F. exact H.
  - destruct k; try discriminate Hm. destruct nm; try discriminate Hm. revert Hm. apply forallb_impl_F. exact H.
Qed.

Lemma exact1_seq_inv inp rules (has : pexpr -> N -> Prop) k ip s ps pos d :
  exact1 inp rules has (PSeq k ip s None ps) pos d ->
  exists ds, d = DSeq {| q_kind := k; q_ip := ip; q_single := s; q_ps := ps |} pos ds /\
             exact_seq inp rules has k ps 0%nat pos ds /\
             seq_lencheck k (length ps) (length ds) = true /\
             (forall e', seq_lookup k ps (length ds) = Some e' -> ~ has e' (seq_end pos ds)).
Proof. intros H. inversion H; subst. eexists. split; [reflexivity|]. split; [assumption|]. split; assumption. Qed.

Section Stage1.
  Variable inp : input.
  Variable rules : list pexpr.
  Variable site : N -> option pexpr.
  Hypothesis rules_wf : wf_rules rules site.
  Hypothesis rules_mono : forall k body, nth_N rules k = Some body -> mono body = true.
  Hypothesis rules_ef : forall k body, nth_N rules k = Some body -> endfree body = true.
  (* [R], [M]: rules and Memoize indexes that the operands can reach; the operator may be called
     with any left-recursion context that has no counter for an index in [M].  For a call with the
     empty context take R = M = everything (see the corollaries [_nil]). *)
  Variable R : N -> bool.
  Variable M : N -> bool.
  Hypothesis rules_cl : closed_rules R M rules.

  Notation valid := (valid inp rules).
  Notation wf := (wf rules site).
  Notation in_file := (in_file inp).

  Lemma rules_frag : frag_rules rules.
  Proof. intros k body H. apply mono_frag. eapply rules_mono; exact H. Qed.

  (* the invariants of Sound.v and Complete.v together *)
  Definition cinv (c : ctx) : Prop := cache_sound inp rules site c /\ cache_c inp rules site c.
  (* an operand: monotone, End-free, well formed, and only reaching [R] / [M] *)
  Definition opd (e : pexpr) : Prop := wf e /\ mono e = true /\ endfree e = true /\ closed R M e = true.

  Lemma cinv_ctx0 : cinv ctx0.
  Proof. split; [apply csound_ctx0|apply cache_c0]. Qed.

  (* what a call of an operand from ANY context satisfying the invariants returns *)
  Lemma operand_call f e c stk l pos ns cp err c' :
    opd e -> cinv c -> in_file pos -> parse inp rules f e c stk l pos = Ok (ns, cp, err, c') ->
    cinv c' /\ dsound valid e pos ns /\ noeof ns /\ forall l', ge_on cp l l' -> dcomplete inp valid e pos ns l'.
  Proof.
    intros [Hwf [Hmo [Hef _]]] [Hcs Hcc] Hin H.
    destruct (proj1 (sound_inv inp rules site rules_frag rules_wf f) e c stk l pos ns cp err c'
                (mono_frag e Hmo) Hwf Hcs Hin H) as [Hcs' Hsnd].
    destruct (proj1 (complete_inv inp rules site rules_wf rules_mono rules_ef f) e c stk l pos ns cp err c'
                Hwf Hmo (or_introl Hef) Hcc H) as [Hcc' [Hne Hcmp]].
    split; [split; assumption|]. split; [exact Hsnd|]. split; [apply Hne, Hef|exact Hcmp].
  Qed.

  (* KEY LEMMA: an operand called with a context that has no counter for an index it can reach
     returns nothing iff it has no derivation at all *)
  Theorem empty_iff_no_derivation f e c stk l pos ns cp err c' :
    opd e -> cinv c -> in_file pos -> zero_on M l ->
    parse inp rules f e c stk l pos = Ok (ns, cp, err, c') ->
    (ns = [] <-> ~ exists d, valid e pos d).
  Proof.
    intros Hop Hc Hin Hz H. destruct (operand_call f e c stk l pos ns cp err c' Hop Hc Hin H) as [_ [Hsnd [_ Hcmp]]].
    destruct Hop as [Hwf [_ [_ Hcl]]]. split.
    - intros -> [d Hd]. destruct (pump_ends inp rules site rules_wf e pos d Hd Hwf Hin) as [d' [A [_ C]]].
      apply (Hcmp l (ge_on_refl _ _) d' A).
      apply (compat_agree R M inp rules rules_cl e pos d' A Hcl [] l (zero_agree M l Hz) C).
    - intros Hno. destruct ns as [|n ns]; [reflexivity|]. exfalso. apply Hno.
      destruct (Hsnd n (or_introl eq_refl)) as [d [Hd _]]. exists d. exact Hd.
  Qed.

  (* every end position of an operand's derivations is the end of a returned node *)
  Lemma operand_ends f e c stk l pos ns cp err c' :
    opd e -> cinv c -> in_file pos -> zero_on M l ->
    parse inp rules f e c stk l pos = Ok (ns, cp, err, c') ->
    forall d, valid e pos d -> exists n, In n ns /\ node_rpos n = dend d.
  Proof.
    intros Hop Hc Hin Hz H d Hd. destruct (operand_call f e c stk l pos ns cp err c' Hop Hc Hin H) as [_ [_ [_ Hcmp]]].
    destruct Hop as [Hwf [_ [_ Hcl]]].
    destruct (pump_ends inp rules site rules_wf e pos d Hd Hwf Hin) as [d' [A [B C]]].
    exists (yield d'). split; [|exact B]. apply (Hcmp l (ge_on_refl _ _) d' A).
    apply (compat_agree R M inp rules rules_cl e pos d' A Hcl [] l (zero_agree M l Hz) C).
  Qed.

  (* the operand contract of Part A, for every fuel *)
  Lemma S1_file e pos d : valid e pos d -> in_file pos -> in_file (dend d).
  Proof. intros H Hin. apply (valid_in_file inp rules e pos d H Hin). Qed.
  Lemma S1_Hm f : forall e c stk l pos ns cp err c',
      opd e -> cinv c -> in_file pos -> zero_on M l -> parse inp rules f e c stk l pos = Ok (ns, cp, err, c') ->
      cinv c' /\ dsound valid e pos ns /\ noeof ns /\ forall l', ge_on cp l l' -> dcomplete inp valid e pos ns l'.
  Proof. intros e c stk l pos ns cp err c' Hop Hc Hin _ H. eapply operand_call; eassumption. Qed.
  Lemma S1_Ho f : forall e c stk l pos cp err c',
      opd e -> cinv c -> in_file pos -> zero_on M l -> parse inp rules f e c stk l pos = Ok ([], cp, err, c') ->
      nod valid e pos.
  Proof.
    intros e c stk l pos cp err c' Hop Hc Hin Hz H.
    apply (proj1 (empty_iff_no_derivation f e c stk l pos [] cp err c' Hop Hc Hin Hz H) eq_refl).
  Qed.

  Lemma S1_sx : forall f, sx inp valid cinv (zero_on M) opd opd (seqp inp rules f).
  Proof.
    induction f as [|f IH].
    - intros q d c stk l p m st stop st' c' _ _ _ _ _ _ H. discriminate H.
    - intros q d c stk l p m st. rewrite seqp_S.
      apply (seq_step_x inp valid cinv (zero_on M) opd opd
               (fun e c stk l p => parse inp rules f e c stk l p)
               (fun q d c stk l p m st => seqp inp rules f q d c stk l p m st)
               (zero_on_nil M) (fun c Hc => Hc) S1_file (fun e He => He) (S1_Hm f) (S1_Ho f) IH).
  Qed.

  (* ---------- Choice: first match ---------- *)
  Definition first_match (ps : list pexpr) (pos : N) (i : nat) : Prop :=
    forall j e', (j < i)%nat -> nth_error ps j = Some e' -> ~ exists d', valid e' pos d'.

  Theorem C01_choice_exact f ps c stk l pos ns cp err c' :
    (forall e, In e ps -> opd e) -> cinv c -> in_file pos -> zero_on M l ->
    parse inp rules (S f) (PChoice ps) c stk l pos = Ok (ns, cp, err, c') ->
    cinv c' /\
    ((ns = [] /\ forall e, In e ps -> ~ exists d, valid e pos d) \/
     (exists i e, nth_error ps i = Some e /\ first_match ps pos i /\ ns <> [] /\
        (* the very list the engine returns for that alternative (from the context reached after the failed ones) *)
        (exists c0 cp0 err0 c1, cinv c0 /\ parse inp rules f e (reg_call c0) stk l pos = Ok (ns, cp0, err0, c1)) /\
        (forall n, In n ns -> exists d, valid e pos d /\ yield d = n) /\
        (forall d, valid e pos d -> compat inp l pos d -> In (yield d) ns) /\
        (forall d, valid e pos d -> exists n, In n ns /\ node_rpos n = dend d))).
  Proof.
    intros Hops Hc Hin Hz H. rewrite parse_S in H. cbn [parse_step] in H.
    destruct (choice_x inp valid cinv (zero_on M) opd opd
                (fun e c stk l p => parse inp rules f e c stk l p)
                (fun c Hc => Hc) (fun c e Hc => Hc) S1_file (fun e He => He) (S1_Hm f) (S1_Ho f)
                stk l pos ps c ns cp err c' Hops Hc Hin Hz H) as [A [_ Dj]].
    split; [exact A|]. destruct Dj as [[En Hall]|[i [e [Hi [Hfirst [Hne [Hrun [Hsnd Hcmp]]]]]]]].
    - left. split; [exact En|exact Hall].
    - right. exists i, e. split; [exact Hi|]. split; [exact Hfirst|]. split; [exact Hne|]. split; [exact Hrun|].
      split; [exact Hsnd|]. split; [intros d Hd Hcm; apply (Hcmp l (ge_on_refl _ _) d Hd Hcm)|].
      destruct Hrun as [c0 [cp0 [err0 [c1 [Hc0 Hrun]]]]].
      apply (operand_ends f e (reg_call c0) stk l pos ns cp0 err0 c1 (Hops e (nth_error_In _ _ Hi)) Hc0 Hin Hz Hrun).
  Qed.

  (* the same as a characterisation of membership *)
  Corollary C01_choice_exact_iff f ps c stk l pos ns cp err c' :
    (forall e, In e ps -> opd e) -> cinv c -> in_file pos -> zero_on M l ->
    parse inp rules (S f) (PChoice ps) c stk l pos = Ok (ns, cp, err, c') ->
    (forall n, In n ns -> exists i e d, nth_error ps i = Some e /\ first_match ps pos i /\ valid e pos d /\ yield d = n) /\
    (forall i e d, nth_error ps i = Some e -> first_match ps pos i -> valid e pos d ->
       (compat inp l pos d -> In (yield d) ns) /\ exists n, In n ns /\ node_rpos n = dend d).
  Proof.
    intros Hops Hc Hin Hz H.
    destruct (C01_choice_exact f ps c stk l pos ns cp err c' Hops Hc Hin Hz H) as [_ [[En Hall]|[i [e [Hi [Hf [Hne [_ [Hsnd [Hcmp Hends]]]]]]]]]].
    - subst ns. split; [intros n []|]. intros i e d Hi _ Hd. exfalso. apply (Hall e (nth_error_In _ _ Hi)). exists d; exact Hd.
    - split.
      + intros n Hn. destruct (Hsnd n Hn) as [d [Hd Hy]]. exists i, e, d. repeat (split; [assumption|]). exact Hy.
      + intros i' e' d Hi' Hf' Hd.
        assert (Ei : i' = i).
        { destruct (lt_eq_lt_dec i' i) as [[Hlt|Heq]|Hgt]; [|exact Heq|]; exfalso.
          - apply (Hf i' e' Hlt Hi'). exists d; exact Hd.
          - destruct ns as [|n0 ns]; [apply Hne; reflexivity|].
            destruct (Hsnd n0 (or_introl eq_refl)) as [d0 [Hd0 _]]. apply (Hf' i e Hgt Hi). exists d0; exact Hd0. }
        subst i'. rewrite Hi in Hi'. inversion Hi'; subst e'. split; [apply Hcmp, Hd|apply Hends, Hd].
  Qed.

  (* ---------- the sequence family: maximal paths ---------- *)
  Definition seq_max (k : seqkind) (ps : list pexpr) (pos : N) (ds : list dtree) : Prop :=
    forall e', seq_lookup k ps (length ds) = Some e' -> ~ exists d', valid e' (seq_end pos ds) d'.

  (* one-level exact derivations: the negative premises ask for [valid] derivations of the operands *)
  Definition hasV (e : pexpr) (pos : N) : Prop := exists d, valid e pos d.
  Notation X1 := (exact1 inp rules hasV).

  Lemma mono_exact_seq (has : pexpr -> N -> Prop) k ps depth pos ds :
    forallb mono ps = true -> valid_seq inp rules k ps depth pos ds -> exact_seq inp rules has k ps depth pos ds.
  Proof.
    intros Hm H. induction H as [|k ps depth pos e d ds Hl Hv Hs IH]; [apply XSnil|].
    eapply XScons; [exact Hl| |apply IH, Hm].
    apply (mono_exact1 inp rules rules_mono); [exact Hv|].
    eapply forallb_in; [exact Hm|]. eapply seq_lookup_in; exact Hl.
  Qed.

  Lemma X1_seq k ip s ps pos ds :
    forallb mono ps = true ->
    (valid (PSeq k ip s None ps) pos (DSeq {| q_kind := k; q_ip := ip; q_single := s; q_ps := ps |} pos ds) /\ seq_max k ps pos ds
     <-> X1 (PSeq k ip s None ps) pos (DSeq {| q_kind := k; q_ip := ip; q_single := s; q_ps := ps |} pos ds)).
  Proof.
    intros Hm. split.
    - intros [Hv Hmax]. inversion Hv; subst. apply XSeq; [|assumption|exact Hmax].
      apply mono_exact_seq; assumption.
    - intros H. split; [apply (exact1_valid _ _ _ _ _ _ H)|].
      destruct (exact1_seq_inv _ _ _ _ _ _ _ _ _ H) as [ds' [E [_ [_ Hmax]]]]. inversion E; subst ds'. exact Hmax.
  Qed.

  Theorem C01_seq_maximal_exact f k ip single ps c stk l pos ns cp err c' :
    (forall e, In e ps -> opd e) -> cinv c -> in_file pos -> zero_on M l ->
    parse inp rules (S f) (PSeq k ip single None ps) c stk l pos = Ok (ns, cp, err, c') ->
    let q := {| q_kind := k; q_ip := ip; q_single := single; q_ps := ps |} in
    cinv c' /\
    (* every returned node is the yield of a valid derivation (so the length check holds) that is maximal *)
    (forall n, In n ns -> exists ds, valid (PSeq k ip single None ps) pos (DSeq q pos ds) /\ seq_max k ps pos ds /\
                                     yield (DSeq q pos ds) = n) /\
    (* every maximal derivation within the curtailment bound is returned, and every end of a maximal derivation *)
    (forall ds, valid (PSeq k ip single None ps) pos (DSeq q pos ds) -> seq_max k ps pos ds ->
       (compat inp l pos (DSeq q pos ds) -> In (yield (DSeq q pos ds)) ns) /\
       exists n, In n ns /\ node_rpos n = dend (DSeq q pos ds)).
  Proof.
    intros Hops Hc Hin Hz H q. rewrite parse_S in H. cbn [parse_step] in H. fold q in H.
    apply bind_ok in H. destruct H as [[[stop st] c0] [H1 H2]].
    assert (Hel : elems opd opd q) by (right; exact Hops).
    destruct (S1_sx f q 0%nat c stk l pos true {| s_cp := []; s_res := []; s_err := None; s_nodes := [] |}
                    stop st c0 Hel Hc Hin Hz noeof_nil noeof_nil H1)
      as [Hc0 [_ [_ [_ [_ [Snd Comp]]]]]].
    cbn [s_res s_nodes rev app q_kind q_ps] in Snd, Comp.
    assert (Ens : ns = s_res st /\ cinv c').
    { destruct (s_res st) eqn:E; inversion H2; subst; (split; [reflexivity|exact Hc0]). }
    destruct Ens as [-> Hc']. split; [exact Hc'|].
    assert (Hmono : forallb mono ps = true).
    { apply forallb_forall. intros e He. destruct (Hops e He) as [_ [Hx _]]. exact Hx. }
    assert (Hcomp : forall ds, valid (PSeq k ip single None ps) pos (DSeq q pos ds) -> seq_max k ps pos ds ->
              compat inp l pos (DSeq q pos ds) -> In (yield (DSeq q pos ds)) (s_res st)).
    { intros ds Hv Hmax Hcm. inversion Hv; subst. rewrite compat_DSeq in Hcm. cbn [yield].
      apply (Comp l (ge_on_refl _ _) ds); [apply dseq_valid; assumption|exact Hcm|assumption|exact Hmax]. }
    split.
    - intros n Hn. destruct (Snd n Hn) as [[]|[ds [A [B [C E]]]]]. exists ds.
      split; [apply VSeq; [apply dseq_valid; exact A|exact B]|]. split; [exact C|]. symmetry. exact E.
    - intros ds Hv Hmax. split; [apply Hcomp; assumption|].
      (* pump the maximal derivation: same length, same end, within the bound *)
      assert (Hwf : wf (PSeq k ip single None ps)).
      { cbn [Spec.wf]. clear - Hops. induction ps as [|x ps' IH]; [exact I|]. split.
        - destruct (Hops x (or_introl eq_refl)) as [Hx _]. exact Hx.
        - apply IH. intros e He. apply Hops. right; exact He. }
      pose proof (proj1 (X1_seq k ip single ps pos ds Hmono) (conj Hv Hmax)) as HX.
      destruct (pump_ends_x inp rules site hasV rules_wf _ _ _ HX Hwf Hin) as [d' [A [B C]]].
      destruct (exact1_seq_inv _ _ _ _ _ _ _ _ _ A) as [ds' [E _]]. subst d'.
      destruct (proj2 (X1_seq k ip single ps pos ds' Hmono) A) as [Hv' Hmax'].
      exists (yield (DSeq q pos ds')). split; [|exact B]. apply Hcomp; [exact Hv'|exact Hmax'|].
      assert (Hcl : closed R M (PSeq k ip single None ps) = true).
      { cbn [closed]. apply forallb_forall. intros e He. destruct (Hops e He) as [_ [_ [_ Hx]]]. exact Hx. }
      apply (compat_agree R M inp rules rules_cl _ pos _ Hv' Hcl [] l (zero_agree M l Hz) C).
  Qed.
End Stage1.

(* ------------------------------------------------------------------------------------- *)
(* Part C (stage 2): stratified grammars of any depth                                     *)
(* ------------------------------------------------------------------------------------- *)
Section Stage2.
  Variable inp : input.
  Variable rules : list pexpr.
  Variable site : N -> option pexpr.
  Variable rl : N -> nat.
  Variable ml : N -> nat.
  Hypothesis rules_wf : wf_rules rules site.
  Hypothesis rules_ef : forall k body, nth_N rules k = Some body -> endfree body = true.
  Hypothesis rules_lv : rules_lev rl ml rules.
  Variable top : nat.                     (* a level that bounds everything we look at *)

  Notation X := (exact1 inp rules (hasL inp rules top)).     (* = exact inp rules top *)
  Notation wf := (wf rules site).
  Notation in_file := (in_file inp).
  Notation lev_ok := (lev_ok rl ml).

  (* an expression of level L inside the universe bounded by [top] *)
  Definition good (L : nat) (e : pexpr) : Prop :=
    (L <= top)%nat /\ lev_ok L e = true /\ wf e /\ endfree e = true.
  (* the left-recursion context has no counter for an index of a level below L *)
  Definition zb (L : nat) (l : intmap) : Prop := forall idx, (ml idx < L)%nat -> map_get idx l = 0.

  Lemma zb_nil L : zb L [].
  Proof. intros idx _. reflexivity. Qed.
  Lemma zb_le L L' l : (L' <= L)%nat -> zb L l -> zb L' l.
  Proof. intros Hle H idx Hi. apply H. lia. Qed.
  Lemma good_up L L' e : good L e -> (L <= L')%nat -> (L' <= top)%nat -> good L' e.
  Proof. intros [_ [Hl [Hw He]]] Hle Ht. split; [exact Ht|]. split; [apply (lev_ok_mono rl ml e L L' Hl Hle)|]. split; assumption. Qed.

  (* the cache invariant: soundness and completeness of every entry with respect to [X] *)
  Definition xentry (idx pos : N) (r : result) : Prop :=
    in_file pos /\ (forall kv, In kv (r_lrc r) -> set_mem (fst kv) (r_cp r) = true) /\ noeof (r_nodes r) /\
    forall body, site idx = Some body ->
      dsound X (PMemo idx body) pos (r_nodes r) /\
      forall l', reusable (r_lrc r) l' = true -> dcomplete inp X (PMemo idx body) pos (r_nodes r) l'.
  Definition xinv (c : ctx) : Prop :=
    forall idx pos r, cache_find (idx, pos) (cache c) = Some r -> xentry idx pos r.
  Lemma xinv_ctx0 : xinv ctx0.
  Proof. intros idx pos r H. discriminate H. Qed.
  Lemma xinv_save c idx pos r : xinv c -> xentry idx pos r -> xinv (cache_save c idx pos r).
  Proof.
    intros Hc Hr idx' pos' r' H. unfold cache_save in H; cbn [cache cache_find fst snd] in H.
    destruct ((idx' =? idx) && (pos' =? pos)) eqn:E.
    - apply andb_true_iff in E. destruct E as [E1 E2]. apply N.eqb_eq in E1, E2. subst.
      inversion H; subst; exact Hr.
    - apply (Hc idx' pos' r' H).
  Qed.

  Lemma X_file e pos d : X e pos d -> in_file pos -> in_file (dend d).
  Proof. intros H Hin. apply (valid_in_file inp rules e pos d (exact1_valid _ _ _ _ _ _ H) Hin). Qed.

  (* consistency of [hasL top] on the operands an observer of level <= top can ask *)
  Lemma has_iff L e pos : (S L <= top)%nat -> lev_ok L e = true ->
    (hasL inp rules top e pos <-> exists d, X e pos d).
  Proof. intros Hlt Hl. apply (has_consistent rl ml inp rules rules_lv top L e pos); [lia|exact Hl]. Qed.

  Definition px (rp : ptype) : Prop :=
    forall L e c stk l pos ns cp err c', good L e -> zb L l -> xinv c -> in_file pos ->
      rp e c stk l pos = Ok (ns, cp, err, c') ->
      xinv c' /\ dsound X e pos ns /\ noeof ns /\ forall l', ge_on cp l l' -> dcomplete inp X e pos ns l'.
  Definition okoL (L : nat) (e : pexpr) : Prop := exists L0, L = S L0 /\ good L0 e.
  Definition qx (rs : stype) : Prop :=
    forall L, (L <= top)%nat -> sx inp X xinv (zb L) (good L) (okoL L) rs.

  Lemma okoL_good L e : (L <= top)%nat -> okoL L e -> good L e.
  Proof. intros Ht [L0 [-> Hg]]. apply (good_up L0 (S L0) e Hg); [lia|exact Ht]. Qed.

  (* an observed operand that returns nothing has no exact derivation *)
  Lemma observed_empty rp : px rp -> forall L e c stk l pos cp err c',
    okoL L e -> xinv c -> in_file pos -> zb L l -> rp e c stk l pos = Ok ([], cp, err, c') -> nod X e pos.
  Proof.
    intros Hp L e c stk l pos cp err c' [L0 [-> Hg]] Hc Hin Hz H [d Hd].
    destruct (Hp L0 e c stk l pos [] cp err c' Hg (zb_le (S L0) L0 l ltac:(lia) Hz) Hc Hin H) as [_ [_ [_ Hcmp]]].
    destruct Hg as [_ [Hl [Hw _]]].
    destruct (pump_ends_x inp rules site _ rules_wf e pos d Hd Hw Hin) as [d' [A [_ C]]].
    apply (Hcmp l (ge_on_refl _ _) d' A).
    apply (compat_agree (RL rl L0) (ML ml L0) inp rules (lev_closed_rules rl ml rules L0 rules_lv) e pos d'
             (exact1_valid _ _ _ _ _ _ A) (lev_ok_closed rl ml e L0 Hl) [] l); [|exact C].
    intros idx Hm. unfold ML in Hm. apply Nat.leb_le in Hm. cbn [map_get]. symmetry. apply Hz. lia.
  Qed.

  Lemma wfs_forall ps : wfs rules site ps -> forall e, In e ps -> wf e.
  Proof. intros H e He. apply (wfs_in rules site ps e H He). Qed.

  Section Step.
    Variable rp : ptype.
    Variable rs : stype.
    Hypothesis Hp : px rp.
    Hypothesis Hs : qx rs.

    (* the operand contract of Part A at level L *)
    Lemma S2_Hm L : forall e c stk l pos ns cp err c',
      good L e -> xinv c -> in_file pos -> zb L l -> rp e c stk l pos = Ok (ns, cp, err, c') ->
      xinv c' /\ dsound X e pos ns /\ noeof ns /\ forall l', ge_on cp l l' -> dcomplete inp X e pos ns l'.
    Proof. intros e c stk l pos ns cp err c' Hg Hc Hin Hz H. apply (Hp L e c stk l pos ns cp err c' Hg Hz Hc Hin H). Qed.
    Lemma S2_Ho L : forall e c stk l pos cp err c',
      okoL L e -> xinv c -> in_file pos -> zb L l -> rp e c stk l pos = Ok ([], cp, err, c') -> nod X e pos.
    Proof. intros e c stk l pos cp err c'. apply (observed_empty rp Hp). Qed.

    Lemma any_loop_xx L stk l p all : forall ps done c cp res err nf ns cp' err' c',
      all = done ++ ps -> (forall e, In e all -> good L e) -> zb L l -> xinv c -> in_file p ->
      noeof res -> dsound X (PAny all) p res ->
      (forall l', ge_on cp l l' -> forall e d, In e done -> X e p d -> compat inp l' p d -> In (yield d) res) ->
      any_loop rp stk l p ps c cp res err nf = Ok (ns, cp', err', c') ->
      xinv c' /\ subset cp cp' /\ noeof ns /\ dsound X (PAny all) p ns /\
      forall l', ge_on cp' l l' -> forall e d, In e all -> X e p d -> compat inp l' p d -> In (yield d) ns.
    Proof.
      induction ps as [|q ps IH]; intros done c cp res err nf ns cp' err' c' Eall Hg Hz Hc Hin Hne Hsnd Hres H;
        cbn [any_loop] in H.
      - rewrite app_nil_r in Eall. subst done.
        destruct res; inversion H; subst;
          (split; [exact Hc|split; [apply subset_refl|split; [exact Hne|split; [exact Hsnd|exact Hres]]]]).
      - apply bind_ok in H. destruct H as [[[[res2 cp2] err2] c2] [H1 H2]].
        assert (Hq : In q all) by (rewrite Eall; apply in_or_app; right; left; reflexivity).
        destruct (Hp L q (reg_call c) stk l p res2 cp2 err2 c2 (Hg q Hq) Hz Hc Hin H1) as [Hc2 [Hs2 [Hn2 Hcomp2]]].
        destruct (alt_err p err nf err2) as [err'' nf''].
        assert (Hnext : forall l', ge_on (set_union cp cp2) l l' -> forall e d, In e (done ++ [q]) ->
                  X e p d -> compat inp l' p d -> In (yield d) (append_node res res2)).
        { intros l' Hge e d Hine Hv Hcm. apply in_app_or in Hine. destruct Hine as [Hine|[Hine|[]]].
          - apply append_node_in_l. apply (Hres l') with (e := e); [|exact Hine|exact Hv|exact Hcm].
            eapply ge_on_sub; [apply subset_union_l|exact Hge].
          - subst e. apply append_node_in_r. apply (Hcomp2 l'); [|exact Hv|exact Hcm].
            eapply ge_on_sub; [apply subset_union_r|exact Hge]. }
        assert (Hsnd' : dsound X (PAny all) p (append_node res res2)).
        { intros n Hn. apply append_node_inv in Hn. destruct Hn as [Hn|Hn]; [apply Hsnd, Hn|].
          destruct (Hs2 n Hn) as [d [Hd Hy]]. destruct (In_nth_error all q Hq) as [i Hi].
          exists (DAlt i d). split; [eapply XAny; eassumption|exact Hy]. }
        destruct (IH (done ++ [q]) c2 (set_union cp cp2) (append_node res res2) err'' nf'' ns cp' err' c')
          as [A [B [C [E F]]]]; try assumption.
        + rewrite <- app_assoc. exact Eall.
        + apply noeof_append; assumption.
        + split; [exact A|]. split; [eapply subset_trans; [apply subset_union_l|exact B]|].
          split; [exact C|]. split; [exact E|exact F].
    Qed.

    Lemma parse_step_x : px (parse_step inp rules rp rs).
    Proof.
      intros L e c stk l p ns cp err c' Hg Hz Hc Hin H.
      destruct Hg as [Ht [Hlv [Hwf Hef]]].
      destruct e; cbn [ExactSpec.lev_ok] in Hlv; try discriminate Hlv; cbn [parse_step] in H.
      - (* PTerm *)
        destruct (term_parse inp t p) as [res0 err0] eqn:Et. inversion H; subst res0 cp err0 c'.
        split; [destruct ns as [|? ?]; [destruct err|]; exact Hc|].
        split; [|split; [eapply noeof_term; [exact Hef|exact Et]|]].
        + destruct (term_parse_cases inp t p ns err Et) as [E1|[n [E1 E2]]]; subst; [intros n []|].
          intros n' [E'|[]]. subst n'. exists (DTerm n). split; [apply XTerm; exact Et|reflexivity].
        + intros l' _ d Hv _. inversion Hv; subst.
          match goal with Hx : term_parse _ _ _ = ([_], None) |- _ => rewrite Et in Hx; inversion Hx; subst end.
          left; reflexivity.
      - (* PEmpty *)
        inversion H; subst. split; [exact Hc|]. split; [|split].
        + intros n [Hn|[]]. subst n. exists (DEmpty p). split; [apply XEmpty|reflexivity].
        + intros n [Hn|[]]. subst n. reflexivity.
        + intros l' _ d Hv _. inversion Hv; subst. left; reflexivity.
      - (* PEnd *) discriminate Hef.
      - (* PRef *)
        destruct (nth_N rules k) as [body|] eqn:Ek; [|discriminate H].
        apply Nat.leb_le in Hlv.
        assert (Hgb : good (rl k) body).
        { split; [lia|]. split; [apply (rules_lv k body Ek)|]. split; [apply (rules_wf k body Ek)|apply (rules_ef k body Ek)]. }
        destruct (Hp (rl k) body c stk l p ns cp err c' Hgb (zb_le L (rl k) l Hlv Hz) Hc Hin H) as [A [B [C E]]].
        split; [exact A|]. split; [|split; [exact C|]].
        + intros n Hn. destruct (B n Hn) as [d [Hd Hy]]. exists (DRef k d). split; [eapply XRef; eassumption|exact Hy].
        + intros l' Hge d Hv Hcm. inversion Hv; subst.
          match goal with Hx : nth_N rules k = Some _ |- _ => rewrite Ek in Hx; inversion Hx; subst end.
          match goal with Hx : exact1 _ _ _ _ p ?dd |- _ => apply (E l' Hge dd Hx Hcm) end.
      - (* PMemo *)
        apply andb_true_iff in Hlv. destruct Hlv as [Hml Hlb]. apply Nat.leb_le in Hml.
        destruct Hwf as [Hsite Hwe]. cbn [endfree] in Hef.
        destruct (cache_get c idx p l) as [r|] eqn:Eg.
        + inversion H; subst ns cp err c'. split; [exact Hc|].
          unfold cache_get in Eg. destruct (cache_find (idx, p) (cache c)) as [r0|] eqn:Ef; [|discriminate].
          destruct (reusable (r_lrc r0) l) eqn:Er; [|discriminate]. inversion Eg; subst r0.
          destruct (Hc _ _ _ Ef) as [_ [Hk [Hne Hbody]]]. destruct (Hbody e Hsite) as [Hsnd Hcomp].
          split; [exact Hsnd|]. split; [exact Hne|].
          intros l' Hge. apply Hcomp. eapply reusable_trans; eauto.
        + destruct (remaining inp p + 1 <? map_get idx l) eqn:Ecut.
          * inversion H; subst ns cp err c'. split; [exact Hc|]. split; [intros n []|]. split; [apply noeof_nil|].
            intros l' Hge d Hv Hcm. inversion Hv; subst. cbn [compat] in Hcm. destruct Hcm as [Hle _].
            apply N.ltb_lt in Ecut. specialize (Hge idx). cbn [set_mem] in Hge. rewrite N.eqb_refl in Hge.
            specialize (Hge eq_refl). exfalso. clear - Ecut Hge Hle. lia.
          * apply bind_ok in H. destruct H as [[[[n cp0] err0] c0] [H1 H2]]. inversion H2; subst n cp0 err0 c'.
            assert (Hzb : zb (ml idx) (map_inc idx l)).
            { intros j Hj. rewrite map_get_inc. destruct (j =? idx) eqn:E.
              - apply N.eqb_eq in E. subst j. lia.
              - apply Hz. lia. }
            assert (Hgb : good (ml idx) e) by (split; [lia|split; [exact Hlb|split; [exact Hwe|exact Hef]]]).
            destruct (Hp (ml idx) e (log_body c idx p (1 + count_active idx p stk)) ((idx, p) :: stk) (map_inc idx l) p
                         ns cp err c0 Hgb Hzb Hc Hin H1) as [Hc0 [Hs0 [Hn0 Hbody]]].
            assert (Hsnd : dsound X (PMemo idx e) p ns).
            { intros x Hx. destruct (Hs0 x Hx) as [d [Hd Hy]]. exists (DMemo idx d). split; [apply XMemo; exact Hd|exact Hy]. }
            assert (Hmemo : forall l', ge_on cp l l' -> dcomplete inp X (PMemo idx e) p ns l').
            { intros l' Hge d Hv Hcm. inversion Hv; subst. cbn [compat] in Hcm. destruct Hcm as [_ Hcm].
              match goal with Hx : exact1 _ _ _ e p ?dd |- _ =>
                apply (Hbody (map_inc idx l') (ge_on_inc _ _ _ _ Hge) dd Hx Hcm) end. }
            split; [|split; [exact Hsnd|split; [exact Hn0|exact Hmemo]]].
            apply xinv_save; [exact Hc0|]. split; [exact Hin|]. split; [|split]; cbn [r_lrc r_cp r_nodes].
            -- intros kv Hkv. unfold map_filter in Hkv. apply filter_In in Hkv. tauto.
            -- exact Hn0.
            -- intros body Hb. rewrite Hsite in Hb. inversion Hb; subst body. split; [exact Hsnd|].
               intros l' Hr. apply Hmemo. apply reusable_filter; exact Hr.
      - (* PAny *)
        cbn [endfree] in Hef.
        assert (Hg : forall x, In x ps -> good L x).
        { intros x Hx. split; [exact Ht|]. split; [apply (forallb_in _ _ _ Hlv Hx)|].
          split; [apply (wfs_forall ps Hwf x Hx)|apply (forallb_in _ _ _ Hef Hx)]. }
        destruct (any_loop_xx L stk l p ps ps [] c [] [] None None ns cp err c' eq_refl Hg Hz Hc Hin noeof_nil)
          as [A [_ [B [C E]]]].
        + intros n [].
        + intros l' _ e d [].
        + exact H.
        + split; [exact A|]. split; [exact C|]. split; [exact B|].
          intros l' Hge d Hv Hcm. inversion Hv; subst. cbn [compat] in Hcm.
          match goal with Hx : exact1 _ _ _ ?ee p ?dd, Hn : nth_error ps ?ii = Some ?ee |- _ =>
            apply (E l' Hge ee dd (nth_error_In _ _ Hn) Hx Hcm) end.
      - (* PChoice *)
        destruct L as [|L0]; [discriminate Hlv|]. cbn [endfree] in Hef.
        assert (Hg0 : forall x, In x ps -> good L0 x).
        { intros x Hx. split; [lia|]. split; [apply (forallb_in _ _ _ Hlv Hx)|].
          split; [apply (wfs_forall ps Hwf x Hx)|apply (forallb_in _ _ _ Hef Hx)]. }
        assert (Hobs : forall x, In x ps -> okoL (S L0) x) by (intros x Hx; exists L0; split; [reflexivity|apply Hg0, Hx]).
        destruct (choice_x inp X xinv (zb (S L0)) (good (S L0)) (okoL (S L0)) rp
                    (fun c Hc => Hc) (fun c e Hc => Hc) X_file (fun e He => okoL_good (S L0) e Ht He)
                    (S2_Hm (S L0)) (S2_Ho (S L0)) stk l p ps c ns cp err c' Hobs Hc Hin Hz H) as [A [B Dj]].
        split; [exact A|].
        assert (Hnohas : forall x, In x ps -> nod X x p -> ~ hasL inp rules top x p).
        { intros x Hx Hno Hh. apply Hno. apply (proj1 (has_iff L0 x p Ht (proj1 (proj2 (Hg0 x Hx))))). exact Hh. }
        destruct Dj as [[En Hall]|[i [e [Hi [Hfirst [Hne [_ [Hsnd Hcmp]]]]]]]].
        + subst ns. split; [intros n []|]. split; [apply noeof_nil|].
          intros l' _ d Hv _. exfalso. inversion Hv; subst.
          match goal with Hn : nth_error ps _ = Some ?ee, Hx : exact1 _ _ _ ?ee p ?dd |- _ =>
            apply (Hall ee (nth_error_In _ _ Hn)); exists dd; exact Hx end.
        + split; [|split; [exact B|]].
          * intros n Hn. destruct (Hsnd n Hn) as [d [Hd Hy]]. exists (DAlt i d). split; [|exact Hy].
            eapply XChoice; [exact Hi|exact Hd|].
            intros j e' Hj He'. apply (Hnohas e' (nth_error_In _ _ He')). apply (Hfirst j e' Hj He').
          * intros l' Hge d Hv Hcm.
            inversion Hv as [| | | | | |ps0 i0 e0 pos0 d0 Hn0 Hx0 Hneg0| | |]; subst ps0 pos0 d. cbn [compat] in Hcm.
            assert (Ei : i0 = i).
            { destruct (lt_eq_lt_dec i0 i) as [[Hlt|Heq]|Hgt]; [|exact Heq|]; exfalso.
              - apply (Hfirst i0 e0 Hlt Hn0). exists d0; exact Hx0.
              - destruct ns as [|n0 ns0]; [apply Hne; reflexivity|].
                destruct (Hsnd n0 (or_introl eq_refl)) as [d1 [Hd1 _]].
                apply (Hneg0 i e Hgt Hi).
                apply (proj2 (has_iff L0 e p Ht (proj1 (proj2 (Hg0 e (nth_error_In _ _ Hi)))))).
                exists d1; exact Hd1. }
            subst i0. rewrite Hi in Hn0. inversion Hn0; subst e0. apply (Hcmp l' Hge d0 Hx0 Hcm).
      - (* POpt *)
        cbn [endfree] in Hef.
        apply bind_ok in H. destruct H as [[[[n cp0] err0] c0] [H1 H2]]. inversion H2; subst ns cp0 err0 c0.
        destruct (Hp L e c stk l p n cp err c' (conj Ht (conj Hlv (conj Hwf Hef))) Hz Hc Hin H1) as [A [B [C E]]].
        split; [exact A|]. split; [|split].
        + intros x Hx. apply append_node_inv in Hx. destruct Hx as [Hx|[Hx|[]]].
          * destruct (B x Hx) as [d [Hd Hy]]. exists (DOptS d). split; [apply XOptS; exact Hd|exact Hy].
          * subst x. exists (DOptN p). split; [apply XOptN|reflexivity].
        + apply noeof_append; [exact C|]. intros x [Hx|[]]. subst x. reflexivity.
        + intros l' Hge d Hv Hcm. inversion Hv; subst.
          * apply append_node_in_l. match goal with Hx : exact1 _ _ _ _ p ?dd |- _ => apply (E l' Hge dd Hx Hcm) end.
          * apply append_node_in_r. left; reflexivity.
      - (* PSeq *)
        destruct name as [nm|]; [destruct k; discriminate Hlv|]. cbn [endfree] in Hef.
        apply bind_ok in H. destruct H as [[[stop st] c0] [H1 H2]].
        set (q := {| q_kind := k; q_ip := ip; q_single := single; q_ps := ps |}) in *.
        pose proof (lev_ok_seq_elems rl ml L k ip single ps Hlv) as Hall.
        assert (HgL : forall x, In x ps -> good L x).
        { intros x Hx. split; [exact Ht|]. split; [apply (forallb_in _ _ _ Hall Hx)|].
          split; [apply (wfs_forall ps Hwf x Hx)|apply (forallb_in _ _ _ Hef Hx)]. }
        (* the observed case: every kind but SeqOf *)
        assert (Hobs : k <> SeqOf -> exists L0, L = S L0 /\ forall x, In x ps -> good L0 x).
        { intros Hk. destruct (lev_ok_seq_obs rl ml L k ip single ps Hk Hlv) as [L0 [-> Hall0]]. exists L0.
          split; [reflexivity|]. intros x Hx. split; [lia|]. split; [apply (forallb_in _ _ _ Hall0 Hx)|].
          split; [apply (wfs_forall ps Hwf x Hx)|apply (forallb_in _ _ _ Hef Hx)]. }
        assert (Hel : elems (good L) (okoL L) q).
        { destruct k eqn:Ek; [left; split; [reflexivity|exact HgL]|right..];
            (destruct Hobs as [L0 [EL Hg0]]; [discriminate|]; intros x Hx; exists L0; split; [exact EL|apply Hg0, Hx]). }
        destruct (Hs L Ht q 0%nat c stk l p true {| s_cp := []; s_res := []; s_err := None; s_nodes := [] |}
                     stop st c0 Hel Hc Hin Hz noeof_nil noeof_nil H1) as [Hc0 [_ [Nr [_ [_ [Snd Comp]]]]]].
        cbn [s_res s_nodes rev app q_kind q_ps q] in Snd, Comp.
        (* the negative premise of XSeq and maximality say the same *)
        assert (Hneg : forall ds, seq_lencheck k (length ps) (length ds) = true ->
                  ((forall e', seq_lookup k ps (length ds) = Some e' -> ~ hasL inp rules top e' (seq_end p ds)) <->
                   maximal X k ps 0%nat p ds)).
        { intros ds Hlen. unfold maximal. cbn [plus].
          destruct (seqkind_eq_SeqOf k) as [Ek|Ek].
          - subst k. rewrite (lencheck_SeqOf_none _ _ Hlen). split; intros _ e' He'; discriminate He'.
          - destruct (Hobs Ek) as [L0 [EL Hg0]]. subst L.
            split; intros Hx e' He' Hy; apply (Hx e' He');
              pose proof (proj1 (proj2 (Hg0 e' (seq_lookup_in _ _ _ _ He')))) as Hl0;
              [apply (proj2 (has_iff L0 e' _ Ht Hl0)); exact Hy | apply (proj1 (has_iff L0 e' _ Ht Hl0)); exact Hy]. }
        assert (Ens : ns = s_res st /\ cp = s_cp st /\ xinv c').
        { destruct (s_res st) eqn:E; inversion H2; subst; (split; [reflexivity|split; [reflexivity|exact Hc0]]). }
        destruct Ens as [-> [-> Hc']]. split; [exact Hc'|]. split; [|split; [exact Nr|]].
        + intros n Hn. destruct (Snd n Hn) as [[]|[ds [A [B [C E]]]]].
          exists (DSeq q p ds). split; [|symmetry; exact E].
          apply XSeq; [apply dseq_exact; exact A|exact B|apply (proj2 (Hneg ds B)); exact C].
        + intros l' Hge d Hv Hcm.
          destruct (exact1_seq_inv _ _ _ _ _ _ _ _ _ Hv) as [ds [Ed [A [B C]]]]. subst d. fold q.
          rewrite compat_DSeq in Hcm. cbn [yield].
          apply (Comp l' Hge ds); [apply dseq_exact; exact A|exact Hcm|exact B|apply (proj1 (Hneg ds B)); exact C].
    Qed.

    Lemma seq_step_xx : qx (seq_step rp rs).
    Proof.
      intros L Ht.
      apply (seq_step_x inp X xinv (zb L) (good L) (okoL L) rp rs (zb_nil L) (fun c Hc => Hc) X_file
               (fun e He => okoL_good L e Ht He) (S2_Hm L) (S2_Ho L) (Hs L Ht)).
    Qed.
  End Step.

  Theorem exact_inv : forall f, px (parse inp rules f) /\ qx (seqp inp rules f).
  Proof.
    induction f as [|f [IHp IHs]].
    - split; [intros L e c stk l pos ns cp err c' _ _ _ _ H; discriminate H|].
      intros L _ q d c stk l p m st stop st' c' _ _ _ _ _ _ H. discriminate H.
    - split.
      + intros L e c stk l pos. rewrite parse_S. apply parse_step_x; assumption.
      + intros L Ht q d c stk l p m st. rewrite seqp_S. apply seq_step_xx; assumption.
  Qed.
End Stage2.

(* ---------- the theorems of stage 2 ---------- *)
Section Final2.
  Variable inp : input.
  Variable rules : list pexpr.
  Variable site : N -> option pexpr.
  Variable rl : N -> nat.
  Variable ml : N -> nat.
  Hypothesis rules_wf : wf_rules rules site.
  Hypothesis rules_ef : forall k body, nth_N rules k = Some body -> endfree body = true.
  Hypothesis rules_lv : rules_lev rl ml rules.        (* follows from [stratified_b rl ml rules = true] *)
  Variable L : nat.
  Variable root : pexpr.
  Hypothesis root_lev : lev_ok rl ml L root = true.
  Hypothesis root_wf : wf rules site root.
  Hypothesis root_ef : endfree root = true.

  Notation off := (i_offset inp).

  (* a call of an expression of level <= L from ANY context satisfying the invariant, with a
     left-recursion context without counters for indexes of levels below the expression's *)
  Theorem parse_exact fuel L0 e c stk l pos ns cp err c' :
    (L0 <= L)%nat -> lev_ok rl ml L0 e = true -> wf rules site e -> endfree e = true ->
    zb ml L0 l -> xinv inp rules site L c -> in_file inp pos ->
    parse inp rules fuel e c stk l pos = Ok (ns, cp, err, c') ->
    xinv inp rules site L c' /\
    (forall n, In n ns -> exists d, exact inp rules L e pos d /\ yield d = n) /\
    (forall l', ge_on cp l l' -> forall d, exact inp rules L e pos d -> compat inp l' pos d -> In (yield d) ns).
  Proof.
    intros Hle Hl Hw He Hz Hc Hin H.
    destruct (proj1 (exact_inv inp rules site rl ml rules_wf rules_ef rules_lv L fuel) L0 e c stk l pos ns cp err c'
                (conj Hle (conj Hl (conj Hw He))) Hz Hc Hin H) as [A [B [_ C]]].
    split; [exact A|]. split; [exact B|exact C].
  Qed.

  Section Run.
    Variables (fuel : nat) (ns : list node) (cp : intset) (err : option perr) (c : ctx).
    Hypothesis Hrun : run inp rules fuel root = Ok (ns, cp, err, c).

    Lemma run_exact :
      (forall n, In n ns -> exists d, exact inp rules L root off d /\ yield d = n) /\
      (forall d, exact inp rules L root off d -> compat inp [] off d -> In (yield d) ns).
    Proof.
      destruct (parse_exact fuel L root ctx0 [] [] off ns cp err c (le_n L) root_lev root_wf root_ef
                  (zb_nil ml L) (xinv_ctx0 inp rules site L) (Sound.in_file_offset inp) Hrun) as [_ [A B]].
      split; [exact A|]. intros d Hd Hcm. apply (B [] (ge_on_refl _ _) d Hd Hcm).
    Qed.

    (* every returned node is the yield of an EXACT derivation (strengthens C01_sound: exact derivations are valid) *)
    Theorem C01_exact_sound : forall n, In n ns ->
      exists d, exact inp rules L root off d /\ valid inp rules root off d /\ yield d = n.
    Proof.
      intros n Hn. destruct (proj1 run_exact n Hn) as [d [Hd Hy]]. exists d. split; [exact Hd|].
      split; [apply (exact_valid inp rules L root off d Hd)|exact Hy].
    Qed.
    (* every exact derivation within the curtailment bound is returned *)
    Theorem C01_exact_complete : forall d, exact inp rules L root off d -> compat inp [] off d -> In (yield d) ns.
    Proof. exact (proj2 run_exact). Qed.
    (* every end position of an exact derivation is the end of a returned node *)
    Theorem C01_exact_complete_ends : forall d, exact inp rules L root off d -> exists n, In n ns /\ node_rpos n = dend d.
    Proof.
      intros d Hd. destruct (pump_ends_x inp rules site _ rules_wf root off d Hd root_wf (Sound.in_file_offset inp)) as [d' [A [B C]]].
      exists (yield d'). split; [apply (C01_exact_complete d' A C)|exact B].
    Qed.
    (* every exact derivation tree without a unit cycle is returned *)
    Theorem C01_exact_complete_trees : forall d, exact inp rules L root off d -> nopump off d -> In (yield d) ns.
    Proof.
      intros d Hd Hnp. apply (C01_exact_complete d Hd).
      apply (nopump_compat inp rules root off d (exact_valid inp rules L root off d Hd) (Sound.in_file_offset inp) Hnp).
    Qed.
    (* nothing is returned iff there is no exact derivation *)
    Corollary C01_exact_empty : ns = [] <-> ~ exists d, exact inp rules L root off d.
    Proof.
      split.
      - intros E [d Hd]. destruct (C01_exact_complete_ends d Hd) as [n [Hn _]]. rewrite E in Hn. destruct Hn.
      - intros Hno. pose proof (proj1 run_exact) as Hs. revert Hs. generalize ns. intros l0 Hs.
        destruct l0 as [|n l0]; [reflexivity|]. exfalso. apply Hno.
        destruct (Hs n (or_introl eq_refl)) as [d [Hd _]]. exists d; exact Hd.
    Qed.
  End Run.
End Final2.

Print Assumptions empty_iff_no_derivation.
Print Assumptions C01_choice_exact.
Print Assumptions C01_seq_maximal_exact.
Print Assumptions exact_inv.
Print Assumptions C01_exact_sound.
Print Assumptions C01_exact_complete_ends.
Print Assumptions C01_exact_complete_trees.
Print Assumptions C01_exact_empty.

(* ------------------------------------------------------------------------------------- *)
(* Part B': stage 1 for a call with the empty context (no reachability hypothesis)        *)
(* ------------------------------------------------------------------------------------- *)
Section Stage1Run.
  Variable inp : input.
  Variable rules : list pexpr.
  Variable site : N -> option pexpr.
  Hypothesis rules_wf : wf_rules rules site.
  Hypothesis rules_mono : forall k body, nth_N rules k = Some body -> mono body = true.
  Hypothesis rules_ef : forall k body, nth_N rules k = Some body -> endfree body = true.
  Notation All := (fun _ : N => true).
  Definition opd0 (e : pexpr) : Prop := wf rules site e /\ mono e = true /\ endfree e = true.
  Lemma opd0_opd e : opd0 e -> opd rules site All All e.
  Proof. intros [A [B C]]. split; [exact A|]. split; [exact B|]. split; [exact C|apply closed_all]. Qed.

  Corollary C01_choice_exact_run fuel ps ns cp err c' :
    (forall e, In e ps -> opd0 e) -> run inp rules fuel (PChoice ps) = Ok (ns, cp, err, c') ->
    (ns = [] /\ forall e, In e ps -> ~ exists d, valid inp rules e (i_offset inp) d) \/
    (exists i e, nth_error ps i = Some e /\ first_match inp rules ps (i_offset inp) i /\ ns <> [] /\
       (forall n, In n ns -> exists d, valid inp rules e (i_offset inp) d /\ yield d = n) /\
       (forall d, valid inp rules e (i_offset inp) d -> compat inp [] (i_offset inp) d -> In (yield d) ns) /\
       (forall d, valid inp rules e (i_offset inp) d -> exists n, In n ns /\ node_rpos n = dend d)).
  Proof.
    intros Hops H. unfold run in H. destruct fuel as [|f]; [discriminate H|].
    destruct (C01_choice_exact inp rules site rules_wf rules_mono rules_ef All All (closed_rules_all rules)
                f ps ctx0 [] [] (i_offset inp) ns cp err c' (fun e He => opd0_opd e (Hops e He))
                (cinv_ctx0 inp rules site) (Sound.in_file_offset inp) (zero_on_nil All) H) as [_ [Hl|Hr]].
    - left. exact Hl.
    - right. destruct Hr as [i [e [A [B [C [_ [E [F G]]]]]]]]. exists i, e. repeat (split; [assumption|]). exact G.
  Qed.

  Corollary C01_seq_maximal_exact_run fuel k ip single ps ns cp err c' :
    (forall e, In e ps -> opd0 e) -> run inp rules fuel (PSeq k ip single None ps) = Ok (ns, cp, err, c') ->
    let q := {| q_kind := k; q_ip := ip; q_single := single; q_ps := ps |} in
    let pos := i_offset inp in
    (forall n, In n ns -> exists ds, valid inp rules (PSeq k ip single None ps) pos (DSeq q pos ds) /\
                                     seq_max inp rules k ps pos ds /\ yield (DSeq q pos ds) = n) /\
    (forall ds, valid inp rules (PSeq k ip single None ps) pos (DSeq q pos ds) -> seq_max inp rules k ps pos ds ->
       (compat inp [] pos (DSeq q pos ds) -> In (yield (DSeq q pos ds)) ns) /\
       exists n, In n ns /\ node_rpos n = dend (DSeq q pos ds)).
  Proof.
    intros Hops H. unfold run in H. destruct fuel as [|f]; [discriminate H|].
    apply (proj2 (C01_seq_maximal_exact inp rules site rules_wf rules_mono rules_ef All All (closed_rules_all rules)
                f k ip single ps ctx0 [] [] (i_offset inp) ns cp err c' (fun e He => opd0_opd e (Hops e He))
                (cinv_ctx0 inp rules site) (Sound.in_file_offset inp) (zero_on_nil All) H)).
  Qed.
End Stage1Run.

(* ------------------------------------------------------------------------------------- *)
(* Part D (stage 3): non-vacuity, and what goes wrong without stratification              *)
(* ------------------------------------------------------------------------------------- *)
Definition xa : pexpr := PTerm (TRune 97).
Definition xb : pexpr := PTerm (TRune 98).
Definition xc : pexpr := PTerm (TRune 99).
Definition xcomma : pexpr := PTerm (TRune 44).
Definition tcomma (p : N) : dtree := DTerm (NTerm [44] (VRune 44) p (p + 1)).
Definition no_site (_ : N) : option pexpr := None.
Definition lev_const (n : nat) (_ : N) : nat := n.

Lemma nil_wf : wf_rules [] no_site.
Proof. intros k body H. unfold nth_N in H. destruct (N.to_nat k); discriminate H. Qed.
Lemma nil_P (P : pexpr -> Prop) : forall (k : N) body, nth_N (@nil pexpr) k = Some body -> P body.
Proof. intros k body H. unfold nth_N in H. destruct (N.to_nat k); discriminate H. Qed.
Lemma nil_lev rl ml : rules_lev rl ml [].
Proof. intros k body H. unfold nth_N in H. destruct (N.to_nat k); discriminate H. Qed.

Ltac xvalid :=
  repeat first
    [ apply VSnil
    | eapply VScons; [reflexivity| |]
    | eapply VRef; [reflexivity|]
    | apply VMemo
    | eapply VAny; [reflexivity|]
    | eapply VChoice; [reflexivity|]
    | apply VTerm; reflexivity
    | apply VSeq; [|reflexivity]
    | apply VOptN
    | apply VOptS
    | apply VEmpty ].
(* refute "the terminal has a match here" *)
Ltac no_has H :=
  cbn [hasL] in H; let d := fresh "d" in destruct H as [d H]; inversion H; subst;
  match goal with Hx : term_parse _ _ _ = _ |- _ => vm_compute in Hx; discriminate Hx end.
Ltac run_tac := vm_compute; eexists _, _, _; reflexivity.

(* ---- 1. Choice: the second alternative would also match, but is not returned ---- *)
Definition e1_inp : input := mk_input [97; 98] 1.
Definition e1_seq : pexpr := PSeq SeqOf INone false None [xa; xb].
Definition e1_root : pexpr := PChoice [xa; e1_seq].
Definition e1_q : seqinfo := {| q_kind := SeqOf; q_ip := INone; q_single := false; q_ps := [xa; xb] |}.
Definition e1_d0 : dtree := DAlt 0 (ta 1).
Definition e1_d1 : dtree := DAlt 1 (DSeq e1_q 1 [ta 1; tb 2]).
Definition e1_ns : list node := [NTerm [97] (VRune 97) 1 2].

Example choice_first_match :
  (exists cp err c, run e1_inp [] 20 e1_root = Ok (e1_ns, cp, err, c)) /\
  valid e1_inp [] e1_root 1 e1_d1 /\ dend e1_d1 = 3 /\          (* the second alternative matches "ab" ... *)
  ~ exact e1_inp [] 1 e1_root 1 e1_d1 /\ ~ In (yield e1_d1) e1_ns /\   (* ... is not an exact derivation, is not returned *)
  exact e1_inp [] 1 e1_root 1 e1_d0 /\ In (yield e1_d0) e1_ns.
Proof.
  split; [run_tac|]. split; [unfold e1_d1, e1_root, e1_seq; xvalid|]. split; [reflexivity|]. split; [|split; [|split]].
  - unfold exact. intros H. inversion H as [| | | | | |ps0 i0 e0 pos0 d0 Hn0 Hx0 Hneg0| | |]; subst.
    apply (Hneg0 0%nat xa (le_n 1) eq_refl). cbn [hasL]. exists (ta 1). apply XTerm. reflexivity.
  - intros [H|[]]. discriminate H.
  - unfold exact. eapply XChoice; [reflexivity|apply XTerm; reflexivity|]. intros j e' Hj. lia.
  - left. reflexivity.
Qed.

(* the theorems apply to it (hypotheses satisfiable): stage 2 ... *)
Example C01_exact_choice_example : forall ns cp err c, run e1_inp [] 20 e1_root = Ok (ns, cp, err, c) ->
  (forall n, In n ns -> exists d, exact e1_inp [] 1 e1_root 1 d /\ valid e1_inp [] e1_root 1 d /\ yield d = n) /\
  (forall d, exact e1_inp [] 1 e1_root 1 d -> exists n, In n ns /\ node_rpos n = dend d).
Proof.
  intros ns cp err c H. split.
  - apply (C01_exact_sound e1_inp [] no_site (lev_const 0) (lev_const 0) nil_wf (nil_P _) (nil_lev _ _) 1%nat e1_root
             eq_refl (conj I (conj (conj I (conj I I)) I)) eq_refl 20%nat ns cp err c H).
  - apply (C01_exact_complete_ends e1_inp [] no_site (lev_const 0) (lev_const 0) nil_wf (nil_P _) (nil_lev _ _) 1%nat e1_root
             eq_refl (conj I (conj (conj I (conj I I)) I)) eq_refl 20%nat ns cp err c H).
Qed.
(* ... and stage 1 *)
Lemma opd0_nil e : wf [] no_site e -> mono e = true -> endfree e = true -> opd0 [] no_site e.
Proof. intros A B C. split; [exact A|split; [exact B|exact C]]. Qed.
Example C01_choice_exact_example : forall ns cp err c, run e1_inp [] 20 e1_root = Ok (ns, cp, err, c) ->
  exists i e, nth_error [xa; e1_seq] i = Some e /\ first_match e1_inp [] [xa; e1_seq] 1 i /\ ns <> [] /\
    (forall n, In n ns -> exists d, valid e1_inp [] e 1 d /\ yield d = n) /\
    (forall d, valid e1_inp [] e 1 d -> exists n, In n ns /\ node_rpos n = dend d).
Proof.
  intros ns cp err c H.
  destruct (C01_choice_exact_run e1_inp [] no_site nil_wf (nil_P _) (nil_P _) 20 [xa; e1_seq] ns cp err c) as [[En _]|Hr].
  - intros e [<-|[<-|[]]]; apply opd0_nil; try reflexivity; cbn; tauto.
  - exact H.
  - subst ns. vm_compute in H. discriminate H.
  - destruct Hr as [i [e [A [B [C [E [_ G]]]]]]]. exists i, e. repeat (split; [assumption|]). exact G.
Qed.

(* ---- 2. Many: the longest path only ("aaa" gives the 3-element node, not the 0/1/2-element ones) ---- *)
Definition e2_inp : input := mk_input [97; 97; 97] 1.
Definition e2_root : pexpr := PSeq (SMany true) INone false None [xa].
Definition e2_q : seqinfo := {| q_kind := SMany true; q_ip := INone; q_single := false; q_ps := [xa] |}.
Definition e2_full : dtree := DSeq e2_q 1 [ta 1; ta 2; ta 3].
Definition e2_short : dtree := DSeq e2_q 1 [ta 1; ta 2].
Definition e2_ns : list node :=
  [NNonTerm [77; 65; 78; 89] INone [NTerm [97] (VRune 97) 1 2; NTerm [97] (VRune 97) 2 3; NTerm [97] (VRune 97) 3 4] 1 4].

Example many_longest_path :
  (exists cp err c, run e2_inp [] 20 e2_root = Ok (e2_ns, cp, err, c)) /\
  valid e2_inp [] e2_root 1 e2_short /\ ~ exact e2_inp [] 1 e2_root 1 e2_short /\ ~ In (yield e2_short) e2_ns /\
  exact e2_inp [] 1 e2_root 1 e2_full /\ In (yield e2_full) e2_ns.
Proof.
  split; [run_tac|]. split; [unfold e2_short, e2_root; xvalid|]. split; [|split; [|split]].
  - unfold exact. intros H. destruct (exact1_seq_inv _ _ _ _ _ _ _ _ _ H) as [ds [E [_ [_ Hneg]]]].
    inversion E; subst ds. apply (Hneg xa eq_refl). cbn [hasL]. exists (ta 3). apply XTerm. reflexivity.
  - intros [H|[]]. discriminate H.
  - unfold exact, e2_full. apply XSeq; [|reflexivity|].
    + repeat (eapply XScons; [reflexivity|apply XTerm; reflexivity|]). apply XSnil.
    + intros e' He' Hh. cbn in He'. inversion He'; subst e'. no_has Hh.
  - left. reflexivity.
Qed.
Example C01_seq_maximal_many_example : forall ns cp err c, run e2_inp [] 20 e2_root = Ok (ns, cp, err, c) ->
  (forall n, In n ns -> exists ds, valid e2_inp [] e2_root 1 (DSeq e2_q 1 ds) /\ seq_max e2_inp [] (SMany true) [xa] 1 ds /\
                                   yield (DSeq e2_q 1 ds) = n) /\
  (forall ds, valid e2_inp [] e2_root 1 (DSeq e2_q 1 ds) -> seq_max e2_inp [] (SMany true) [xa] 1 ds ->
     exists n, In n ns /\ node_rpos n = dend (DSeq e2_q 1 ds)).
Proof.
  intros ns cp err c H.
  destruct (C01_seq_maximal_exact_run e2_inp [] no_site nil_wf (nil_P _) (nil_P _) 20 (SMany true) INone false [xa] ns cp err c) as [A B].
  - intros e [<-|[]]. apply opd0_nil; reflexivity.
  - exact H.
  - split; [exact A|]. intros ds Hv Hm. apply (proj2 (B ds Hv Hm)).
Qed.

(* ---- 3. SepBy: longest path; a trailing separator kills the match (no shorter path is emitted) ---- *)
Definition e3_root : pexpr := PSeq (SSepBy true) INone false None [xa; xcomma].
Example sepby_longest_path :
  (exists cp err c, run (mk_input [97; 44; 97] 1) [] 20 e3_root =
     Ok ([NNonTerm [83; 69; 80; 95; 66; 89] INone
            [NTerm [97] (VRune 97) 1 2; NTerm [44] (VRune 44) 2 3; NTerm [97] (VRune 97) 3 4] 1 4], cp, err, c)) /\
  (exists cp err c, run (mk_input [97; 44; 97; 44] 1) [] 20 e3_root = Ok ([], cp, err, c)).
Proof. split; run_tac. Qed.
(* "a,a," : the only maximal path a , a , has even length, which the length check rejects: no exact derivation *)
Example sepby_trailing_separator : ~ exists d, exact (mk_input [97; 44; 97; 44] 1) [] 1 e3_root 1 d.
Proof.
  destruct (run (mk_input [97; 44; 97; 44] 1) [] 20 e3_root) as [[[[ns cp] err] c]| |] eqn:E;
    [|vm_compute in E; discriminate E|vm_compute in E; discriminate E].
  apply (proj1 (C01_exact_empty _ [] no_site (lev_const 0) (lev_const 0) nil_wf (nil_P _) (nil_lev _ _) 1%nat e3_root
                  eq_refl (conj I (conj I I)) eq_refl 20%nat ns cp err c E)).
  vm_compute in E. inversion E. reflexivity.
Qed.

(* ---- 4. SeqTry: the longest prefix only ---- *)
Definition e4_root : pexpr := PSeq SeqTry INone false None [xa; xb; xc].
Definition e4_q : seqinfo := {| q_kind := SeqTry; q_ip := INone; q_single := false; q_ps := [xa; xb; xc] |}.
Definition e4_inp : input := mk_input [97; 98; 120] 1.
Definition e4_ns : list node := [NNonTerm [83; 69; 81] INone [NTerm [97] (VRune 97) 1 2; NTerm [98] (VRune 98) 2 3] 1 3].
Example seqtry_longest_prefix :
  (exists cp err c, run e4_inp [] 20 e4_root = Ok (e4_ns, cp, err, c)) /\
  valid e4_inp [] e4_root 1 (DSeq e4_q 1 [ta 1]) /\ ~ exact e4_inp [] 1 e4_root 1 (DSeq e4_q 1 [ta 1]) /\
  exact e4_inp [] 1 e4_root 1 (DSeq e4_q 1 [ta 1; tb 2]) /\ In (yield (DSeq e4_q 1 [ta 1; tb 2])) e4_ns.
Proof.
  split; [run_tac|]. split; [unfold e4_root; xvalid|]. split; [|split].
  - unfold exact. intros H. destruct (exact1_seq_inv _ _ _ _ _ _ _ _ _ H) as [ds [E [_ [_ Hneg]]]].
    inversion E; subst ds. apply (Hneg xb eq_refl). cbn [hasL]. exists (tb 2). apply XTerm. reflexivity.
  - unfold exact. apply XSeq; [|reflexivity|].
    + repeat (eapply XScons; [reflexivity|apply XTerm; reflexivity|]). apply XSnil.
    + intros e' He' Hh. cbn in He'. inversion He'; subst e'. no_has Hh.
  - left. reflexivity.
Qed.

(* ---- 5. SeqFirstOrAll: "first or all" holds for MAXIMAL paths only ---- *)
Definition e5_root : pexpr := PSeq SeqFirstOrAll INone false None [xa; xb; xc].
Definition e5_q : seqinfo := {| q_kind := SeqFirstOrAll; q_ip := INone; q_single := false; q_ps := [xa; xb; xc] |}.
Example seqfirstorall_first :
  (exists cp err c, run (mk_input [97; 120] 1) [] 20 e5_root =
     Ok ([NNonTerm [83; 69; 81] INone [NTerm [97] (VRune 97) 1 2] 1 2], cp, err, c)) /\
  exact (mk_input [97; 120] 1) [] 1 e5_root 1 (DSeq e5_q 1 [ta 1]).
Proof.
  split; [run_tac|]. unfold exact. apply XSeq; [|reflexivity|].
  - eapply XScons; [reflexivity|apply XTerm; reflexivity|apply XSnil].
  - intros e' He' Hh. cbn in He'. inversion He'; subst e'. no_has Hh.
Qed.
(* On "abx" the first TWO parsers match and the third does not.  The doc comment of SeqFirstOrAll ("If it
   can't match all parsers, but it can match the first one it will return with the result of the first
   one") suggests SEQ[a]; the code (and the model) return NOTHING: the only maximal path has length 2.
   The one-element path is a valid derivation but not an exact one. *)
Example seqfirstorall_two_of_three :
  (exists cp err c, run e4_inp [] 20 e5_root = Ok ([], cp, err, c)) /\
  valid e4_inp [] e5_root 1 (DSeq e5_q 1 [ta 1]) /\
  ~ exists d, exact e4_inp [] 1 e5_root 1 d.
Proof.
  split; [run_tac|]. split; [unfold e5_root; xvalid|].
  destruct (run e4_inp [] 20 e5_root) as [[[[ns cp] err] c]| |] eqn:E;
    [|vm_compute in E; discriminate E|vm_compute in E; discriminate E].
  apply (proj1 (C01_exact_empty _ [] no_site (lev_const 0) (lev_const 0) nil_wf (nil_P _) (nil_lev _ _) 1%nat e5_root
                  eq_refl (conj I (conj I (conj I I))) eq_refl 20%nat ns cp err c E)).
  vm_compute in E. inversion E. reflexivity.
Qed.

(* ---- 6. the operator under a left-recursive rule:  P -> P ',' item | item,  item = Choice(a, SEQ[a b]) ---- *)
Definition e6_item_body : pexpr := PChoice [xa; e1_seq].
Definition e6_alt : list pexpr := [PRef 0; xcomma; PRef 1].
Definition e6_body : pexpr := PAny [PSeq SeqOf INone false None e6_alt; PRef 1].
Definition e6_rules : list pexpr := [PMemo 1 e6_body; PMemo 2 e6_item_body].
Definition e6_site (idx : N) : option pexpr :=
  if idx =? 1 then Some e6_body else if idx =? 2 then Some e6_item_body else None.
Definition e6_inp : input := mk_input [97; 44; 97; 98] 1.       (* "a,ab" *)
Definition e6_q : seqinfo := {| q_kind := SeqOf; q_ip := INone; q_single := false; q_ps := e6_alt |}.
Definition e6_item0 (p : N) : dtree := DRef 1 (DMemo 2 (DAlt 0 (ta p))).
Definition e6_item1 (p : N) : dtree := DRef 1 (DMemo 2 (DAlt 1 (DSeq e1_q p [ta p; tb (p + 1)]))).
Definition e6_P0 : dtree := DRef 0 (DMemo 1 (DAlt 1 (e6_item0 1))).
Definition e6_good : dtree := DRef 0 (DMemo 1 (DAlt 0 (DSeq e6_q 1 [e6_P0; tcomma 2; e6_item0 3]))).   (* a , a *)
Definition e6_bad : dtree := DRef 0 (DMemo 1 (DAlt 0 (DSeq e6_q 1 [e6_P0; tcomma 2; e6_item1 3]))).    (* a , ab *)
Definition e6_ns : list node :=
  [NNonTerm [83; 69; 81] INone [NTerm [97] (VRune 97) 1 2; NTerm [44] (VRune 44) 2 3; NTerm [97] (VRune 97) 3 4] 1 4;
   NTerm [97] (VRune 97) 1 2].

Lemma e6_two {A} (x y b : A) k : nth_N [x; y] k = Some b -> b = x \/ b = y.
Proof.
  unfold nth_N. destruct (N.to_nat k) as [|[|n]]; cbn [nth_error]; intros H; [left|right|destruct n; discriminate H];
    inversion H; reflexivity.
Qed.
Lemma e6_wf : wf_rules e6_rules e6_site.
Proof. intros k body H. apply e6_two in H. destruct H as [->| ->]; cbn; repeat split; reflexivity. Qed.
Lemma e6_ef : forall k body, nth_N e6_rules k = Some body -> endfree body = true.
Proof. intros k body H. apply e6_two in H. destruct H as [->| ->]; reflexivity. Qed.
Lemma e6_strat : stratified_b (lev_const 1) (lev_const 1) e6_rules = true.
Proof. reflexivity. Qed.

Example choice_under_left_recursion :
  (exists cp err c, run e6_inp e6_rules 100 (PRef 0) = Ok (e6_ns, cp, err, c)) /\
  (* "a,ab" has a valid derivation of the whole input, which takes the SECOND alternative of item at 3 ... *)
  valid e6_inp e6_rules (PRef 0) 1 e6_bad /\ dend e6_bad = 5 /\
  (* ... it is not exact (item's first alternative matches at 3) and no returned node ends at 5 *)
  ~ exact e6_inp e6_rules 1 (PRef 0) 1 e6_bad /\ (forall n, In n e6_ns -> node_rpos n <> 5) /\
  (* the exact derivation a , a is returned *)
  exact e6_inp e6_rules 1 (PRef 0) 1 e6_good /\ In (yield e6_good) e6_ns.
Proof.
  split; [run_tac|]. split; [unfold e6_bad, e6_P0, e6_item0, e6_item1; xvalid|]. split; [reflexivity|]. split; [|split; [|split]].
  - unfold exact, e6_bad, e6_item1. intros H.
    repeat match goal with
           | H : exact1 _ _ _ (PRef _) _ (DRef _ _) |- _ => inversion H; clear H; subst
           | H : exact1 _ _ _ (PMemo _ _) _ (DMemo _ _) |- _ => inversion H; clear H; subst
           | H : nth_N e6_rules _ = Some _ |- _ => vm_compute in H; inversion H; clear H; subst
           | H : exact1 _ _ _ (PAny _) _ (DAlt _ _) |- _ => inversion H; clear H; subst
           | H : nth_error _ _ = Some _ |- _ => cbn in H; inversion H; clear H; subst
           | H : exact1 _ _ _ (PSeq _ _ _ _ _) _ (DSeq _ _ _) |- _ => inversion H; clear H; subst
           | H : exact_seq _ _ _ _ _ _ _ (_ :: _) |- _ => inversion H; clear H; subst
           | H : seq_lookup _ _ _ = Some _ |- _ => cbn in H; inversion H; clear H; subst
           end.
    match goal with H : exact1 _ _ _ (PChoice _) _ (DAlt 1 _) |- _ =>
      inversion H as [| | | | | |ps0 i0 e0 pos0 d0 Hn0 Hx0 Hneg0| | |]; subst end.
    apply (Hneg0 0%nat xa (le_n 1) eq_refl). cbn [hasL]. exists (ta 3). apply XTerm. reflexivity.
  - intros n [<-|[<-|[]]]; cbn; discriminate.
  - unfold exact, e6_good, e6_P0, e6_item0.
    assert (Hitem : forall p n, term_parse e6_inp (TRune 97) p = ([n], None) ->
              exact1 e6_inp e6_rules (hasL e6_inp e6_rules 1) (PRef 1) p (DRef 1 (DMemo 2 (DAlt 0 (DTerm n))))).
    { intros p n Hn. eapply XRef; [reflexivity|]. apply XMemo. eapply XChoice; [reflexivity|apply XTerm; exact Hn|].
      intros j e' Hj. lia. }
    eapply XRef; [reflexivity|]. apply XMemo. eapply XAny; [reflexivity|]. apply XSeq; [|reflexivity|].
    + eapply XScons; [reflexivity| |].
      * eapply XRef; [reflexivity|]. apply XMemo. eapply XAny; [reflexivity|]. apply Hitem. reflexivity.
      * eapply XScons; [reflexivity|apply XTerm; reflexivity|].
        eapply XScons; [reflexivity|apply Hitem; reflexivity|apply XSnil].
    + intros e' He'. cbn in He'. discriminate He'.
  - left. reflexivity.
Qed.
Example C01_exact_left_recursion_example : forall ns cp err c, run e6_inp e6_rules 100 (PRef 0) = Ok (ns, cp, err, c) ->
  (forall n, In n ns -> exists d, exact e6_inp e6_rules 1 (PRef 0) 1 d /\ valid e6_inp e6_rules (PRef 0) 1 d /\ yield d = n) /\
  (forall d, exact e6_inp e6_rules 1 (PRef 0) 1 d -> exists n, In n ns /\ node_rpos n = dend d) /\
  (forall d, exact e6_inp e6_rules 1 (PRef 0) 1 d -> nopump 1 d -> In (yield d) ns).
Proof.
  intros ns cp err c H.
  pose proof (stratified_b_sound _ _ _ e6_strat) as Hlv.
  split; [|split].
  - apply (C01_exact_sound e6_inp e6_rules e6_site _ _ e6_wf e6_ef Hlv 1%nat (PRef 0) eq_refl eq_refl eq_refl 100%nat ns cp err c H).
  - apply (C01_exact_complete_ends e6_inp e6_rules e6_site _ _ e6_wf e6_ef Hlv 1%nat (PRef 0) eq_refl eq_refl eq_refl 100%nat ns cp err c H).
  - apply (C01_exact_complete_trees e6_inp e6_rules e6_site _ _ e6_wf e6_ef Hlv 1%nat (PRef 0) eq_refl eq_refl eq_refl 100%nat ns cp err c H).
Qed.

(* ---- 7. two levels: Many over a Choice ---- *)
Definition e7_root : pexpr := PSeq (SMany true) INone false None [PChoice [xa; xb]].
Example C01_exact_two_levels_example :
  lev_ok (lev_const 0) (lev_const 0) 2 e7_root = true /\ lev_ok (lev_const 0) (lev_const 0) 1 e7_root = false /\
  forall ns cp err c, run (mk_input [97; 98; 98; 97] 1) [] 40 e7_root = Ok (ns, cp, err, c) ->
    ns = [NNonTerm [77; 65; 78; 89] INone [NTerm [97] (VRune 97) 1 2; NTerm [98] (VRune 98) 2 3;
                                          NTerm [98] (VRune 98) 3 4; NTerm [97] (VRune 97) 4 5] 1 5] /\
    (forall n, In n ns -> exists d, exact (mk_input [97; 98; 98; 97] 1) [] 2 e7_root 1 d /\ yield d = n) /\
    (forall d, exact (mk_input [97; 98; 98; 97] 1) [] 2 e7_root 1 d -> exists n, In n ns /\ node_rpos n = dend d).
Proof.
  split; [reflexivity|]. split; [reflexivity|]. intros ns cp err c H. split; [vm_compute in H; inversion H; reflexivity|]. split.
  - intros n Hn.
    destruct (C01_exact_sound _ [] no_site (lev_const 0) (lev_const 0) nil_wf (nil_P _) (nil_lev _ _) 2%nat e7_root
                eq_refl (conj (conj I (conj I I)) I) eq_refl 40%nat ns cp err c H n Hn) as [d [A [_ B]]].
    exists d. split; assumption.
  - apply (C01_exact_complete_ends _ [] no_site (lev_const 0) (lev_const 0) nil_wf (nil_P _) (nil_lev _ _) 2%nat e7_root
             eq_refl (conj (conj I (conj I I)) I) eq_refl 40%nat ns cp err c H).
Qed.

(* ---- 8. what goes wrong without the hypotheses ---- *)
(* (a) [zero_on M l] cannot be dropped from stage 1: Choice(P, a) over the monotone rule P -> P b | a
   (Complete.lr_rules), called on "ab" with a context that already has counter 4 for P's index: P is
   curtailed (4 > remaining + 1 = 3) and returns nothing although it has a derivation, so the Choice
   falls through to its second alternative.  With the empty context the first alternative wins. *)
Definition u_inp : input := mk_input [97; 98] 1.
Definition u_ab : node := NNonTerm [83; 69; 81] INone [NTerm [97] (VRune 97) 1 2; NTerm [98] (VRune 98) 2 3] 1 3.
Example zero_on_needed :
  (exists cp err c, parse u_inp lr_rules 40 (PRef 0) ctx0 [] [(1, 4)] 1 = Ok ([], cp, err, c)) /\
  (exists d, valid u_inp lr_rules (PRef 0) 1 d /\ dend d = 3) /\
  (exists cp err c, parse u_inp lr_rules 40 (PChoice [PRef 0; xa]) ctx0 [] [(1, 4)] 1 =
                    Ok ([NTerm [97] (VRune 97) 1 2], cp, err, c)) /\
  (exists cp err c, parse u_inp lr_rules 40 (PChoice [PRef 0; xa]) ctx0 [] [] 1 =
                    Ok ([u_ab; NTerm [97] (VRune 97) 1 2], cp, err, c)).
Proof.
  split; [run_tac|]. split; [|split; run_tac].
  exists lr_d1. split; [unfold lr_d1, lr_d0; valid_tac|reflexivity].
Qed.

(* (b) such a context arises in a real run exactly when the grammar is NOT stratified: a Choice that
   observes the failure of the rule it belongs to.  P -> Choice(P b, a): there is no level assignment;
   the innermost admitted activation of P is curtailed, the Choice above it takes 'a', the one above
   that takes P b, the next one finds no second b after "ab" ... the answer alternates with the
   nesting depth (= remaining + 2), so it depends on the LENGTH of the rest of the input: on "ab", "abb",
   "abbb" the engine (and the real code, see notes/Exact.md) returns only SEQ[a b], although
   P b has a valid derivation of "abb" — first match is violated with respect to [valid]. *)
Definition v_alt : list pexpr := [PRef 0; xb].
Definition v_body : pexpr := PChoice [PSeq SeqOf INone false None v_alt; xa].
Definition v_rules : list pexpr := [PMemo 1 v_body].
Definition v_site (idx : N) : option pexpr := if idx =? 1 then Some v_body else None.
Definition v_q : seqinfo := {| q_kind := SeqOf; q_ip := INone; q_single := false; q_ps := v_alt |}.
Definition v_d0 : dtree := DRef 0 (DMemo 1 (DAlt 1 (ta 1))).
Definition v_d1 : dtree := DRef 0 (DMemo 1 (DAlt 0 (DSeq v_q 1 [v_d0; tb 2]))).
Definition v_d2 : dtree := DRef 0 (DMemo 1 (DAlt 0 (DSeq v_q 1 [v_d1; tb 3]))).
Example unstratified_choice_left_recursion :
  wf_rules v_rules v_site /\ frag v_body = true /\
  (forall rl ml, ~ rules_lev rl ml v_rules) /\
  (exists cp err c, run (mk_input [97; 98; 98] 1) v_rules 100 (PRef 0) = Ok ([u_ab], cp, err, c)) /\
  valid (mk_input [97; 98; 98] 1) v_rules (PRef 0) 1 v_d2 /\ dend v_d2 = 4.
Proof.
  split; [|split; [reflexivity|split; [|split; [run_tac|split; [|reflexivity]]]]].
  - intros k body H. apply nth_N_single in H. subst body. cbn. repeat split; reflexivity.
  - intros rl ml H. specialize (H 0 (PMemo 1 v_body) eq_refl). cbn [lev_ok] in H.
    apply andb_true_iff in H. destruct H as [H1 H2]. apply Nat.leb_le in H1.
    unfold v_body in H2. cbn [lev_ok] in H2. destruct (ml 1) as [|L0]; [discriminate H2|].
    cbn [forallb lev_ok v_alt] in H2. apply andb_true_iff in H2. destruct H2 as [H2 _].
    apply andb_true_iff in H2. destruct H2 as [H2 _]. apply Nat.leb_le in H2. lia.
  - unfold v_d2, v_d1, v_d0. xvalid.
Qed.

(* ------------------------------------------------------------------------------------- *)
(* Extra: Sentence over a stratified root (C04 "succeeds precisely when ...")             *)
(* ------------------------------------------------------------------------------------- *)
Section Sentence2.
  Variable inp : input.
  Variable rules : list pexpr.
  Variable site : N -> option pexpr.
  Variable rl : N -> nat.
  Variable ml : N -> nat.
  Hypothesis rules_wf : wf_rules rules site.
  Hypothesis rules_ef : forall k body, nth_N rules k = Some body -> endfree body = true.
  Hypothesis rules_lv : rules_lev rl ml rules.
  Variable L : nat.
  Variable root : pexpr.
  Hypothesis root_lev : lev_ok rl ml L root = true.
  Hypothesis root_wf : wf rules site root.
  Hypothesis root_ef : endfree root = true.
  Notation off := (i_offset inp).

  (* if root has an EXACT derivation of the whole input, Sentence(root) succeeds with exactly one node
     SEQ[n0; EOF], where n0 is the yield of an exact derivation of root that reaches the end of the input *)
  Theorem C04_sentence_exact fuel t d :
    parse_top inp rules fuel (sentence root) = Ok t ->
    exact inp rules L root off d -> dend d = off + i_len inp ->
    exists d0 c, exact inp rules L root off d0 /\ is_eof inp (dend d0) = true /\
      t = TopNode [handle_result (Complete.sq root) off [yield d0; NEnd (dend d0)]] c.
  Proof.
    intros H Hd Hend.
    destruct (pump_ends_x inp rules site _ rules_wf root off d Hd root_wf (Sound.in_file_offset inp)) as [d' [Hv [B Hcm]]].
    rewrite <- B in Hend. clear d Hd B.
    unfold parse_top in H. apply bind_ok in H.
    destruct H as [[[[nodes cp] err] c] [H1 H2]].
    unfold run in H1. destruct fuel as [|f1]; [discriminate H1|].
    rewrite parse_S in H1. cbn [sentence parse_step] in H1.
    apply bind_ok in H1. destruct H1 as [[[stop st] c0] [H3 H4]].
    destruct f1 as [|f2]; [discriminate H3|].
    rewrite seqp_S in H3. unfold seq_step in H3.
    cbn [q_kind q_ps seq_lookup nth_error] in H3.
    apply bind_ok in H3. destruct H3 as [[[[res cp1] err1] c1] [H5 H6]].
    destruct (parse_exact inp rules site rl ml rules_wf rules_ef rules_lv L f2 L root (reg_call ctx0) [] [] off
                res cp1 err1 c1 (le_n L) root_lev root_wf root_ef (zb_nil ml L) (xinv_ctx0 inp rules site L)
                (Sound.in_file_offset inp) H5) as [_ [Hsnd Hcmp]].
    pose proof (Hcmp [] (ge_on_refl _ _) d' Hv Hcm) as Hin.
    destruct res as [|n ns]; [destruct Hin|].
    destruct (Complete.sent_inv inp rules root f2) as [_ [_ Hs1]].
    change {| q_kind := SeqOf; q_ip := ISelect 0; q_single := false; q_ps := [root; PEnd] |} with (Complete.sq root) in H6.
    apply (Complete.alts_loop_sent inp root _ Hs1) in H6; [|reflexivity].
    destruct H6 as [[n0 [A [E C]]]|[_ Bad]].
    - rewrite C in H4. inversion H4; subst. inversion H2; subst.
      destruct (Hsnd n0 A) as [d0 [Hd0 Hy]]. exists d0. eexists.
      unfold dend. rewrite Hy. split; [exact Hd0|]. split; [exact E|reflexivity].
    - specialize (Bad _ Hin). fold (dend d') in Bad. rewrite Hend in Bad.
      unfold is_eof in Bad. apply N.leb_gt in Bad. exfalso. clear - Bad. lia.
  Qed.
End Sentence2.
Print Assumptions C04_sentence_exact.

(* stage 1 with a NON-EMPTY context: Choice(a, SEQ[a b]) called on "ab" with counter 4 for the index of the
   rule P of Complete.lr_rules.  The operands reach no Memoize at all (R = M = nothing), so every context is
   admissible and the theorem applies: the first alternative wins. *)
Example C01_choice_exact_nonempty_ctx_example : forall ns cp err c,
  parse u_inp lr_rules 20 (PChoice [xa; e1_seq]) ctx0 [] [(1, 4)] 1 = Ok (ns, cp, err, c) ->
  exists i e, nth_error [xa; e1_seq] i = Some e /\ first_match u_inp lr_rules [xa; e1_seq] 1 i /\ ns <> [] /\
    (forall n, In n ns -> exists d, valid u_inp lr_rules e 1 d /\ yield d = n) /\
    (forall d, valid u_inp lr_rules e 1 d -> exists n, In n ns /\ node_rpos n = dend d).
Proof.
  intros ns cp err c H.
  destruct (C01_choice_exact u_inp lr_rules lr_site lr_wf lr_mono lr_ef (fun _ => false) (fun _ => false)
              (fun k body (Hk : false = true) _ => False_ind _ (Bool.diff_false_true Hk))
              19 [xa; e1_seq] ctx0 [] [(1, 4)] 1 ns cp err c) as [_ [[En _]|Hr]].
  - intros e [<-|[<-|[]]]; (split; [cbn; tauto|split; [reflexivity|split; reflexivity]]).
  - apply cinv_ctx0.
  - split; [apply N.le_refl|vm_compute; discriminate].
  - intros idx Hm. discriminate Hm.
  - exact H.
  - subst ns. vm_compute in H. discriminate H.
  - destruct Hr as [i [e [A [B [C [_ [E [_ G]]]]]]]]. exists i, e. repeat (split; [assumption|]). exact G.
Qed.

Print Assumptions C01_choice_exact_iff.
Print Assumptions C01_choice_exact_run.
Print Assumptions C01_seq_maximal_exact_run.
Print Assumptions parse_exact.
Print Assumptions C01_exact_complete.
Print Assumptions choice_first_match.
Print Assumptions C01_exact_choice_example.
Print Assumptions C01_choice_exact_example.
Print Assumptions many_longest_path.
Print Assumptions C01_seq_maximal_many_example.
Print Assumptions sepby_longest_path.
Print Assumptions sepby_trailing_separator.
Print Assumptions seqtry_longest_prefix.
Print Assumptions seqfirstorall_first.
Print Assumptions seqfirstorall_two_of_three.
Print Assumptions choice_under_left_recursion.
Print Assumptions C01_exact_left_recursion_example.
Print Assumptions C01_exact_two_levels_example.
Print Assumptions zero_on_needed.
Print Assumptions unstratified_choice_left_recursion.
Print Assumptions C01_choice_exact_nonempty_ctx_example.
