(* TreeProofs.v — the tree passes of Tree.v meet their specifications (C13):
   Walk = the post-order listing, StaticCheck = that walk with the schema-storing callback
   (bottom-up, sees final schemas, records, aborts), Transform = the frontier specification,
   evaluation logs only (interpreter, own node) pairs and returns the log-free value. *)
From Coq Require Import String List NArith ZArith Bool Lia Permutation Arith.
From Parsley Require Import Obs Base Tree.
Import ListNotations.
Open Scope N_scope.

(* ------------------------------------------------------------------ *)
(* induction on trees with the nested lists                            *)

Section TreeInd.
  Variable P : tree -> Prop.
  Hypothesis Hleaf : forall id s v, P (TLeaf id s v).
  Hypothesis Hempty : forall id, P (TEmpty id).
  Hypothesis Hnt : forall id p ik cs, Forall P cs -> P (TNonTerm id p ik cs).
  Hypothesis Hlist : forall id alts, Forall P alts -> P (TList id alts).

  Fixpoint tree_ind' (t : tree) : P t :=
    match t with
    | TLeaf id s v => Hleaf id s v
    | TEmpty id => Hempty id
    | TNonTerm id p ik cs =>
      Hnt id p ik cs ((fix go (l : list tree) : Forall P l :=
                         match l with
                         | [] => Forall_nil P
                         | c :: r => Forall_cons c (tree_ind' c) (go r)
                         end) cs)
    | TList id alts =>
      Hlist id alts ((fix go (l : list tree) : Forall P l :=
                        match l with
                        | [] => Forall_nil P
                        | c :: r => Forall_cons c (tree_ind' c) (go r)
                        end) alts)
    end.
End TreeInd.

(* the same, with the hypothesis also for grandchildren (Object indexes into its key-value nodes) *)
Lemma tree_ind2 (P : tree -> Prop) :
  (forall id s v, P (TLeaf id s v)) ->
  (forall id, P (TEmpty id)) ->
  (forall id p ik cs, Forall P cs -> Forall (fun c => Forall P (children c)) cs -> P (TNonTerm id p ik cs)) ->
  (forall id alts, Forall P alts -> P (TList id alts)) ->
  forall t, P t.
Proof.
  intros Hl He Hn Ha t.
  enough (H : P t /\ Forall P (children t)) by exact (proj1 H).
  induction t as [id s v|id|id p ik cs IH|id alts IH] using tree_ind'.
  - split; [apply Hl|constructor].
  - split; [apply He|constructor].
  - assert (H1 : Forall P cs) by (eapply Forall_impl; [|exact IH]; intros a Ha'; exact (proj1 Ha')).
    assert (H2 : Forall (fun c => Forall P (children c)) cs)
      by (eapply Forall_impl; [|exact IH]; intros a Ha'; exact (proj2 Ha')).
    split; [apply Hn; assumption|exact H1].
  - split; [|constructor]. apply Ha. eapply Forall_impl; [|exact IH]. intros a Ha'; exact (proj1 Ha').
Qed.

(* ------------------------------------------------------------------ *)
(* Walk                                                                 *)

Lemma run_app {S : Type} (f : S -> tree -> S * outcome bool) l1 l2 s :
  run f (l1 ++ l2) s = match run f l1 s with (s', Ok false) => run f l2 s' | x => x end.
Proof.
  revert s; induction l1 as [|[n|] l1 IH]; intros s; cbn [run app]; [reflexivity| |reflexivity].
  destruct (f s n) as [s' [[|]| |]]; try reflexivity. apply IH.
Qed.

Lemma run_single {S : Type} (f : S -> tree -> S * outcome bool) n s : run f [Some n] s = f s n.
Proof. cbn [run]. destruct (f s n) as [s' [[|]| |]]; reflexivity. Qed.

Lemma visit_run {S : Type} (f : S -> tree -> S * outcome bool) t l s :
  visit f t (run f l s) = run f (l ++ [Some t]) s.
Proof.
  rewrite run_app. unfold visit. destruct (run f l s) as [s' [[|]| |]]; try reflexivity.
  symmetry; apply run_single.
Qed.

Lemma walk_children_run {S : Type} (f : S -> tree -> S * outcome bool) cs :
  Forall (fun c => forall s, walk_st f c s = run f (post' c) s) cs ->
  forall s, walk_children (walk_st f) cs s = run f (flat_map post' cs) s.
Proof.
  induction 1 as [|c r Hc Hr IH]; intros s; [reflexivity|].
  cbn [walk_children flat_map]. rewrite run_app, Hc.
  destruct (run f (post' c) s) as [s' [[|]| |]]; try reflexivity. apply IH.
Qed.

(* Walk applies the callback exactly along the post-order listing, until it stops or panics
   (or the walk indexes an empty alternative list), for every stateful callback. *)
Theorem walk_st_run {S : Type} (f : S -> tree -> S * outcome bool) t :
  forall s, walk_st f t s = run f (post' t) s.
Proof.
  induction t as [id sc v|id|id p ik cs IH|id alts IH] using tree_ind'; intros s.
  - cbn [walk_st post']. symmetry; apply run_single.
  - cbn [walk_st post']. symmetry; apply run_single.
  - cbn [walk_st post']. rewrite (walk_children_run f cs IH). apply visit_run.
  - destruct alts as [|a alts]; [reflexivity|].
    cbn [walk_st post']. inversion IH as [|? ? Ha _]; subst. rewrite Ha. apply visit_run.
Qed.

Lemma post'_post t : lists_nonempty t = true -> post' t = map Some (post t).
Proof.
  induction t as [id sc v|id|id p ik cs IH|id alts IH] using tree_ind'; intros H; try reflexivity.
  - cbn [post' post lists_nonempty] in *. rewrite map_app. f_equal.
    induction IH as [|c r Hc Hr IHr]; [reflexivity|].
    cbn [forallb] in H. apply andb_prop in H. destruct H as [H1 H2].
    cbn [flat_map]. rewrite map_app, (Hc H1), (IHr H2). reflexivity.
  - destruct alts as [|a alts]; [discriminate|].
    cbn [post' post lists_nonempty forallb] in *. apply andb_prop in H. destruct H as [H1 _].
    inversion IH as [|? ? Ha _]; subst. rewrite map_app, (Ha H1). reflexivity.
Qed.

Lemma run_log_cb f l lg :
  run (log_cb f) (map Some l) lg = (lg ++ map node_id (cut f l), Ok (existsb f l)).
Proof.
  revert lg; induction l as [|n l IH]; intros lg; cbn [map run cut existsb].
  - rewrite app_nil_r; reflexivity.
  - unfold log_cb at 1. destruct (f n) eqn:E; cbn [orb map].
    + reflexivity.
    + rewrite IH, <- app_assoc. reflexivity.
Qed.

Theorem walk_postorder f t : lists_nonempty t = true ->
  walk f t = (map node_id (cut f (post t)), Ok (existsb f (post t))).
Proof.
  intros H. unfold walk. rewrite walk_st_run, (post'_post t H), run_log_cb. reflexivity.
Qed.

Lemma cut_never {A} (f : A -> bool) l : (forall x, f x = false) -> cut f l = l.
Proof. intros H; induction l as [|x l IH]; cbn [cut]; [reflexivity|]. rewrite H, IH; reflexivity. Qed.
Lemma existsb_never {A} (f : A -> bool) l : (forall x, f x = false) -> existsb f l = false.
Proof. intros H; induction l as [|x l IH]; cbn [existsb]; [reflexivity|]. rewrite H, IH; reflexivity. Qed.

Lemma map_flat_map {A B C} (f : B -> C) (g : A -> list B) l :
  map f (flat_map g l) = flat_map (fun x => map f (g x)) l.
Proof. induction l as [|x l IH]; cbn [flat_map map]; [reflexivity|]. rewrite map_app, IH; reflexivity. Qed.

Lemma flat_map_perm {A B} (f g : A -> list B) l :
  Forall (fun x => Permutation (f x) (g x)) l -> Permutation (flat_map f l) (flat_map g l).
Proof. induction 1 as [|x l Hx Hl IH]; cbn [flat_map]; [constructor|]. apply Permutation_app; assumption. Qed.

Lemma flat_map_ext_Forall {A B} (f g : A -> list B) l :
  Forall (fun x => f x = g x) l -> flat_map f l = flat_map g l.
Proof. induction 1 as [|x l Hx Hl IH]; cbn [flat_map]; [reflexivity|]. rewrite Hx, IH; reflexivity. Qed.

(* the post-order listing names exactly the nodes reachable through first alternatives, once each *)
Lemma post_perm t : Permutation (map node_id (post t)) (reach_ids t).
Proof.
  induction t as [id sc v|id|id p ik cs IH|id alts IH] using tree_ind'; try (cbn; apply Permutation_refl).
  - cbn [post reach_ids]. rewrite map_app. cbn [map node_id].
    apply Permutation_sym. eapply Permutation_trans; [apply Permutation_cons_append|].
    apply Permutation_app_tail. apply Permutation_sym. rewrite map_flat_map. apply flat_map_perm. exact IH.
  - destruct alts as [|a alts]; [cbn; apply Permutation_refl|].
    cbn [post reach_ids]. rewrite map_app. cbn [map node_id].
    inversion IH as [|? ? Ha _]; subst.
    apply Permutation_sym. eapply Permutation_trans; [apply Permutation_cons_append|].
    apply Permutation_app_tail. apply Permutation_sym. exact Ha.
Qed.

Lemma reach_all t : no_lists t = true -> reach_ids t = all_ids t.
Proof.
  induction t as [id sc v|id|id p ik cs IH|id alts IH] using tree_ind'; intros H; try reflexivity; [|discriminate].
  cbn [reach_ids all_ids no_lists] in *. f_equal. apply flat_map_ext_Forall.
  induction IH as [|c r Hc Hr IHr]; [constructor|].
  cbn [forallb] in H. apply andb_prop in H. destruct H as [H1 H2]. constructor; [exact (Hc H1)|exact (IHr H2)].
Qed.

Lemma no_lists_nonempty t : no_lists t = true -> lists_nonempty t = true.
Proof.
  induction t as [id sc v|id|id p ik cs IH|id alts IH] using tree_ind'; intros H; try reflexivity; [|discriminate].
  cbn [no_lists lists_nonempty] in *.
  induction IH as [|c r Hc Hr IHr]; [reflexivity|].
  cbn [forallb] in *. apply andb_prop in H. destruct H as [H1 H2]. rewrite (Hc H1), (IHr H2). reflexivity.
Qed.

(* a callback that never stops sees every reachable node exactly once *)
Theorem walk_once f t : (forall n, f n = false) -> lists_nonempty t = true ->
  snd (walk f t) = Ok false /\
  Permutation (fst (walk f t)) (reach_ids t) /\
  (no_lists t = true -> reach_ids t = all_ids t) /\
  (NoDup (reach_ids t) -> forall id, In id (reach_ids t) -> count_occ N.eq_dec (fst (walk f t)) id = 1%nat).
Proof.
  intros Hf Hne. rewrite (walk_postorder f t Hne), (cut_never f _ Hf), (existsb_never f _ Hf). cbn [fst snd].
  split; [reflexivity|]. split; [apply post_perm|]. split; [apply reach_all|].
  intros Hnd id Hin.
  assert (Hnd' : NoDup (map node_id (post t))).
  { eapply Permutation_NoDup; [apply Permutation_sym, post_perm|exact Hnd]. }
  apply (proj1 (NoDup_count_occ' N.eq_dec _) Hnd').
  eapply Permutation_in; [apply Permutation_sym, post_perm|exact Hin].
Qed.

Example walk_postorder_example :
  let t := TNonTerm 1 3 INone [TList 2 [TLeaf 3 None VNil; TLeaf 9 None VNil]; TNonTerm 4 5 INone [TEmpty 5]] in
  walk (fun _ => false) t = ([3; 2; 5; 4; 1], Ok false) /\
  walk (fun n => node_id n =? 5) t = ([3; 2; 5], Ok true).
Proof. split; reflexivity. Qed.

(* ------------------------------------------------------------------ *)
(* StaticCheck                                                          *)

(* parsley.StaticCheck is the walk with the schema-storing callback *)
Theorem static_check_run chk t : static_check chk t = run (sc_callback chk) (post' t) cs_init.
Proof. apply walk_st_run. Qed.

Lemma run_snoc {S : Type} (f : S -> tree -> S * outcome bool) l n s :
  run f (map Some (l ++ [n])) s = match run f (map Some l) s with (s1, Ok false) => f s1 n | x => x end.
Proof.
  rewrite map_app, run_app. cbn [map].
  destruct (run f (map Some l) s) as [s1 [[|]| |]]; try reflexivity. apply run_single.
Qed.

Lemma run_stop_split {S : Type} (f : S -> tree -> S * outcome bool) l : forall s s' r,
  run f (map Some l) s = (s', r) -> r <> Ok false ->
  exists l0 n rest s1, l = l0 ++ n :: rest /\ run f (map Some l0) s = (s1, Ok false) /\ f s1 n = (s', r).
Proof.
  induction l as [|n l IH]; intros s s' r H Hr; cbn [map run] in H.
  - inversion H; subst. contradiction Hr; reflexivity.
  - destruct (f s n) as [s1 o] eqn:E. destruct o as [[|]| |].
    + inversion H; subst. exists [], n, l, s. split; [reflexivity|]. split; [reflexivity|exact E].
    + destruct (IH s1 s' r H Hr) as (l0 & m & rest & s2 & Hl & H1 & H2).
      exists (n :: l0), m, rest, s2. split; [rewrite Hl; reflexivity|]. split; [|exact H2].
      cbn [map run]. rewrite E. exact H1.
    + inversion H; subst. exists [], n, l, s. split; [reflexivity|]. split; [reflexivity|exact E].
    + inversion H; subst. exists [], n, l, s. split; [reflexivity|]. split; [reflexivity|exact E].
Qed.

Lemma run_ok_false_prefix {S : Type} (f : S -> tree -> S * outcome bool) l1 l2 s s' :
  run f (map Some (l1 ++ l2)) s = (s', Ok false) -> exists s1, run f (map Some l1) s = (s1, Ok false).
Proof.
  rewrite map_app, run_app. destruct (run f (map Some l1) s) as [s1 [[|]| |]]; intros H; try discriminate.
  exists s1; reflexivity.
Qed.

(* --- the listing: a node comes after everything below it --- *)

Lemma post_below n : post n = below n ++ [n].
Proof. destruct n as [id s v|id|id p ik cs|id [|a alts]]; reflexivity. Qed.

Lemma post_sub t : forall n, In n (post t) -> exists l1 l2, post t = l1 ++ post n ++ l2.
Proof.
  induction t as [id sc v|id|id p ik cs IH|id alts IH] using tree_ind'; intros n Hin.
  - destruct Hin as [<-|[]]. exists [], []. reflexivity.
  - destruct Hin as [<-|[]]. exists [], []. reflexivity.
  - cbn [post] in Hin. apply in_app_or in Hin. destruct Hin as [Hin|[<-|[]]].
    + apply in_flat_map in Hin. destruct Hin as (c & Hc & Hn).
      rewrite Forall_forall in IH. destruct (IH c Hc n Hn) as (l1 & l2 & E).
      destruct (in_split _ _ Hc) as (ca & cb & ->).
      cbn [post]. rewrite flat_map_app. cbn [flat_map]. rewrite E.
      exists (flat_map post ca ++ l1), (l2 ++ flat_map post cb ++ [TNonTerm id p ik (ca ++ c :: cb)]).
      repeat rewrite <- app_assoc. reflexivity.
    + exists [], []. rewrite app_nil_r. reflexivity.
  - destruct alts as [|a alts].
    + destruct Hin as [<-|[]]. exists [], []. reflexivity.
    + cbn [post] in Hin. apply in_app_or in Hin. destruct Hin as [Hin|[<-|[]]].
      * inversion IH as [|? ? Ha _]; subst. destruct (Ha n Hin) as (l1 & l2 & E).
        cbn [post]. rewrite E. exists l1, (l2 ++ [TList id (a :: alts)]).
        repeat rewrite <- app_assoc. reflexivity.
      * exists [], []. rewrite app_nil_r. reflexivity.
Qed.

Lemma NoDup_split_unique {A B} (f : A -> B) (a a' b b' : list A) n :
  NoDup (map f (a ++ n :: b)) -> a ++ n :: b = a' ++ n :: b' -> a = a' /\ b = b'.
Proof.
  revert a'; induction a as [|x a IH]; intros a' Hnd E.
  - destruct a' as [|y a']; cbn [app] in E.
    + inversion E; auto.
    + inversion E; subst. exfalso. cbn [app map] in Hnd. inversion Hnd as [|? ? Hni _]; subst.
      apply Hni. rewrite map_app. apply in_or_app; right. left; reflexivity.
  - destruct a' as [|y a']; cbn [app] in E.
    + inversion E; subst. exfalso. cbn [app map] in Hnd. inversion Hnd as [|? ? Hni _]; subst.
      apply Hni. rewrite map_app. apply in_or_app; right. left; reflexivity.
    + inversion E; subst. cbn [app map] in Hnd. inversion Hnd as [|? ? _ Hnd']; subst.
      destruct (IH a' Hnd' H1) as [-> ->]. auto.
Qed.

Lemma before_in l d m : before l d m -> In d l /\ In m l.
Proof.
  intros (l1 & l2 & -> & Hd). split; apply in_or_app; [left; exact Hd|right; left; reflexivity].
Qed.

Lemma NoDup_snoc_notin l n : NoDup (map node_id (l ++ [n])) -> forall m, In m l -> node_id m <> node_id n.
Proof.
  intros Hnd m Hm E. rewrite map_app in Hnd. cbn [map] in Hnd.
  apply NoDup_remove_2 in Hnd. apply Hnd. rewrite app_nil_r, <- E. apply in_map; exact Hm.
Qed.

Lemma before_snoc_old l n d m : NoDup (map node_id (l ++ [n])) -> In m l -> before (l ++ [n]) d m -> before l d m.
Proof.
  intros Hnd Hm (l1 & l2 & E & Hd).
  destruct (exists_last (l := m :: l2)) as (l2' & y & E2); [discriminate|].
  destruct l2' as [|z l2'].
  - cbn [app] in E2. inversion E2; subst. exfalso.
    apply app_inj_tail in E. destruct E as [_ E]. subst.
    apply (NoDup_snoc_notin l y Hnd y Hm); reflexivity.
  - cbn [app] in E2. inversion E2; subst.
    replace (l1 ++ z :: l2' ++ [y]) with ((l1 ++ z :: l2') ++ [y]) in E by (rewrite <- app_assoc; reflexivity).
    apply app_inj_tail in E. destruct E as [E _]. exists l1, l2'. split; assumption.
Qed.

Lemma before_snoc_new l n d : NoDup (map node_id (l ++ [n])) -> before (l ++ [n]) d n -> In d l.
Proof.
  intros Hnd (l1 & l2 & E & Hd).
  assert (E' : l ++ n :: [] = l1 ++ n :: l2) by exact E.
  destruct (NoDup_split_unique node_id l l1 [] l2 n Hnd E') as [-> _]. exact Hd.
Qed.

Lemma below_before done rest t n d :
  NoDup (map node_id (post t)) -> post t = done ++ rest -> In n done -> In d (below n) -> before done d n.
Proof.
  intros Hnd E Hn Hd.
  assert (Hin : In n (post t)) by (rewrite E; apply in_or_app; left; exact Hn).
  destruct (post_sub t n Hin) as (l1 & l2 & E1). rewrite (post_below n), <- app_assoc in E1. cbn [app] in E1.
  destruct (in_split _ _ Hn) as (a & b & Hdone).
  assert (E2 : (l1 ++ below n) ++ n :: l2 = a ++ n :: (b ++ rest)).
  { rewrite <- app_assoc, <- E1, E, Hdone, <- app_assoc. reflexivity. }
  assert (Hnd2 : NoDup (map node_id ((l1 ++ below n) ++ n :: l2))).
  { rewrite <- app_assoc, <- E1. exact Hnd. }
  destruct (NoDup_split_unique node_id _ _ _ _ n Hnd2 E2) as [Ha _].
  exists a, b. split; [exact Hdone|]. rewrite <- Ha. apply in_or_app; right; exact Hd.
Qed.

(* --- one callback step --- *)

Lemma schema_at_frame st id x d : node_id d <> id -> schema_at ((id, x) :: st) d = schema_at st d.
Proof.
  intros H. destruct d as [i s v|i|i p ik cs|i alts]; try reflexivity.
  cbn [schema_at node_id] in *. unfold lookup. cbn [find fst].
  destruct (id =? i) eqn:E; [apply N.eqb_eq in E; congruence|reflexivity].
Qed.

Lemma schema_at_hit st id p ik cs x : schema_at ((id, x) :: st) (TNonTerm id p ik cs) = x.
Proof. cbn [schema_at]. unfold lookup. cbn [find fst snd]. rewrite N.eqb_refl. reflexivity. Qed.

Lemma sc_cb_rec chk s n : rec_checker n = true ->
  exists e, ce_node e = n /\ ce_store e = cs_store s /\
    ce_res e = chk (ce_k e) n (schema_at (cs_store s)) /\
    (exists id p trf cs, n = TNonTerm id p (IRec (ce_k e) true trf) cs) /\
    match ce_res e with
    | CSchema sc => sc_callback chk s n =
        ({| cs_store := (node_id n, sc) :: cs_store s; cs_log := cs_log s ++ [e]; cs_err := cs_err s |}, Ok false)
    | CErr err => sc_callback chk s n =
        ({| cs_store := cs_store s; cs_log := cs_log s ++ [e]; cs_err := Some err |}, Ok true)
    end.
Proof.
  intros H. destruct n as [id sc v|id|id p ik cs|id alts]; try discriminate.
  destruct ik as [|k c trf|i| | |]; try discriminate. destruct c; try discriminate.
  exists {| ce_k := k; ce_node := TNonTerm id p (IRec k true trf) cs; ce_store := cs_store s;
            ce_res := chk k (TNonTerm id p (IRec k true trf) cs) (schema_at (cs_store s)) |}.
  cbn [ce_k ce_node ce_store ce_res]. split; [reflexivity|]. split; [reflexivity|]. split; [reflexivity|].
  split; [exists id, p, trf, cs; reflexivity|].
  cbn [sc_callback node_id].
  destruct (chk k (TNonTerm id p (IRec k true trf) cs) (schema_at (cs_store s))); reflexivity.
Qed.

Lemma sc_cb_nonrec chk s n : rec_checker n = false ->
  (sc_callback chk s n = (s, Panic) /\
   exists id p i cs, n = TNonTerm id p (ISelect i) cs /\ select_child i cs = None) \/
  (exists st', sc_callback chk s n = ({| cs_store := st'; cs_log := cs_log s; cs_err := cs_err s |}, Ok false) /\
               (st' = cs_store s \/ exists x, st' = (node_id n, x) :: cs_store s)).
Proof.
  intros H. destruct s as [st lg er].
  destruct n as [id sc v|id|id p ik cs|id alts];
    try (right; exists st; split; [reflexivity|left; reflexivity]).
  destruct ik as [|k c trf|i| | |];
    try (right; exists st; split; [reflexivity|left; reflexivity]).
  - destruct c; [discriminate|]. right; exists st; split; [reflexivity|left; reflexivity].
  - cbn [sc_callback]. destruct (select_child i cs) as [c|] eqn:E.
    + right. eexists. split; [reflexivity|]. right. eexists. reflexivity.
    + left. split; [reflexivity|]. exists id, p, i, cs. split; [reflexivity|exact E].
Qed.

(* --- the invariant after a prefix of the listing has been processed --- *)

Record Inv (chk : checker) (l : list tree) (s : cstate) : Prop := {
  inv_order : map ce_node (cs_log s) = filter rec_checker l;
  inv_honest : forall e, In e (cs_log s) ->
      (exists id p trf cs, ce_node e = TNonTerm id p (IRec (ce_k e) true trf) cs) /\
      ce_res e = chk (ce_k e) (ce_node e) (schema_at (ce_store e));
  inv_view : forall e, In e (cs_log s) -> forall d, before l d (ce_node e) ->
      schema_at (ce_store e) d = schema_at (cs_store s) d;
  inv_prev : forall lg1 e lg2, cs_log s = lg1 ++ e :: lg2 ->
      forall d, before l d (ce_node e) -> rec_checker d = true ->
      exists e', In e' lg1 /\ ce_node e' = d /\ ce_res e' = CSchema (schema_at (ce_store e) d);
  inv_rec : forall e sc, In e (cs_log s) -> ce_res e = CSchema sc -> schema_at (cs_store s) (ce_node e) = sc
}.

Definition all_schema (lg : list centry) : Prop := forall e, In e lg -> exists sc, ce_res e = CSchema sc.

Lemma inv_init chk : Inv chk [] cs_init.
Proof.
  constructor; cbn [cs_init cs_log cs_store].
  - reflexivity.
  - intros e0 H0; destruct H0.
  - intros e0 H0; destruct H0.
  - intros lg1 e0 lg2 E. destruct lg1; discriminate.
  - intros e0 sc H0; destruct H0.
Qed.

Lemma log_node_in chk l s e : Inv chk l s -> In e (cs_log s) -> In (ce_node e) l.
Proof.
  intros I He. assert (H : In (ce_node e) (map ce_node (cs_log s))) by (apply in_map; exact He).
  rewrite (inv_order _ _ _ I) in H. apply filter_In in H. exact (proj1 H).
Qed.

Lemma inv_step chk l n s1 s2 b :
  NoDup (map node_id (l ++ [n])) -> Inv chk l s1 -> all_schema (cs_log s1) ->
  sc_callback chk s1 n = (s2, Ok b) ->
  Inv chk (l ++ [n]) s2 /\
  (b = false -> all_schema (cs_log s2) /\ cs_err s2 = cs_err s1) /\
  (b = true -> exists e err, cs_log s2 = cs_log s1 ++ [e] /\ ce_node e = n /\ ce_res e = CErr err /\ cs_err s2 = Some err).
Proof.
  intros Hnd I Hgood Hcb.
  assert (Hni : forall m, In m l -> node_id m <> node_id n) by (apply NoDup_snoc_notin; exact Hnd).
  destruct (rec_checker n) eqn:Hrec.
  - (* a recording checker runs *)
    destruct (sc_cb_rec chk s1 n Hrec) as (e & Hen & Hest & Heres & Hshape & Hcase).
    assert (Hlog : cs_log s2 = cs_log s1 ++ [e]).
    { destruct (ce_res e); rewrite Hcase in Hcb; inversion Hcb; reflexivity. }
    assert (Hframe : forall d, In d l -> schema_at (cs_store s2) d = schema_at (cs_store s1) d).
    { intros d Hd. destruct (ce_res e); rewrite Hcase in Hcb; inversion Hcb; cbn [cs_store]; [|reflexivity].
      apply schema_at_frame. apply Hni; exact Hd. }
    split; [constructor|split].
    + rewrite Hlog, map_app, filter_app. cbn [map filter]. rewrite Hrec, Hen, (inv_order _ _ _ I). reflexivity.
    + intros e0 He0. rewrite Hlog in He0. apply in_app_or in He0. destruct He0 as [He0|[<-|[]]].
      * exact (inv_honest _ _ _ I e0 He0).
      * rewrite Hen. split; [exact Hshape|]. rewrite Hest. exact Heres.
    + intros e0 He0 d Hbef. rewrite Hlog in He0. apply in_app_or in He0. destruct He0 as [He0|[<-|[]]].
      * assert (Hm : In (ce_node e0) l) by (eapply log_node_in; eassumption).
        apply (before_snoc_old l n d _ Hnd Hm) in Hbef.
        rewrite (inv_view _ _ _ I e0 He0 d Hbef). symmetry. apply Hframe. exact (proj1 (before_in _ _ _ Hbef)).
      * rewrite Hen in Hbef. apply (before_snoc_new l n d Hnd) in Hbef.
        rewrite Hest. symmetry. apply Hframe. exact Hbef.
    + intros lg1 e0 lg2 E d Hbef Hd. rewrite Hlog in E.
      destruct (exists_last (l := e0 :: lg2)) as (lg2' & y & E2); [discriminate|].
      destruct lg2' as [|z lg2'].
      * cbn [app] in E2. inversion E2; subst y lg2.
        apply app_inj_tail in E. destruct E as [E1 E3]. subst lg1 e0.
        rewrite Hen in Hbef. apply (before_snoc_new l n d Hnd) in Hbef.
        assert (Hin : In d (map ce_node (cs_log s1))).
        { rewrite (inv_order _ _ _ I). apply filter_In. split; assumption. }
        apply in_map_iff in Hin. destruct Hin as (e' & He'd & He').
        exists e'. split; [exact He'|]. split; [exact He'd|].
        destruct (Hgood e' He') as (sc & Hsc). rewrite Hsc. f_equal.
        rewrite Hest, <- He'd. symmetry. apply (inv_rec _ _ _ I e' sc He' Hsc).
      * cbn [app] in E2. inversion E2; subst z. rewrite H1 in E.
        replace (lg1 ++ e0 :: lg2' ++ [y]) with ((lg1 ++ e0 :: lg2') ++ [y]) in E by (rewrite <- app_assoc; reflexivity).
        apply app_inj_tail in E. destruct E as [E _].
        assert (He0 : In e0 (cs_log s1)) by (rewrite E; apply in_or_app; right; left; reflexivity).
        assert (Hm : In (ce_node e0) l) by (eapply log_node_in; eassumption).
        apply (before_snoc_old l n d _ Hnd Hm) in Hbef.
        exact (inv_prev _ _ _ I lg1 e0 lg2' E d Hbef Hd).
    + intros e0 sc He0 Hsc. rewrite Hlog in He0. apply in_app_or in He0. destruct He0 as [He0|[<-|[]]].
      * rewrite (Hframe _ (log_node_in _ _ _ _ I He0)). exact (inv_rec _ _ _ I e0 sc He0 Hsc).
      * rewrite Hsc in Hcase. rewrite Hcase in Hcb. injection Hcb as Hs2 _. rewrite <- Hs2. cbn [cs_store].
        destruct Hshape as (id & p & trf & cs & Hn). rewrite Hen, Hn. cbn [node_id]. apply schema_at_hit.
    + intros Hb. destruct (ce_res e) as [sc|err] eqn:Er; rewrite Hcase in Hcb; injection Hcb as Hs2 Hb2;
        [|rewrite Hb in Hb2; discriminate].
      rewrite <- Hs2. cbn [cs_log cs_err]. split; [|reflexivity].
      intros e0 He0. apply in_app_or in He0. destruct He0 as [He0|[<-|[]]]; [exact (Hgood e0 He0)|].
      exists sc; exact Er.
    + intros Hb. destruct (ce_res e) as [sc|err] eqn:Er; rewrite Hcase in Hcb; injection Hcb as Hs2 Hb2;
        [rewrite Hb in Hb2; discriminate|].
      exists e, err. rewrite <- Hs2. cbn [cs_log cs_err].
      split; [reflexivity|]. split; [exact Hen|]. split; [exact Er|reflexivity].
  - (* no recording checker: the log is unchanged *)
    destruct (sc_cb_nonrec chk s1 n Hrec) as [[Hp _]|(st' & Hok & Hst)]; [rewrite Hp in Hcb; discriminate|].
    rewrite Hok in Hcb. inversion Hcb; subst s2 b. cbn [cs_log cs_store cs_err].
    assert (Hframe : forall d, In d l -> schema_at st' d = schema_at (cs_store s1) d).
    { intros d Hd. destruct Hst as [->|(x & ->)]; [reflexivity|].
      apply schema_at_frame. apply Hni; exact Hd. }
    split; [constructor; cbn [cs_log cs_store]|split].
    + rewrite filter_app. cbn [filter]. rewrite Hrec, app_nil_r. exact (inv_order _ _ _ I).
    + exact (inv_honest _ _ _ I).
    + intros e0 He0 d Hbef.
      assert (Hm : In (ce_node e0) l) by (eapply log_node_in; eassumption).
      apply (before_snoc_old l n d _ Hnd Hm) in Hbef.
      rewrite (inv_view _ _ _ I e0 He0 d Hbef). symmetry. apply Hframe. exact (proj1 (before_in _ _ _ Hbef)).
    + intros lg1 e0 lg2 E d Hbef Hd.
      assert (He0 : In e0 (cs_log s1)) by (rewrite E; apply in_or_app; right; left; reflexivity).
      assert (Hm : In (ce_node e0) l) by (eapply log_node_in; eassumption).
      apply (before_snoc_old l n d _ Hnd Hm) in Hbef.
      exact (inv_prev _ _ _ I lg1 e0 lg2 E d Hbef Hd).
    + intros e0 sc He0 Hsc. rewrite (Hframe _ (log_node_in _ _ _ _ I He0)). exact (inv_rec _ _ _ I e0 sc He0 Hsc).
    + intros _. split; [exact Hgood|reflexivity].
    + discriminate.
Qed.

Lemma NoDup_map_app_l {A B} (f : A -> B) l1 l2 : NoDup (map f (l1 ++ l2)) -> NoDup (map f l1).
Proof.
  rewrite map_app. induction (map f l1) as [|x m IH]; intros H; [constructor|].
  cbn [app] in H. inversion H as [|? ? Hni Hnd]; subst. constructor; [|apply IH; exact Hnd].
  intros Hx. apply Hni. apply in_or_app; left; exact Hx.
Qed.

(* processing a whole prefix without a stop *)
Lemma run_inv chk l : forall s, NoDup (map node_id l) ->
  run (sc_callback chk) (map Some l) cs_init = (s, Ok false) ->
  Inv chk l s /\ all_schema (cs_log s) /\ cs_err s = None.
Proof.
  induction l as [|n l IH] using rev_ind; intros s Hnd H.
  - cbn in H. inversion H; subst. split; [apply inv_init|]. split; [intros e []|reflexivity].
  - rewrite run_snoc in H.
    destruct (run (sc_callback chk) (map Some l) cs_init) as [s1 [[|]| |]] eqn:E; try discriminate.
    destruct (IH s1 (NoDup_map_app_l _ _ _ Hnd) eq_refl) as (I & Hg & He).
    destruct (inv_step chk l n s1 s false Hnd I Hg H) as (I2 & Hf & _).
    destruct (Hf eq_refl) as (Hg2 & He2). split; [exact I2|]. split; [exact Hg2|]. rewrite He2; exact He.
Qed.

(* Bottom-up static checking.  done = the nodes the callback was applied to. *)
Theorem staticcheck_bottom_up chk t s r :
  lists_nonempty t = true -> NoDup (map node_id (post t)) ->
  static_check chk t = (s, r) ->
  exists done rest, post t = done ++ rest /\
  map ce_node (cs_log s) = filter rec_checker done /\
  (forall e, In e (cs_log s) ->
     (exists id p trf cs, ce_node e = TNonTerm id p (IRec (ce_k e) true trf) cs) /\
     ce_res e = chk (ce_k e) (ce_node e) (schema_at (ce_store e))) /\
  (forall e, In e (cs_log s) -> forall d, In d (below (ce_node e)) ->
     schema_at (ce_store e) d = schema_at (cs_store s) d) /\
  (forall lg1 e lg2, cs_log s = lg1 ++ e :: lg2 ->
     forall d, In d (below (ce_node e)) -> rec_checker d = true ->
     exists e', In e' lg1 /\ ce_node e' = d /\ ce_res e' = CSchema (schema_at (ce_store e) d)) /\
  (forall e sc, In e (cs_log s) -> ce_res e = CSchema sc -> schema_at (cs_store s) (ce_node e) = sc) /\
  match r with
  | Ok false => rest = [] /\ cs_err s = None /\ all_schema (cs_log s)
  | Ok true => exists lg e err done0, cs_log s = lg ++ [e] /\ ce_res e = CErr err /\ cs_err s = Some err /\
                 all_schema lg /\ done = done0 ++ [ce_node e]
  | Panic => exists done0 id p i cs, done = done0 ++ [TNonTerm id p (ISelect i) cs] /\ select_child i cs = None
  | OutOfFuel => False
  end.
Proof.
  intros Hne Hnd H. rewrite static_check_run, (post'_post t Hne) in H.
  assert (Hfinish : forall done rest, post t = done ++ rest -> Inv chk done s ->
     map ce_node (cs_log s) = filter rec_checker done /\
     (forall e, In e (cs_log s) ->
        (exists id p trf cs, ce_node e = TNonTerm id p (IRec (ce_k e) true trf) cs) /\
        ce_res e = chk (ce_k e) (ce_node e) (schema_at (ce_store e))) /\
     (forall e, In e (cs_log s) -> forall d, In d (below (ce_node e)) ->
        schema_at (ce_store e) d = schema_at (cs_store s) d) /\
     (forall lg1 e lg2, cs_log s = lg1 ++ e :: lg2 ->
        forall d, In d (below (ce_node e)) -> rec_checker d = true ->
        exists e', In e' lg1 /\ ce_node e' = d /\ ce_res e' = CSchema (schema_at (ce_store e) d)) /\
     (forall e sc, In e (cs_log s) -> ce_res e = CSchema sc -> schema_at (cs_store s) (ce_node e) = sc)).
  { intros done rest E I. split; [exact (inv_order _ _ _ I)|]. split; [exact (inv_honest _ _ _ I)|].
    split; [|split; [|exact (inv_rec _ _ _ I)]].
    - intros e He d Hd. apply (inv_view _ _ _ I e He).
      apply (below_before done rest t _ d Hnd E); [eapply log_node_in; eassumption|exact Hd].
    - intros lg1 e lg2 El d Hd Hr. apply (inv_prev _ _ _ I lg1 e lg2 El); [|exact Hr].
      apply (below_before done rest t _ d Hnd E); [|exact Hd].
      eapply log_node_in; [exact I|]. rewrite El. apply in_or_app; right; left; reflexivity. }
  destruct r as [[|]| |].
  - (* stopped: an error *)
    destruct (run_stop_split _ _ _ _ _ H) as (l0 & n & rest & s1 & El & H1 & H2); [discriminate|].
    assert (Hnd0 : NoDup (map node_id (l0 ++ [n]))).
    { rewrite El in Hnd. replace (l0 ++ n :: rest) with ((l0 ++ [n]) ++ rest) in Hnd by (rewrite <- app_assoc; reflexivity).
      exact (NoDup_map_app_l _ _ _ Hnd). }
    destruct (run_inv chk l0 s1 (NoDup_map_app_l _ _ _ Hnd0) H1) as (I & Hg & He).
    destruct (inv_step chk l0 n s1 s true Hnd0 I Hg H2) as (I2 & _ & Ht).
    destruct (Ht eq_refl) as (e & err & Hlog & Hen & Her & Herr).
    assert (E : post t = (l0 ++ [n]) ++ rest) by (rewrite El, <- app_assoc; reflexivity).
    exists (l0 ++ [n]), rest. split; [exact E|].
    destruct (Hfinish _ _ E I2) as (F1 & F2 & F3 & F4 & F5).
    repeat (split; [assumption|]).
    exists (cs_log s1), e, err, l0. rewrite Hen. repeat split; assumption.
  - (* ran to the end *)
    destruct (run_inv chk (post t) s Hnd H) as (I & Hg & He).
    exists (post t), []. split; [rewrite app_nil_r; reflexivity|].
    destruct (Hfinish (post t) [] (eq_sym (app_nil_r _)) I) as (F1 & F2 & F3 & F4 & F5).
    repeat (split; [assumption|]). repeat split; assumption.
  - (* Select's StaticCheck panicked *)
    destruct (run_stop_split _ _ _ _ _ H) as (l0 & n & rest & s1 & El & H1 & H2); [discriminate|].
    assert (Hnd0 : NoDup (map node_id (l0 ++ [n]))).
    { rewrite El in Hnd. replace (l0 ++ n :: rest) with ((l0 ++ [n]) ++ rest) in Hnd by (rewrite <- app_assoc; reflexivity).
      exact (NoDup_map_app_l _ _ _ Hnd). }
    destruct (run_inv chk l0 s1 (NoDup_map_app_l _ _ _ Hnd0) H1) as (I & Hg & He).
    assert (E : post t = (l0 ++ [n]) ++ rest) by (rewrite El, <- app_assoc; reflexivity).
    destruct (rec_checker n) eqn:Hrec.
    { destruct (sc_cb_rec chk s1 n Hrec) as (e & _ & _ & _ & _ & Hcase).
      destruct (ce_res e); rewrite Hcase in H2; discriminate. }
    destruct (sc_cb_nonrec chk s1 n Hrec) as [[Hp (id & p & i & cs & Hn & Hsel)]|(st' & Hok & _)];
      [|rewrite Hok in H2; discriminate].
    rewrite Hp in H2. inversion H2; subst s1.
    exists (l0 ++ [n]), rest. split; [exact E|].
    assert (I2 : Inv chk (l0 ++ [n]) s).
    { constructor.
      - rewrite filter_app. cbn [filter]. rewrite Hrec, app_nil_r. exact (inv_order _ _ _ I).
      - exact (inv_honest _ _ _ I).
      - intros e0 He0 d Hbef.
        apply (before_snoc_old l0 n d _ Hnd0 (log_node_in _ _ _ _ I He0)) in Hbef.
        exact (inv_view _ _ _ I e0 He0 d Hbef).
      - intros lg1 e0 lg2 El0 d Hbef Hd.
        assert (He0 : In e0 (cs_log s)) by (rewrite El0; apply in_or_app; right; left; reflexivity).
        apply (before_snoc_old l0 n d _ Hnd0 (log_node_in _ _ _ _ I He0)) in Hbef.
        exact (inv_prev _ _ _ I lg1 e0 lg2 El0 d Hbef Hd).
      - exact (inv_rec _ _ _ I). }
    destruct (Hfinish _ _ E I2) as (F1 & F2 & F3 & F4 & F5).
    repeat (split; [assumption|]).
    exists l0, id, p, i, cs. rewrite Hn. split; [reflexivity|exact Hsel].
  - (* the model has no fuel *)
    exfalso. destruct (run_stop_split _ _ _ _ _ H) as (l0 & n & rest & s1 & El & H1 & H2); [discriminate|].
    destruct (rec_checker n) eqn:Hrec.
    { destruct (sc_cb_rec chk s1 n Hrec) as (e & _ & _ & _ & _ & Hcase).
      destruct (ce_res e); rewrite Hcase in H2; discriminate. }
    destruct (sc_cb_nonrec chk s1 n Hrec) as [[Hp _]|(st' & Hok & _)];
      [rewrite Hp in H2|rewrite Hok in H2]; discriminate.
Qed.

Example staticcheck_example :
  let t := TNonTerm 1 3 (IRec 7 true false)
             [TNonTerm 2 3 (IRec 8 true false) [TLeaf 3 (Some 5) VNil]; TNonTerm 4 4 (IRec 9 true false) []] in
  lists_nonempty t = true /\ NoDup (map node_id (post t)) /\
  (* default checkers: 1 + the children's schemas; 2 sees 5, 1 sees 6 and 1 *)
  (let r := static_check (chk_of []) t in
   map (fun e => (ce_k e, node_id (ce_node e), ce_res e)) (cs_log (fst r)) =
     [(8, 2, CSchema (Some 6)); (9, 4, CSchema (Some 1)); (7, 1, CSchema (Some 8))] /\
   cs_err (fst r) = None /\ snd r = Ok false) /\
  (* a failure at node 4: node 1 never runs, node 2 keeps its schema *)
  (let r := static_check (chk_of [(4, CBFail (EUser 0 1))]) t in
   map (fun e => node_id (ce_node e)) (cs_log (fst r)) = [2; 4] /\
   cs_err (fst r) = Some (EUser 0 1) /\ snd r = Ok true /\ cs_store (fst r) = [(2, Some 6)]).
Proof.
  cbv zeta. split; [reflexivity|]. split.
  - cbn. repeat constructor; cbn; intuition discriminate.
  - split; repeat split; reflexivity.
Qed.

(* ------------------------------------------------------------------ *)
(* Transform                                                            *)

Lemma first_fail_app trf l1 l2 :
  first_fail trf (l1 ++ l2) =
  match first_fail trf l1 with
  | Some x => Some x
  | None => match first_fail trf l2 with
            | Some (pre, n, e) => Some (l1 ++ pre, n, e)
            | None => None
            end
  end.
Proof.
  induction l1 as [|x l1 IH]; cbn [app first_fail].
  - destruct (first_fail trf l2) as [[[pre n] e]|]; reflexivity.
  - destruct (trf_apply trf x); [|reflexivity]. rewrite IH.
    destruct (first_fail trf l1) as [[[pre n] e]|]; [reflexivity|].
    destruct (first_fail trf l2) as [[[pre n] e]|]; reflexivity.
Qed.

Definition spec_children (trf : transformer) (cs : list tree) : list (N * N) * (list tree + err) :=
  match first_fail trf (flat_map frontier cs) with
  | None => (map trf_entry (flat_map frontier cs), inl (map (rebuild trf) cs))
  | Some (pre, n, e) => (map trf_entry (pre ++ [n]), inr e)
  end.

Lemma transform_children_spec trf cs :
  Forall (fun c => transform trf c = spec_transform trf c) cs ->
  transform_children (transform trf) cs = spec_children trf cs.
Proof.
  induction 1 as [|c r Hc Hr IH]; [reflexivity|].
  cbn [transform_children]. rewrite Hc, IH. unfold spec_children, spec_transform.
  cbn [flat_map map]. rewrite first_fail_app.
  destruct (first_fail trf (frontier c)) as [[[pre n] e]|]; [reflexivity|].
  destruct (first_fail trf (flat_map frontier r)) as [[[pre n] e]|].
  - rewrite <- map_app, app_assoc. reflexivity.
  - rewrite map_app. reflexivity.
Qed.

(* Transform is the frontier specification: the outermost transformer nodes are handed to
   their transformers left to right, the first error aborts, every other node is rebuilt *)
Theorem transform_spec trf t : transform trf t = spec_transform trf t.
Proof.
  induction t as [id sc v|id|id p ik cs IH|id alts IH] using tree_ind'; try reflexivity.
  cbn [transform]. unfold spec_transform. cbn [frontier rebuild].
  destruct (transformer_of ik) as [k|] eqn:Ek.
  - cbn [first_fail trf_apply]. rewrite Ek.
    destruct (trf k (TNonTerm id p ik cs)); cbn [map app trf_entry]; rewrite Ek; reflexivity.
  - rewrite (transform_children_spec trf cs IH). unfold spec_children.
    destruct (first_fail trf (flat_map frontier cs)) as [[[pre n] e]|]; reflexivity.
Qed.

(* the local reading of the same fact *)
Theorem transform_local trf :
  (* a node whose interpreter is a transformer: its result, nothing below is visited *)
  (forall id p ik cs k, transformer_of ik = Some k ->
     transform trf (TNonTerm id p ik cs) = ([(k, id)], trf k (TNonTerm id p ik cs))) /\
  (* leaves, empty nodes and alternative lists are returned unchanged *)
  (forall id s v, transform trf (TLeaf id s v) = ([], inl (TLeaf id s v))) /\
  (forall id, transform trf (TEmpty id) = ([], inl (TEmpty id))) /\
  (forall id alts, transform trf (TList id alts) = ([], inl (TList id alts))) /\
  (* otherwise: every child replaced by its result, logs in order *)
  (forall id p ik cs rs, transformer_of ik = None ->
     Forall2 (fun c r => transform trf c = (fst r, inl (snd r))) cs rs ->
     transform trf (TNonTerm id p ik cs) = (concat (map fst rs), inl (TNonTerm id p ik (map snd rs)))) /\
  (* the first failing child aborts; the children after it are not transformed *)
  (forall id p ik cs1 c cs2 rs lg e, transformer_of ik = None ->
     Forall2 (fun c r => transform trf c = (fst r, inl (snd r))) cs1 rs ->
     transform trf c = (lg, inr e) ->
     transform trf (TNonTerm id p ik (cs1 ++ c :: cs2)) = (concat (map fst rs) ++ lg, inr e)).
Proof.
  split; [|split; [|split; [|split; [|split]]]]; try reflexivity.
  - intros id p ik cs k Hk. cbn [transform]. rewrite Hk. reflexivity.
  - intros id p ik cs rs Hk H. cbn [transform]. rewrite Hk.
    assert (E : transform_children (transform trf) cs = (concat (map fst rs), inl (map snd rs))).
    { induction H as [|c r cs' rs' Hc Hr IH]; [reflexivity|].
      cbn [transform_children map concat]. rewrite Hc, IH. reflexivity. }
    rewrite E. reflexivity.
  - intros id p ik cs1 c cs2 rs lg e Hk H Hc. cbn [transform]. rewrite Hk.
    assert (E : transform_children (transform trf) (cs1 ++ c :: cs2) = (concat (map fst rs) ++ lg, inr e)).
    { induction H as [|c1 r cs' rs' Hc1 Hr IH]; cbn [app transform_children map concat].
      - rewrite Hc. reflexivity.
      - rewrite Hc1, IH, app_assoc. reflexivity. }
    rewrite E. reflexivity.
Qed.

Example transform_example :
  let t := TNonTerm 1 3 INone
             [TNonTerm 2 3 (IRec 7 false true) [TNonTerm 3 3 (IRec 8 false true) []];
              TLeaf 4 None VNil;
              TNonTerm 5 5 (IRec 9 false true) []] in
  (* node 3 is below a transformer: never visited *)
  transform (trf_of [(2, TBRepl (TLeaf 20 None VNil))]) t =
    ([(7, 2); (9, 5)], inl (TNonTerm 1 3 INone [TLeaf 20 None VNil; TLeaf 4 None VNil; TNonTerm 5 5 (IRec 9 false true) []])) /\
  (* node 2 fails: node 5 is not transformed *)
  transform (trf_of [(2, TBFail (EUser 1 2))]) t = ([(7, 2)], inr (EUser 1 2)).
Proof. split; reflexivity. Qed.

(* ------------------------------------------------------------------ *)
(* Evaluation                                                           *)

Lemma list_ind2 {A} (Q : list A -> Prop) :
  Q [] -> (forall x, Q [x]) -> (forall x y l, Q l -> Q (x :: y :: l)) -> forall l, Q l.
Proof.
  intros H0 H1 H2 l. enough (H : Q l /\ forall x, Q (x :: l)) by exact (proj1 H).
  induction l as [|y l [IHa IHb]]; [split; [exact H0|exact H1]|].
  split; [apply IHb|]. intros x. apply H2. exact IHa.
Qed.

Lemma subseq_nil_l {A} (l : list A) : subseq [] l.
Proof. induction l; constructor; assumption. Qed.
Lemma subseq_refl {A} (l : list A) : subseq l l.
Proof. induction l; constructor; assumption. Qed.
Lemma subseq_app {A} (a b c d : list A) : subseq a b -> subseq c d -> subseq (a ++ c) (b ++ d).
Proof. induction 1; intros H2; cbn [app]; [exact H2|apply subseq_skip|apply subseq_keep]; auto. Qed.
Lemma subseq_app_l {A} (a b c : list A) : subseq a b -> subseq a (b ++ c).
Proof. intros H. rewrite <- (app_nil_r a). apply subseq_app; [exact H|apply subseq_nil_l]. Qed.
Lemma subseq_app_r {A} (a b c : list A) : subseq a c -> subseq a (b ++ c).
Proof. intros H. induction b; cbn [app]; [exact H|constructor; assumption]. Qed.
Lemma subseq_incl {A} (a b : list A) : subseq a b -> forall x, In x a -> In x b.
Proof.
  induction 1 as [|y a b H IH|y a b H IH]; intros x Hx; [exact Hx|right; auto|].
  destruct Hx as [->|Hx]; [left; reflexivity|right; auto].
Qed.
Lemma subseq_NoDup {A} (a b : list A) : subseq a b -> NoDup b -> NoDup a.
Proof.
  induction 1 as [|y a b H IH|y a b H IH]; intros Hnd; [constructor| |].
  - inversion Hnd; auto.
  - inversion Hnd as [|? ? Hni Hnd']; subst. constructor; [|auto].
    intros Hy. apply Hni. eapply subseq_incl; eassumption.
Qed.
Lemma subseq_map {A B} (f : A -> B) (a b : list A) : subseq a b -> subseq (map f a) (map f b).
Proof. induction 1; cbn [map]; constructor; assumption. Qed.
Lemma subseq_flat_map {A B} (f g : A -> list B) l :
  Forall (fun x => subseq (f x) (g x)) l -> subseq (flat_map f l) (flat_map g l).
Proof. induction 1; cbn [flat_map]; [constructor|apply subseq_app; assumption]. Qed.

(* --- the log --- *)

Definition log_ok (ev : tree -> evaluation) (c : tree) : Prop := subseq (fst (ev c)) (rec_pairs c).

Lemma eval_all_log ev cs : Forall (log_ok ev) cs ->
  subseq (fst (eval_all ev cs)) (flat_map rec_pairs cs).
Proof.
  induction 1 as [|c r Hc Hr IH]; [constructor|]. unfold log_ok in Hc.
  cbn [eval_all flat_map]. destruct (ev c) as [lg [v|e|]]; cbn [fst] in *.
  - destruct (eval_all ev r) as [lg2 [vs|x]]; cbn [fst] in *; apply subseq_app; assumption.
  - apply subseq_app_l; exact Hc.
  - apply subseq_app_l; exact Hc.
Qed.

Lemma eval_evens_log ev cs : Forall (log_ok ev) cs ->
  subseq (fst (eval_evens ev cs)) (flat_map rec_pairs cs).
Proof.
  induction cs as [| x | x y l IH] using list_ind2; intros H.
  - constructor.
  - inversion H as [|? ? Hx _]; subst. unfold log_ok in Hx. cbn [eval_evens flat_map].
    destruct (ev x) as [lg [v|e|]]; cbn [fst] in *; apply subseq_app_l; try exact Hx.
    rewrite app_nil_r. exact Hx.
  - inversion H as [|? ? Hx H']; subst. inversion H' as [|? ? _ Hl]; subst. unfold log_ok in Hx.
    specialize (IH Hl). cbn [eval_evens flat_map].
    destruct (ev x) as [lg [v|e|]]; cbn [fst] in *; try (apply subseq_app_l; exact Hx).
    fold (eval_evens ev l). destruct (eval_evens ev l) as [lg2 [vs|z]]; cbn [fst] in *;
      (apply subseq_app; [exact Hx|apply subseq_app_r; exact IH]).
Qed.

Lemma eval_nth_log ev cs : Forall (log_ok ev) cs -> forall i,
  subseq (fst (eval_nth ev cs i)) (flat_map rec_pairs cs).
Proof.
  induction 1 as [|c r Hc Hr IH]; intros i; [destruct i; constructor|].
  destruct i as [|j]; cbn [eval_nth flat_map].
  - apply subseq_app_l; exact Hc.
  - apply subseq_app_r; apply IH.
Qed.

Lemma eval_keyvalue_log ev kv : Forall (log_ok ev) (children kv) ->
  subseq (fst (eval_keyvalue ev kv)) (rec_pairs kv).
Proof.
  intros H. destruct kv as [id s v|id|id p ik cs2|id alts]; try apply subseq_nil_l.
  cbn [children] in H. cbn [eval_keyvalue rec_pairs]. apply subseq_app_r.
  destruct cs2 as [|c0 rest]; [constructor|].
  inversion H as [|? ? H0 Hrest]; subst. unfold log_ok in H0. cbn [flat_map].
  destruct (ev c0) as [lg [key|e|]]; cbn [fst] in *; try (apply subseq_app_l; exact H0).
  destruct rest as [|c1 [|c2 rest2]]; cbn [fst]; try (apply subseq_app_l; exact H0).
  inversion Hrest as [|? ? _ Hrest2]; subst. inversion Hrest2 as [|? ? H2 _]; subst. unfold log_ok in H2.
  cbn [flat_map].
  assert (Hs : forall x, subseq (lg ++ fst (ev c2)) (rec_pairs c0 ++ rec_pairs c1 ++ rec_pairs c2 ++ x)).
  { intros x. apply subseq_app; [exact H0|]. apply subseq_app_r. apply subseq_app_l. exact H2. }
  destruct (ev c2) as [lg2 [v|e|]]; cbn [fst] in *; try apply Hs.
  destruct key; cbn [fst]; apply Hs.
Qed.

Lemma eval_object_log ev cs : Forall (fun kv => Forall (log_ok ev) (children kv)) cs ->
  forall m, subseq (fst (eval_object ev cs m)) (flat_map rec_pairs cs).
Proof.
  induction cs as [| x | x y l IH] using list_ind2; intros H m.
  - constructor.
  - inversion H as [|? ? Hx _]; subst. apply eval_keyvalue_log in Hx. cbn [eval_object flat_map].
    destruct (eval_keyvalue ev x) as [lg [[k v]|z]]; cbn [fst] in *; rewrite ?app_nil_r in *; exact Hx.
  - inversion H as [|? ? Hx H']; subst. inversion H' as [|? ? _ Hl]; subst. apply eval_keyvalue_log in Hx.
    cbn [eval_object flat_map].
    destruct (eval_keyvalue ev x) as [lg [[k v]|z]]; cbn [fst] in *; [|apply subseq_app_l; exact Hx].
    fold (eval_object ev l). specialize (IH Hl (map_insert k v m)).
    destruct (eval_object ev l (map_insert k v m)) as [lg2 z]; cbn [fst] in *.
    apply subseq_app; [exact Hx|apply subseq_app_r; exact IH].
Qed.

(* the evaluation log is a subsequence of the tree's (interpreter, node) pairs, in pre-order:
   an interpreter is only ever handed the node that carries it, and no node twice *)
Theorem eval_log_subseq evb t : subseq (fst (eval evb t)) (rec_pairs t).
Proof.
  induction t as [id s v|id|id p ik cs IH IH2|id alts IH] using tree_ind2.
  - constructor.
  - constructor.
  - cbn [eval rec_pairs]. destruct ik as [|k c trf|i| | |].
    + apply subseq_nil_l.
    + destruct (evb k (TNonTerm id p (IRec k c trf) cs)).
      * pose proof (eval_all_log (eval evb) cs IH) as H.
        destruct (eval_all (eval evb) cs) as [lg [vs|x]]; cbn [lift_list fst app] in *; apply subseq_keep; exact H.
      * cbn [fst app]. apply subseq_keep. apply subseq_nil_l.
      * cbn [fst app]. apply subseq_keep. apply subseq_nil_l.
    + destruct (i <? 0)%Z; [apply subseq_nil_l|]. cbn [app]. apply eval_nth_log; exact IH.
    + apply subseq_nil_l.
    + pose proof (eval_evens_log (eval evb) cs IH) as H.
      destruct (eval_evens (eval evb) cs) as [lg [vs|x]]; cbn [lift_list fst app] in *; exact H.
    + cbn [app]. apply eval_object_log; exact IH2.
  - cbn [eval]. destruct (node_pos (TList id alts)); apply subseq_nil_l.
Qed.

Lemma rec_pairs_ids t : subseq (map snd (rec_pairs t)) (all_ids t).
Proof.
  induction t as [id s v|id|id p ik cs IH|id alts IH] using tree_ind'; try (cbn; constructor; constructor).
  - cbn [rec_pairs all_ids]. rewrite map_app, map_flat_map.
    assert (H : subseq (flat_map (fun x => map snd (rec_pairs x)) cs) (flat_map all_ids cs))
      by (apply subseq_flat_map; exact IH).
    destruct ik; cbn [map app snd]; try (constructor; exact H).
  - cbn [rec_pairs all_ids]. rewrite map_flat_map. constructor. apply subseq_flat_map; exact IH.
Qed.

(* --- the value --- *)

Lemma height_in c cs : In c cs -> (height c <= fold_right Nat.max 0 (map height cs))%nat.
Proof.
  induction cs as [|x cs IH]; intros H; [destruct H|]. cbn [map fold_right].
  destruct H as [->|H]; [apply Nat.le_max_l|]. etransitivity; [apply IH; exact H|apply Nat.le_max_r].
Qed.

Definition val_ok (ev : tree -> evaluation) (sv : tree -> eres) (c : tree) : Prop := snd (ev c) = sv c.

Lemma eval_all_val ev sv cs : Forall (val_ok ev sv) cs -> snd (eval_all ev cs) = sequence (map sv cs).
Proof.
  induction 1 as [|c r Hc Hr IH]; [reflexivity|]. unfold val_ok in Hc.
  cbn [eval_all map sequence]. rewrite <- Hc, <- IH.
  destruct (ev c) as [lg [v|e|]]; cbn [snd]; try reflexivity.
  destruct (eval_all ev r) as [lg2 [vs|x]]; reflexivity.
Qed.

Lemma eval_evens_val ev sv cs : Forall (val_ok ev sv) cs ->
  snd (eval_evens ev cs) = sequence (map sv (evens cs)).
Proof.
  induction cs as [| x | x y l IH] using list_ind2; intros H.
  - reflexivity.
  - inversion H as [|? ? Hx _]; subst. unfold val_ok in Hx. cbn [eval_evens evens map sequence].
    rewrite <- Hx. destruct (ev x) as [lg [v|e|]]; reflexivity.
  - inversion H as [|? ? Hx H']; subst. inversion H' as [|? ? _ Hl]; subst. unfold val_ok in Hx.
    cbn [eval_evens evens map sequence]. fold (eval_evens ev l). rewrite <- Hx, <- (IH Hl).
    destruct (ev x) as [lg [v|e|]]; cbn [snd]; try reflexivity.
    destruct (eval_evens ev l) as [lg2 [vs|z]]; reflexivity.
Qed.

Lemma eval_nth_val ev sv cs : Forall (val_ok ev sv) cs -> forall i,
  snd (eval_nth ev cs i) = match nth_error cs i with Some c => sv c | None => EPanic end.
Proof.
  induction 1 as [|c r Hc Hr IH]; intros i; [destruct i; reflexivity|].
  destruct i as [|j]; cbn [eval_nth nth_error]; [exact Hc|apply IH].
Qed.

Lemma eval_keyvalue_val ev sv kv : Forall (val_ok ev sv) (children kv) ->
  snd (eval_keyvalue ev kv) = spec_keyvalue sv kv.
Proof.
  intros H. destruct kv as [id s v|id|id p ik cs2|id alts]; try reflexivity.
  cbn [children] in H. cbn [eval_keyvalue spec_keyvalue].
  destruct cs2 as [|c0 rest]; [reflexivity|]. cbn [nth_error].
  inversion H as [|? ? H0 Hrest]; subst. unfold val_ok in H0. rewrite <- H0.
  destruct (ev c0) as [lg [key|e|]]; cbn [snd]; try reflexivity.
  destruct rest as [|c1 [|c2 rest2]]; cbn [snd nth_error]; try reflexivity.
  inversion Hrest as [|? ? _ Hrest2]; subst. inversion Hrest2 as [|? ? H2 _]; subst. unfold val_ok in H2.
  rewrite <- H2. destruct (ev c2) as [lg2 [v|e|]]; cbn [snd]; try reflexivity.
  destruct key; reflexivity.
Qed.

Lemma eval_object_val ev sv cs : Forall (fun kv => Forall (val_ok ev sv) (children kv)) cs ->
  forall m, snd (eval_object ev cs m) = spec_object sv (evens cs) m.
Proof.
  induction cs as [| x | x y l IH] using list_ind2; intros H m.
  - reflexivity.
  - inversion H as [|? ? Hx _]; subst. apply eval_keyvalue_val in Hx.
    cbn [eval_object evens spec_object]. rewrite <- Hx.
    destruct (eval_keyvalue ev x) as [lg [[k v]|z]]; reflexivity.
  - inversion H as [|? ? Hx H']; subst. inversion H' as [|? ? _ Hl]; subst. apply eval_keyvalue_val in Hx.
    cbn [eval_object evens spec_object]. fold (eval_object ev l). rewrite <- Hx.
    destruct (eval_keyvalue ev x) as [lg [[k v]|z]]; cbn [snd]; [|reflexivity].
    rewrite <- (IH Hl (map_insert k v m)).
    destruct (eval_object ev l (map_insert k v m)) as [lg2 z]; reflexivity.
Qed.

Lemma lift_list_val r : snd (lift_list r) = lift_seq (snd r).
Proof. destruct r as [lg [vs|x]]; reflexivity. Qed.

(* the value, error or panic of an evaluation is the log-free specification's *)
Theorem eval_value evb t : forall fuel, (height t <= fuel)%nat -> snd (eval evb t) = spec_eval fuel evb t.
Proof.
  induction t as [id s v|id|id p ik cs IH IH2|id alts IH] using tree_ind2; intros fuel Hh;
    (destruct fuel as [|f]; [cbn [height] in Hh; lia|]); try reflexivity.
  - cbn [height] in Hh.
    assert (Hc : Forall (val_ok (eval evb) (spec_eval f evb)) cs).
    { rewrite Forall_forall in *. intros c Hin. apply IH; [exact Hin|].
      pose proof (height_in c cs Hin). lia. }
    assert (Hg : Forall (fun kv => Forall (val_ok (eval evb) (spec_eval f evb)) (children kv)) cs).
    { rewrite Forall_forall in *. intros c Hin. rewrite Forall_forall. intros g Hgin.
      pose proof (IH2 c Hin) as Hg. rewrite Forall_forall in Hg. apply Hg; [exact Hgin|].
      pose proof (height_in c cs Hin).
      assert (height g < height c)%nat; [|lia].
      destruct c as [? ? ?|?|? ? ? cs2|? ?]; cbn [children] in Hgin; try destruct Hgin.
      cbn [height]. pose proof (height_in g cs2 Hgin). lia. }
    cbn [eval spec_eval]. destruct ik as [|k c trf|i| | |].
    + reflexivity.
    + destruct (evb k (TNonTerm id p (IRec k c trf) cs)); try reflexivity.
      destruct (lift_list (eval_all (eval evb) cs)) as [lg r] eqn:E. cbn [snd].
      change r with (snd (lg, r)). rewrite <- E, lift_list_val, (eval_all_val _ _ _ Hc). reflexivity.
    + unfold select_child. destruct (i <? 0)%Z; [reflexivity|]. apply eval_nth_val; exact Hc.
    + reflexivity.
    + rewrite lift_list_val, (eval_evens_val _ _ _ Hc). reflexivity.
    + apply eval_object_val; exact Hg.
  - cbn [eval spec_eval]. destruct (node_pos (TList id alts)); reflexivity.
Qed.

(* --- which interpreters are called: a prefix of the demanded calls, all of them on success --- *)

Definition dem_ok (ev : tree -> evaluation) (dm : tree -> list (N * N)) (c : tree) : Prop :=
  exists rest, dm c = fst (ev c) ++ rest /\ (forall v, snd (ev c) = EVal v -> rest = []).

Lemma eval_all_dem ev dm cs : Forall (dem_ok ev dm) cs ->
  exists rest, flat_map dm cs = fst (eval_all ev cs) ++ rest /\
               (forall vs, snd (eval_all ev cs) = inl vs -> rest = []).
Proof.
  induction 1 as [|c r Hc Hr IH]; [exists []; split; [reflexivity|reflexivity]|].
  destruct Hc as (rc & Ec & Hc). destruct IH as (rr & Er & Hr').
  cbn [eval_all flat_map]. rewrite Ec, Er.
  destruct (ev c) as [lg [v|e|]]; cbn [fst snd] in *.
  - rewrite (Hc v eq_refl), app_nil_r.
    destruct (eval_all ev r) as [lg2 [vs|x]]; cbn [fst snd] in *; exists rr; rewrite app_assoc;
      (split; [reflexivity|]); [intros ? _; exact (Hr' vs eq_refl)|discriminate].
  - exists (rc ++ fst (eval_all ev r) ++ rr). rewrite <- app_assoc. split; [reflexivity|discriminate].
  - exists (rc ++ fst (eval_all ev r) ++ rr). rewrite <- app_assoc. split; [reflexivity|discriminate].
Qed.

Lemma eval_evens_dem ev dm cs : Forall (dem_ok ev dm) cs ->
  exists rest, flat_map dm (evens cs) = fst (eval_evens ev cs) ++ rest /\
               (forall vs, snd (eval_evens ev cs) = inl vs -> rest = []).
Proof.
  induction cs as [| x | x y l IH] using list_ind2; intros H.
  - exists []. split; reflexivity.
  - inversion H as [|? ? (rc & Ec & Hc) _]; subst. cbn [eval_evens evens flat_map]. rewrite Ec.
    destruct (ev x) as [lg [v|e|]]; cbn [fst snd] in *.
    + exists []. rewrite (Hc v eq_refl), !app_nil_r. split; reflexivity.
    + exists rc. rewrite app_nil_r. split; [reflexivity|discriminate].
    + exists rc. rewrite app_nil_r. split; [reflexivity|discriminate].
  - inversion H as [|? ? (rc & Ec & Hc) H']; subst. inversion H' as [|? ? _ Hl]; subst.
    destruct (IH Hl) as (rr & Er & Hr').
    cbn [eval_evens evens flat_map]. fold (eval_evens ev l). rewrite Ec, Er.
    destruct (ev x) as [lg [v|e|]]; cbn [fst snd] in *.
    + rewrite (Hc v eq_refl), app_nil_r.
      destruct (eval_evens ev l) as [lg2 [vs|z]]; cbn [fst snd] in *; exists rr; rewrite app_assoc;
        (split; [reflexivity|]); [intros ? _; exact (Hr' vs eq_refl)|discriminate].
    + exists (rc ++ fst (eval_evens ev l) ++ rr). rewrite <- app_assoc. split; [reflexivity|discriminate].
    + exists (rc ++ fst (eval_evens ev l) ++ rr). rewrite <- app_assoc. split; [reflexivity|discriminate].
Qed.

Lemma eval_nth_dem ev dm cs : Forall (dem_ok ev dm) cs -> forall i,
  exists rest, match nth_error cs i with Some c => dm c | None => [] end = fst (eval_nth ev cs i) ++ rest /\
               (forall v, snd (eval_nth ev cs i) = EVal v -> rest = []).
Proof.
  induction 1 as [|c r Hc Hr IH]; intros i.
  - exists []. destruct i; split; reflexivity || discriminate.
  - destruct i as [|j]; cbn [eval_nth nth_error]; [exact Hc|apply IH].
Qed.

Lemma eval_keyvalue_dem ev dm kv : Forall (dem_ok ev dm) (children kv) ->
  exists rest, kv_demanded dm kv = fst (eval_keyvalue ev kv) ++ rest /\
               (forall x, snd (eval_keyvalue ev kv) = inl x -> rest = []).
Proof.
  intros H. destruct kv as [id s v|id|id p ik cs2|id alts];
    try (exists []; split; [reflexivity|discriminate]).
  cbn [children] in H. cbn [eval_keyvalue kv_demanded].
  destruct cs2 as [|c0 rest]; [exists []; split; [reflexivity|discriminate]|]. cbn [nth_error].
  inversion H as [|? ? (r0 & E0 & H0) Hrest]; subst.
  destruct rest as [|c1 [|c2 rest2]]; cbn [nth_error].
  - rewrite E0. destruct (ev c0) as [lg [key|e|]]; cbn [fst snd] in *; exists r0; split; reflexivity || discriminate.
  - rewrite E0. destruct (ev c0) as [lg [key|e|]]; cbn [fst snd] in *; exists r0; split; reflexivity || discriminate.
  - inversion Hrest as [|? ? _ Hrest2]; subst. inversion Hrest2 as [|? ? (r2 & E2 & H2) _]; subst.
    rewrite E0, E2. destruct (ev c0) as [lg [key|e|]]; cbn [fst snd] in *.
    + rewrite (H0 key eq_refl), app_nil_r.
      destruct (ev c2) as [lg2 [v|e|]]; cbn [fst snd] in *.
      * rewrite (H2 v eq_refl), app_nil_r. destruct key; cbn [fst snd]; exists []; rewrite app_nil_r;
          split; reflexivity || discriminate.
      * exists r2. rewrite app_assoc. split; [reflexivity|discriminate].
      * exists r2. rewrite app_assoc. split; [reflexivity|discriminate].
    + exists (r0 ++ fst (ev c2) ++ r2). rewrite <- app_assoc. split; [reflexivity|discriminate].
    + exists (r0 ++ fst (ev c2) ++ r2). rewrite <- app_assoc. split; [reflexivity|discriminate].
Qed.

(* a key-value node yields a pair or a failure, never a plain value *)
Lemma eval_keyvalue_not_val ev kv lg v : eval_keyvalue ev kv <> (lg, inr (EVal v)).
Proof.
  destruct kv as [? ? ?|?|? ? ? cs2|? ?]; cbn [eval_keyvalue]; try discriminate.
  destruct cs2 as [|c0 rest]; [discriminate|].
  destruct (ev c0) as [l0 [key|e|]]; try discriminate.
  destruct rest as [|c1 [|c2 r2]]; try discriminate.
  destruct (ev c2) as [l2 [v2|e|]]; try discriminate.
  destruct key; discriminate.
Qed.

Lemma eval_object_dem ev dm cs : Forall (fun kv => Forall (dem_ok ev dm) (children kv)) cs ->
  forall m, exists rest, flat_map (kv_demanded dm) (evens cs) = fst (eval_object ev cs m) ++ rest /\
                         (forall v, snd (eval_object ev cs m) = EVal v -> rest = []).
Proof.
  induction cs as [| x | x y l IH] using list_ind2; intros H m.
  - exists []. split; reflexivity.
  - inversion H as [|? ? Hx _]; subst. destruct (eval_keyvalue_dem ev dm x Hx) as (rc & Ec & Hc).
    cbn [eval_object evens flat_map]. rewrite Ec.
    destruct (eval_keyvalue ev x) as [lg [[k v]|z]] eqn:Ek; cbn [fst snd] in *.
    + exists []. rewrite (Hc _ eq_refl), !app_nil_r. split; reflexivity.
    + exists rc. rewrite app_nil_r. split; [reflexivity|]. intros v Hv. subst z.
      exfalso. exact (eval_keyvalue_not_val _ _ _ _ Ek).
  - inversion H as [|? ? Hx H']; subst. inversion H' as [|? ? _ Hl]; subst.
    destruct (eval_keyvalue_dem ev dm x Hx) as (rc & Ec & Hc).
    cbn [eval_object evens flat_map]. fold (eval_object ev l). rewrite Ec.
    destruct (eval_keyvalue ev x) as [lg [[k v]|z]] eqn:Ek; cbn [fst snd] in *.
    + rewrite (Hc _ eq_refl), app_nil_r. destruct (IH Hl (map_insert k v m)) as (rr & Er & Hr').
      rewrite Er. destruct (eval_object ev l (map_insert k v m)) as [lg2 z]; cbn [fst snd] in *.
      exists rr. rewrite app_assoc. split; [reflexivity|exact Hr'].
    + exists (rc ++ flat_map (kv_demanded dm) (evens l)). rewrite <- app_assoc. split; [reflexivity|].
      intros v Hv. subst z. exfalso. exact (eval_keyvalue_not_val _ _ _ _ Ek).
Qed.

Lemma eval_all_not_val ev cs lg v : eval_all ev cs <> (lg, inr (EVal v)).
Proof.
  revert lg; induction cs as [|c r IH]; intros lg; cbn [eval_all]; [discriminate|].
  destruct (ev c) as [l0 [v0|e|]]; try discriminate.
  destruct (eval_all ev r) as [l2 [vs|x]] eqn:E; [discriminate|].
  intros H. inversion H; subst. exact (IH _ eq_refl).
Qed.

Lemma eval_evens_not_val ev cs lg v : eval_evens ev cs <> (lg, inr (EVal v)).
Proof.
  revert lg; induction cs as [| x | x y l IH] using list_ind2; intros lg; cbn [eval_evens].
  - discriminate.
  - destruct (ev x) as [l0 [v0|e|]]; discriminate.
  - fold (eval_evens ev l). destruct (ev x) as [l0 [v0|e|]]; try discriminate.
    destruct (eval_evens ev l) as [l2 [vs|z]] eqn:E; [discriminate|].
    intros H. inversion H; subst. exact (IH _ eq_refl).
Qed.

(* the calls made are a prefix of the demanded calls, and all of them when a value is returned *)
Theorem eval_demanded evb t : forall fuel, (height t <= fuel)%nat ->
  exists rest, demanded fuel evb t = fst (eval evb t) ++ rest /\
               (forall v, snd (eval evb t) = EVal v -> rest = []).
Proof.
  induction t as [id s v|id|id p ik cs IH IH2|id alts IH] using tree_ind2; intros fuel Hh;
    (destruct fuel as [|f]; [cbn [height] in Hh; lia|]).
  - exists []. split; reflexivity.
  - exists []. split; reflexivity.
  - cbn [height] in Hh.
    assert (Hc : Forall (dem_ok (eval evb) (demanded f evb)) cs).
    { rewrite Forall_forall in *. intros c Hin. apply IH; [exact Hin|].
      pose proof (height_in c cs Hin). lia. }
    assert (Hg : Forall (fun kv => Forall (dem_ok (eval evb) (demanded f evb)) (children kv)) cs).
    { rewrite Forall_forall in *. intros c Hin. rewrite Forall_forall. intros g Hgin.
      pose proof (IH2 c Hin) as Hg. rewrite Forall_forall in Hg. apply Hg; [exact Hgin|].
      pose proof (height_in c cs Hin).
      assert (height g < height c)%nat; [|lia].
      destruct c as [? ? ?|?|? ? ? cs2|? ?]; cbn [children] in Hgin; try destruct Hgin.
      cbn [height]. pose proof (height_in g cs2 Hgin). lia. }
    cbn [eval demanded]. destruct ik as [|k c trf|i| | |].
    + exists []. split; [reflexivity|discriminate].
    + destruct (evb k (TNonTerm id p (IRec k c trf) cs)).
      * destruct (eval_all_dem _ _ _ Hc) as (rr & Er & Hr). rewrite Er.
        destruct (eval_all (eval evb) cs) as [lg [vs|x]] eqn:Ea; cbn [lift_list fst snd] in *; exists rr;
          (split; [reflexivity|]); [intros ? _; exact (Hr vs eq_refl)|].
        intros v Hv. subst x. exfalso. exact (eval_all_not_val _ _ _ _ Ea).
      * exists []. split; reflexivity.
      * exists []. split; [reflexivity|discriminate].
    + unfold select_child. destruct (i <? 0)%Z; [exists []; split; [reflexivity|discriminate]|].
      apply eval_nth_dem; exact Hc.
    + exists []. split; reflexivity.
    + destruct (eval_evens_dem _ _ _ Hc) as (rr & Er & Hr). rewrite Er.
      destruct (eval_evens (eval evb) cs) as [lg [vs|x]] eqn:Ea; cbn [lift_list fst snd] in *; exists rr;
        (split; [reflexivity|]); [intros ? _; exact (Hr vs eq_refl)|].
      intros v Hv. subst x. exfalso. exact (eval_evens_not_val _ _ _ _ Ea).
    + apply eval_object_dem; exact Hg.
  - exists []. cbn [eval]. destruct (node_pos (TList id alts)); split; reflexivity || discriminate.
Qed.

Corollary eval_calls evb t :
  exists rest, demanded (height t) evb t = fst (eval evb t) ++ rest /\
               (forall v, snd (eval evb t) = EVal v -> rest = []).
Proof. apply eval_demanded. apply Nat.le_refl. Qed.

(* evaluation hands each non-terminal's interpreter exactly that node *)
Theorem evaluate_gets_node evb t :
  (* every log entry pairs a recording interpreter with a node of the tree that carries it *)
  (forall k id, In (k, id) (fst (eval evb t)) -> In (k, id) (rec_pairs t)) /\
  (* in pre-order, each node at most once *)
  subseq (fst (eval evb t)) (rec_pairs t) /\
  (NoDup (all_ids t) -> NoDup (map snd (fst (eval evb t)))) /\
  (* the result is the log-free one *)
  snd (eval evb t) = spec_eval (height t) evb t /\
  (* the root: a literal returns its value; an empty node and an alternative list have no value,
     reported at their position; a nil interpreter panics; a recording interpreter is called
     first, on the root itself *)
  match t with
  | TLeaf _ _ v => eval evb t = ([], EVal v)
  | TEmpty id => eval evb t = ([], EErr (ENoValue id))
  | TList _ _ => eval evb t = ([], match node_pos t with Some p => EErr (ENoValue p) | None => EPanic end)
  | TNonTerm id _ INone _ => eval evb t = ([], EPanic)
  | TNonTerm id _ (IRec k _ _) _ => exists lg, fst (eval evb t) = (k, id) :: lg
  | TNonTerm _ _ _ _ => True
  end.
Proof.
  pose proof (eval_log_subseq evb t) as Hs.
  split; [intros k id; apply (subseq_incl _ _ Hs)|]. split; [exact Hs|]. split; [|split].
  - intros Hnd. apply (subseq_NoDup _ (map snd (rec_pairs t))); [apply subseq_map; exact Hs|].
    apply (subseq_NoDup _ (all_ids t)); [apply rec_pairs_ids|exact Hnd].
  - apply eval_value. apply Nat.le_refl.
  - destruct t as [id s v|id|id p ik cs|id alts]; try reflexivity.
    + destruct ik as [|k c trf|i| | |]; try exact I; [reflexivity|].
      cbn [eval]. destruct (evb k (TNonTerm id p (IRec k c trf) cs)).
      * destruct (lift_list (eval_all (eval evb) cs)) as [lg r]. exists lg. reflexivity.
      * exists []. reflexivity.
      * exists []. reflexivity.
    + cbn [eval]. destruct (node_pos (TList id alts)); reflexivity.
Qed.

Example evaluate_example :
  let t := TNonTerm 1 3 (IRec 7 false false)
             [TNonTerm 2 3 IArray [TLeaf 3 None (VInt 5); TEmpty 4; TNonTerm 5 5 (IRec 8 false false) []];
              TNonTerm 6 9 (ISelect 1) [TEmpty 9; TLeaf 10 None (VStr [97])]] in
  eval (evb_of []) t = ([(7, 1); (8, 5)], EVal (VList [VList [VInt 5; VList []]; VStr [97]])) /\
  eval (evb_of [(5, EBFail (EUser 2 3))]) t = ([(7, 1); (8, 5)], EErr (EUser 2 3)) /\
  eval (evb_of []) (TNonTerm 6 9 (ISelect 2) [TEmpty 9; TLeaf 10 None VNil]) = ([], EPanic).
Proof. repeat split; reflexivity. Qed.
