(* Errors.v — C06: the error a failing parse reports is justified by a failed attempt, points
   at the furthest failure, and is rendered as file:line:column.

   All theorems are about grammars over SINGLE-BYTE terminals: [runes_only] (no [TLit] literal
   parser) is a conjunct of the fragment predicates [notrim] and [ok4]
   ([C06_not_beyond_needs_runes_only] shows the statements are false with literals).

   Part 0  syntactic classes of expressions ([runes_only], [notrim], [ne], [guarded], [enames])
           and the nested induction principle of [pexpr].
   Part 1  "never empty-handed": an [ne] expression returns a node or an error ([ne_inv]).
   Part 2  the JUSTIFICATION invariant: every error in play (returned error, Context.err,
           cached errors, the sequence accumulator) is justified by the current log of failed
           attempts, lies inside the file and is not before the position of the call that
           returned it; returned nodes end inside the file, not before the call position
           ([just_inv]).  Theorems [C06_not_beyond], [C06_expectation_real] and their
           guarded (exception-free) forms.
   Part 3  rendering ([C06_render]).
   Part 4  the COVERAGE invariant (no failed attempt is lost): [C06_no_attempt_lost] under a
           hypothesis on the final cache, [C06_furthest_partial], [C06_furthest_static], and
           the K2 witness [C06_furthest_refuted_without_productivity].
   Part 5  productive grammars satisfy the cache hypothesis: [C06_furthest] (the reported
           position EQUALS the furthest failed attempt), [productive_b] (decidable). *)
From Coq Require Import String List NArith ZArith Bool Arith Lia.
From Parsley Require Import Obs Base FileSet FileSetProofs Grammar Engine TermFacts EngineFacts SetMapFacts Spec EngineHarness.
Import ListNotations.
Open Scope N_scope.

(* ------------------------------------------------------------------------------------- *)
(* Part 0: syntactic classes                                                              *)
(* ------------------------------------------------------------------------------------- *)

(* every terminal is a single-byte (rune) terminal [TRune], none a literal parser [TLit].
   The error theorems of this file are theorems about grammars over single-byte terminals: a
   rune terminal fails AT the position where it was tried, whereas a literal parser's error can
   lie BEYOND its start position (e.g. an unterminated string literal: the attempt is logged at
   the opening quote, the error points at the end of the input), which the justification
   invariant of Part 2 ("the reported position is the position of a logged attempt") does not
   cover.  So [runes_only] is a conjunct of both fragment predicates [notrim] and [ok4]. *)
Fixpoint runes_only (e : pexpr) : bool :=
  match e with
  | PTerm t => is_rune_term t
  | PEmpty | PEnd | PRef _ => true
  | PMemo _ p | POpt p | PName _ p | PLeftTrim _ p | PRightTrim _ p | PSuppress p | PSingle p => runes_only p
  | PAny ps | PChoice ps | PSeq _ _ _ _ ps => forallb runes_only ps
  end.

(* no trimming combinator *)
Fixpoint trimfree (e : pexpr) : bool :=
  match e with
  | PTerm _ | PEmpty | PEnd | PRef _ => true
  | PMemo _ p | POpt p | PName _ p | PSuppress p | PSingle p => trimfree p
  | PAny ps | PChoice ps | PSeq _ _ _ _ ps => forallb trimfree ps
  | PLeftTrim _ _ | PRightTrim _ _ => false
  end.
(* the fragment of C06: no trimming combinator, every terminal a rune terminal *)
Definition notrim (e : pexpr) : bool := trimfree e && runes_only e.
Lemma notrim_runes_only e : notrim e = true -> runes_only e = true.
Proof. unfold notrim. intros H. apply andb_true_iff in H. exact (proj2 H). Qed.

(* sequence kinds whose operand list has the shape the constructors of the library give it
   (SeqTry of no parser can return neither node nor error; Many has one operand, SepBy two) *)
Definition kind_ok (k : seqkind) (n : nat) : bool :=
  match k with
  | SeqOf | SeqFirstOrAll => true
  | SeqTry => Nat.ltb 0 n
  | SMany _ => Nat.eqb n 1
  | SSepBy _ => Nat.eqb n 2
  end.

(* "never empty-handed": expressions that return a node or an error in EVERY context.
   A Memoize can be curtailed (neither node nor error), so it is not in the class. *)
Fixpoint ne (e : pexpr) : bool :=
  match e with
  | PTerm _ | PEmpty | PEnd => true
  | PRef _ | PMemo _ _ => false
  | PAny ps | PChoice ps => existsb ne ps
  | POpt _ | PName _ _ => true
  | PSeq k _ _ _ ps => kind_ok k (length ps) && forallb ne ps
  | PSingle p => ne p
  | PSuppress _ | PLeftTrim _ _ | PRightTrim _ _ => false
  end.

(* every Name is applied to a never-empty-handed operand *)
Fixpoint guarded (e : pexpr) : bool :=
  match e with
  | PTerm _ | PEmpty | PEnd | PRef _ => true
  | PMemo _ p | POpt p | PSuppress p | PSingle p | PLeftTrim _ p | PRightTrim _ p => guarded p
  | PName _ p => ne p && guarded p
  | PAny ps | PChoice ps | PSeq _ _ _ _ ps => forallb guarded ps
  end.

(* the names occurring in an expression (Name / named sequences); same function as
   EngineOracles.names_of *)
Fixpoint enames (e : pexpr) : list (list N) :=
  match e with
  | PMemo _ p | POpt p | PLeftTrim _ p | PRightTrim _ p | PSuppress p | PSingle p => enames p
  | PName nm p => nm :: enames p
  | PAny ps | PChoice ps => flat_map enames ps
  | PSeq _ _ _ nm ps => (match nm with Some n => [n] | None => [] end) ++ flat_map enames ps
  | _ => []
  end.
Definition gnames (es : list pexpr) : list (list N) := flat_map enames es.

(* nested induction over expressions *)
Section PexprInd.
  Variable P : pexpr -> Prop.
  Hypothesis HTerm : forall t, P (PTerm t).
  Hypothesis HEmpty : P PEmpty.
  Hypothesis HEnd : P PEnd.
  Hypothesis HRef : forall k, P (PRef k).
  Hypothesis HMemo : forall idx p, P p -> P (PMemo idx p).
  Hypothesis HAny : forall ps, (forall p, In p ps -> P p) -> P (PAny ps).
  Hypothesis HChoice : forall ps, (forall p, In p ps -> P p) -> P (PChoice ps).
  Hypothesis HOpt : forall p, P p -> P (POpt p).
  Hypothesis HSeq : forall k ip s nm ps, (forall p, In p ps -> P p) -> P (PSeq k ip s nm ps).
  Hypothesis HName : forall nm p, P p -> P (PName nm p).
  Hypothesis HLeft : forall m p, P p -> P (PLeftTrim m p).
  Hypothesis HRight : forall m p, P p -> P (PRightTrim m p).
  Hypothesis HSuppress : forall p, P p -> P (PSuppress p).
  Hypothesis HSingle : forall p, P p -> P (PSingle p).

  Fixpoint pexpr_ind' (e : pexpr) : P e :=
    let all := fix all (l : list pexpr) : forall p, In p l -> P p :=
                 match l return forall p, In p l -> P p with
                 | [] => fun p H => match H with end
                 | x :: t => fun p H => match H with
                                        | or_introl E => eq_ind x P (pexpr_ind' x) p E
                                        | or_intror H' => all t p H'
                                        end
                 end in
    match e return P e with
    | PTerm t => HTerm t
    | PEmpty => HEmpty
    | PEnd => HEnd
    | PRef k => HRef k
    | PMemo idx p => HMemo idx p (pexpr_ind' p)
    | PAny ps => HAny ps (all ps)
    | PChoice ps => HChoice ps (all ps)
    | POpt p => HOpt p (pexpr_ind' p)
    | PSeq k ip s nm ps => HSeq k ip s nm ps (all ps)
    | PName nm p => HName nm p (pexpr_ind' p)
    | PLeftTrim m p => HLeft m p (pexpr_ind' p)
    | PRightTrim m p => HRight m p (pexpr_ind' p)
    | PSuppress p => HSuppress p (pexpr_ind' p)
    | PSingle p => HSingle p (pexpr_ind' p)
    end.
End PexprInd.

(* the predicate the engine proofs carry: no trimming, rune terminals only, every name is one
   of [Nm], and (in strict mode) every Name is guarded *)
Section Okx.
  Variable Nm : list N -> Prop.
  Variable strict : bool.
  Fixpoint okx (e : pexpr) : Prop :=
    match e with
    | PTerm t => is_rune_term t = true
    | PEmpty | PEnd | PRef _ => True
    | PMemo _ p | POpt p | PSuppress p | PSingle p => okx p
    | PName nm p => Nm nm /\ (strict = true -> ne p = true) /\ okx p
    | PAny ps | PChoice ps =>
      (fix all (l : list pexpr) : Prop := match l with [] => True | x :: t => okx x /\ all t end) ps
    | PSeq _ _ _ nm ps =>
      (match nm with Some n => Nm n | None => True end) /\
      (fix all (l : list pexpr) : Prop := match l with [] => True | x :: t => okx x /\ all t end) ps
    | PLeftTrim _ _ | PRightTrim _ _ => False
    end.
  Definition okxs := fix all (l : list pexpr) : Prop := match l with [] => True | x :: t => okx x /\ all t end.

  Lemma okxs_in ps p : okxs ps -> In p ps -> okx p.
  Proof.
    induction ps as [|x ps IH]; intros H Hin; [destruct Hin|].
    destruct H as [Hx Hps]. destruct Hin as [E|Hin]; [subst; exact Hx|apply IH; assumption].
  Qed.
  Lemma okxs_intro ps : (forall p, In p ps -> okx p) -> okxs ps.
  Proof.
    induction ps as [|x ps IH]; intros H; [exact I|].
    split; [apply H; left; reflexivity|apply IH; intros p Hp; apply H; right; exact Hp].
  Qed.

  Lemma okx_intro0 e :
    trimfree e = true -> runes_only e = true -> (strict = true -> guarded e = true) ->
    (forall nm, In nm (enames e) -> Nm nm) -> okx e.
  Proof.
    induction e using pexpr_ind'; cbn [trimfree runes_only guarded enames okx]; intros Hn Hr Hg Hnm; try exact I; try discriminate;
      try (apply IHe; assumption).
    - (* PTerm *) exact Hr.
    - (* PAny *) apply okxs_intro. intros p Hp. rewrite forallb_forall in Hn, Hr.
      apply H; [exact Hp|apply Hn; exact Hp|apply Hr; exact Hp| |].
      + intros Hs. specialize (Hg Hs). rewrite forallb_forall in Hg. apply Hg; exact Hp.
      + intros nm Hin. apply Hnm. apply in_flat_map. exists p. split; assumption.
    - (* PChoice *) apply okxs_intro. intros p Hp. rewrite forallb_forall in Hn, Hr.
      apply H; [exact Hp|apply Hn; exact Hp|apply Hr; exact Hp| |].
      + intros Hs. specialize (Hg Hs). rewrite forallb_forall in Hg. apply Hg; exact Hp.
      + intros nm Hin. apply Hnm. apply in_flat_map. exists p. split; assumption.
    - (* PSeq *) split.
      + destruct nm as [n|]; [|exact I]. apply Hnm. apply in_or_app. left. left. reflexivity.
      + apply okxs_intro. intros p Hp. rewrite forallb_forall in Hn, Hr.
        apply H; [exact Hp|apply Hn; exact Hp|apply Hr; exact Hp| |].
        * intros Hs. specialize (Hg Hs). rewrite forallb_forall in Hg. apply Hg; exact Hp.
        * intros nm' Hin. apply Hnm. apply in_or_app. right. apply in_flat_map. exists p. split; assumption.
    - (* PName *) split; [apply Hnm; left; reflexivity|]. split.
      + intros Hs. specialize (Hg Hs). apply andb_true_iff in Hg. exact (proj1 Hg).
      + apply IHe; [exact Hn|exact Hr| |intros nm' Hin; apply Hnm; right; exact Hin].
        intros Hs. specialize (Hg Hs). apply andb_true_iff in Hg. exact (proj2 Hg).
  Qed.
  Lemma okx_intro e :
    notrim e = true -> (strict = true -> guarded e = true) -> (forall nm, In nm (enames e) -> Nm nm) -> okx e.
  Proof.
    unfold notrim. intros Hn. apply andb_true_iff in Hn. destruct Hn as [Hn Hr]. apply okx_intro0; assumption.
  Qed.
End Okx.

(* ------------------------------------------------------------------------------------- *)
(* Part 1: never empty-handed                                                             *)
(* ------------------------------------------------------------------------------------- *)

Lemma append_node_nonnil_l a b : a <> [] -> append_node a b <> [].
Proof.
  destruct a as [|x a]; [congruence|]. intros _ H.
  assert (Hin : In x (append_node (x :: a) b)) by (apply append_node_in_l; left; reflexivity).
  rewrite H in Hin. destruct Hin.
Qed.
Lemma append_node_nonnil_r a b : b <> [] -> append_node a b <> [].
Proof.
  destruct b as [|x b]; [congruence|]. intros _ H.
  assert (Hin : In x (append_node a (x :: b))) by (apply append_node_in_r; left; reflexivity).
  rewrite H in Hin. destruct Hin.
Qed.

Lemma keep_max_some old e : keep_max old (Some e) <> None.
Proof. unfold keep_max, better. destruct old as [o|]; [destruct (epos o <=? epos e)|]; discriminate. Qed.
Lemma keep_max_keeps old new : old <> None -> keep_max old new <> None.
Proof. unfold keep_max. destruct new as [e|]; [|auto]. destruct (better old e); [discriminate|auto]. Qed.

Definition some2 (err nf : option perr) : Prop := err <> None \/ nf <> None.
Lemma alt_err_some pos err nf err2 err' nf' :
  alt_err pos err nf err2 = (err', nf') -> some2 err nf \/ err2 <> None -> some2 err' nf'.
Proof.
  unfold alt_err, some2. intros H Hs. destruct err2 as [e2|].
  - destruct (better err e2) eqn:Eb.
    + destruct ((pos <? epos e2) || negb (is_notfound e2)); inversion H; subst; [left|right]; discriminate.
    + inversion H; subst. left. destruct err'; [discriminate|]. cbn in Eb. discriminate.
  - inversion H; subst. destruct Hs as [Hs|Hs]; [exact Hs|congruence].
Qed.
Lemma or_nf_some err nf : some2 err nf -> or_nf err nf <> None.
Proof. unfold some2, or_nf. destruct err; [discriminate|]. intros [H|H]; [congruence|exact H]. Qed.

Lemma seq_lookup_in k ps d p : seq_lookup k ps d = Some p -> In p ps.
Proof. destruct k; cbn [seq_lookup]; apply nth_error_In. Qed.

(* the depth of a bounded sequence never exceeds the number of its elements *)
Definition dbound (q : seqinfo) (d : nat) : Prop :=
  match q_kind q with SMany _ | SSepBy _ => True | _ => (d <= length (q_ps q))%nat end.
Lemma dbound_S q d p : dbound q d -> seq_lookup (q_kind q) (q_ps q) d = Some p -> dbound q (S d).
Proof.
  unfold dbound. destruct (q_kind q); cbn [seq_lookup]; intros Hd H; try exact I;
    (assert (d < length (q_ps q))%nat by (apply nth_error_Some; rewrite H; discriminate); lia).
Qed.
Lemma lookup_none_lencheck q d :
  seq_lookup (q_kind q) (q_ps q) d = None -> kind_ok (q_kind q) (length (q_ps q)) = true -> dbound q d ->
  seq_lencheck (q_kind q) (length (q_ps q)) d = true.
Proof.
  unfold dbound. destruct (q_kind q); cbn [seq_lookup seq_lencheck kind_ok]; intros H Hk Hd.
  - apply nth_error_None in H. apply Nat.eqb_eq. lia.
  - apply nth_error_None in H. apply Nat.ltb_lt in Hk. apply andb_true_iff. split; [apply Nat.ltb_lt|apply Nat.leb_le]; lia.
  - apply nth_error_None in H. apply orb_true_iff. right. apply Nat.eqb_eq. lia.
  - apply nth_error_None in H. apply Nat.eqb_eq in Hk. lia.
  - apply nth_error_None in H. apply Nat.eqb_eq in Hk.
    assert (d mod 2 < 2)%nat by (apply Nat.mod_upper_bound; lia). lia.
Qed.

Definition live (st : seqst) : Prop := s_res st <> [] \/ s_err st <> None.

Section NE.
  Variable inp : input.
  Variable rules : list pexpr.

  Definition pne (rp : ptype) : Prop :=
    forall e c stk lrc pos res cp err c',
      ne e = true -> rp e c stk lrc pos = Ok (res, cp, err, c') -> res <> [] \/ err <> None.
  Definition sne (rs : stype) : Prop :=
    forall q d c stk lrc pos m st stop st' c',
      forallb ne (q_ps q) = true -> kind_ok (q_kind q) (length (q_ps q)) = true -> dbound q d ->
      rs q d c stk lrc pos m st = Ok (stop, st', c') -> live st'.

  Section Step.
    Variable rp : ptype.
    Variable rs : stype.
    Hypothesis Hp : pne rp.
    Hypothesis Hs : sne rs.

    Lemma any_loop_ne stk lrc pos ps : forall c cp res err nf res' cp' err' c',
      res <> [] \/ some2 err nf \/ existsb ne ps = true ->
      any_loop rp stk lrc pos ps c cp res err nf = Ok (res', cp', err', c') -> res' <> [] \/ err' <> None.
    Proof.
      induction ps as [|p ps IH]; intros c cp res err nf res' cp' err' c' Hpre H; cbn [any_loop] in H.
      - destruct res as [|n res]; inversion H; subst.
        + right. apply or_nf_some. destruct Hpre as [Hpre|[Hpre|Hpre]]; [congruence|exact Hpre|discriminate].
        + left. discriminate.
      - apply bind_ok in H. destruct H as [[[[res2 cp2] err2] c2] [H1 H2]].
        destruct (alt_err pos err nf err2) as [err1 nf1] eqn:Ea.
        apply (IH _ _ _ _ _ _ _ _ _) in H2; [exact H2|].
        destruct Hpre as [Hpre|[Hpre|Hpre]].
        + left. apply append_node_nonnil_l. exact Hpre.
        + right. left. apply (alt_err_some _ _ _ _ _ _ Ea). left. exact Hpre.
        + cbn [existsb] in Hpre. apply orb_true_iff in Hpre. destruct Hpre as [Hpre|Hpre]; [|right; right; exact Hpre].
          destruct (Hp _ _ _ _ _ _ _ _ _ Hpre H1) as [Hr|He].
          * left. apply append_node_nonnil_r. exact Hr.
          * right. left. apply (alt_err_some _ _ _ _ _ _ Ea). right. exact He.
    Qed.

    Lemma choice_loop_ne stk lrc pos ps : forall c cp err nf res' cp' err' c',
      some2 err nf \/ existsb ne ps = true ->
      choice_loop rp stk lrc pos ps c cp err nf = Ok (res', cp', err', c') -> res' <> [] \/ err' <> None.
    Proof.
      induction ps as [|p ps IH]; intros c cp err nf res' cp' err' c' Hpre H; cbn [choice_loop] in H.
      - inversion H; subst. right. apply or_nf_some. destruct Hpre as [Hpre|Hpre]; [exact Hpre|discriminate].
      - apply bind_ok in H. destruct H as [[[[res2 cp2] err2] c2] [H1 H2]].
        destruct (alt_err pos err nf err2) as [err1 nf1] eqn:Ea.
        destruct res2 as [|n2 res2]; [|inversion H2; subst; left; discriminate].
        apply (IH _ _ _ _ _ _ _ _) in H2; [exact H2|].
        destruct Hpre as [Hpre|Hpre].
        + left. apply (alt_err_some _ _ _ _ _ _ Ea). left. exact Hpre.
        + cbn [existsb] in Hpre. apply orb_true_iff in Hpre. destruct Hpre as [Hpre|Hpre]; [|right; exact Hpre].
          destruct (Hp _ _ _ _ _ _ _ _ _ Hpre H1) as [Hr|He]; [congruence|].
          left. apply (alt_err_some _ _ _ _ _ _ Ea). right. exact He.
    Qed.

    Lemma parse_step_ne : pne (parse_step inp rules rp rs).
    Proof.
      intros e c stk lrc pos res cp err c' Hne H.
      destruct e; cbn [ne] in Hne; try discriminate; cbn [parse_step] in H.
      - (* PTerm: rune and literal terminals alike *)
        destruct (term_parse inp t pos) as [res0 err0] eqn:E. inversion H; subst.
        destruct res as [|n res]; [right; exact (term_parse_nil _ _ _ _ E)|left; discriminate].
      - (* PEmpty *) inversion H; subst. left; discriminate.
      - (* PEnd *) destruct (is_eof inp pos); inversion H; subst; [left|right]; discriminate.
      - (* PAny *) apply (any_loop_ne _ _ _ _ _ _ _ _ _ _ _ _ _ (or_intror (or_intror Hne)) H).
      - (* PChoice *) apply (choice_loop_ne _ _ _ _ _ _ _ _ _ _ _ _ (or_intror Hne) H).
      - (* POpt *) apply bind_ok in H. destruct H as [[[[res0 cp0] err0] c0] [H1 H2]]. inversion H2; subst.
        left. apply append_node_nonnil_r. discriminate.
      - (* PSeq *) apply andb_true_iff in Hne. destruct Hne as [Hk Hall].
        apply bind_ok in H. destruct H as [[[stop st] c0] [H1 H2]].
        assert (Hl : live st).
        { refine (Hs _ _ _ _ _ _ _ _ _ _ _ _ _ _ H1); cbn [q_kind q_ps]; [exact Hall|exact Hk|].
          unfold dbound. cbn [q_kind q_ps]. destruct k; try exact I; lia. }
        destruct (s_res st) as [|n ns] eqn:Er; inversion H2; subst; [|left; discriminate].
        right. destruct Hl as [Hl|Hl]; [congruence|].
        destruct (s_err st) as [x|]; [|congruence]. destruct name; discriminate.
      - (* PName *) apply bind_ok in H. destruct H as [[[[res0 cp0] err0] c0] [H1 H2]].
        destruct err0 as [x|]; [inversion H2; subst; right; discriminate|].
        destruct res0 as [|n ns]; inversion H2; subst; [right|left]; discriminate.
      - (* PSingle *) apply bind_ok in H. destruct H as [[[[res0 cp0] err0] c0] [H1 H2]].
        destruct (Hp _ _ _ _ _ _ _ _ _ Hne H1) as [Hr|He].
        + destruct err0 as [x|]; [inversion H2; subst; right; discriminate|]. left.
          destruct res0 as [|n ns]; [congruence|].
          destruct n as [| | |t i [|ch [|ch2 cs]] p r]; destruct ns; inversion H2; subst; discriminate.
        + destruct err0 as [x|]; [|congruence]. inversion H2; subst. right; discriminate.
    Qed.

    Lemma alts_loop_ne q d stk lrc pos m prefix ns : forall st c stop st' c',
      forallb ne (q_ps q) = true -> kind_ok (q_kind q) (length (q_ps q)) = true -> dbound q (S d) ->
      ns <> [] \/ live st ->
      alts_loop rs q d stk lrc pos m prefix ns st c = Ok (stop, st', c') -> live st'.
    Proof.
      induction ns as [|n ns IH]; intros st c stop st' c' Hall Hk Hd Hpre H; cbn [alts_loop] in H.
      - inversion H; subst. destruct Hpre as [Hpre|Hpre]; [congruence|exact Hpre].
      - apply bind_ok in H. destruct H as [[[stop1 st1] c1] [H1 H2]].
        apply (Hs _ _ _ _ _ _ _ _ _ _ _ Hall Hk Hd) in H1.
        destruct stop1; [inversion H2; subst; exact H1|].
        apply (IH _ _ _ _ _ Hall Hk Hd (or_intror H1) H2).
    Qed.

    Lemma seq_step_ne : sne (seq_step rp rs).
    Proof.
      intros q d c stk lrc pos m st stop st' c' Hall Hk Hd H.
      unfold seq_step in H. apply bind_ok in H. destruct H as [[[[res cp] err] c1] [H1 H2]].
      destruct (seq_lookup (q_kind q) (q_ps q) d) as [p|] eqn:El.
      - assert (Hnep : ne p = true) by (rewrite forallb_forall in Hall; apply Hall; eapply seq_lookup_in; exact El).
        destruct (Hp _ _ _ _ _ _ _ _ _ Hnep H1) as [Hr|He].
        + destruct res as [|n res]; [congruence|].
          refine (alts_loop_ne _ _ _ _ _ _ _ _ _ _ _ _ _ Hall Hk (dbound_S _ _ _ Hd El) _ H2); left; discriminate.
        + destruct err as [x|]; [|congruence].
          destruct res as [|n res].
          * destruct (seq_lencheck (q_kind q) (length (q_ps q)) d).
            -- cbn [s_nodes s_res s_err s_cp] in H2.
               destruct (s_nodes st); inversion H2; subst; right; cbn [s_err]; apply keep_max_some.
            -- inversion H2; subst. right. cbn [s_err]. apply keep_max_some.
          * refine (alts_loop_ne _ _ _ _ _ _ _ _ _ _ _ _ _ Hall Hk (dbound_S _ _ _ Hd El) _ H2); left; discriminate.
      - inversion H1; subst. rewrite (lookup_none_lencheck q d El Hk Hd) in H2.
        cbn [s_nodes s_res s_err s_cp] in H2.
        destruct (s_nodes st); inversion H2; subst; left; cbn [s_res]; apply append_node_nonnil_r; discriminate.
    Qed.
  End Step.

  Theorem ne_inv : forall f, pne (parse inp rules f) /\ sne (seqp inp rules f).
  Proof.
    induction f as [|f [IHp IHs]].
    - split; repeat intro; discriminate.
    - split.
      + intros e c stk lrc pos. rewrite parse_S. apply parse_step_ne; assumption.
      + intros q d c stk lrc pos m st. rewrite seqp_S. apply seq_step_ne; assumption.
  Qed.
End NE.

(* ------------------------------------------------------------------------------------- *)
(* Part 2: the justification invariant                                                    *)
(* ------------------------------------------------------------------------------------- *)

(* AppendNode invents no node (also in Sound.v; repeated to keep this file independent) *)
Lemma app_nodes_inv l : forall acc n, In n (append_nodes acc l) -> In n acc \/ In n l.
Proof.
  induction l as [|x l IH]; intros acc n H; cbn [append_nodes] in H; [left; exact H|].
  assert (Hgen : In n (append_nodes (acc ++ [x]) l) -> In n acc \/ In n (x :: l)).
  { intros H'. apply IH in H'. destruct H' as [H'|H']; [|right; right; exact H'].
    apply in_app_or in H'. destruct H' as [H'|[H'|[]]]; [left; exact H'|right; left; exact H']. }
  destruct x; try (apply Hgen; exact H).
  destruct (has_empty pos acc); [|apply Hgen; exact H].
  apply IH in H. destruct H as [H|H]; [left; exact H|right; right; exact H].
Qed.
Lemma app_node_inv a b n : In n (append_node a b) -> In n a \/ In n b.
Proof. unfold append_node. destruct a as [|x a]; [intros H; right; exact H|]. apply app_nodes_inv. Qed.

(* nodes in play: they end inside the file; a node with the EOF token ends at the end of the
   file; a one-child non-terminal ends where its child ends (what Single relies on) *)
Fixpoint nb (inp : input) (n : node) : Prop :=
  in_file inp (node_rpos n) /\
  (is_eof_node n = true -> i_offset inp + i_len inp <= node_rpos n) /\
  match n with
  | NNonTerm _ _ cs _ r =>
    (match cs with [ch] => r = node_rpos ch | _ => True end) /\
    (fix all (l : list node) : Prop := match l with [] => True | x :: t => nb inp x /\ all t end) cs
  | _ => True
  end.
Definition nbs (inp : input) := fix all (l : list node) : Prop := match l with [] => True | x :: t => nb inp x /\ all t end.
Lemma nbs_intro inp l : (forall n, In n l -> nb inp n) -> nbs inp l.
Proof.
  induction l as [|x l IH]; intros H; [exact I|].
  split; [apply H; left; reflexivity|apply IH; intros n Hn; apply H; right; exact Hn].
Qed.
Lemma nbs_in inp l n : nbs inp l -> In n l -> nb inp n.
Proof.
  induction l as [|x l IH]; intros H Hin; [destruct Hin|]. destruct H as [Hx Hl].
  destruct Hin as [E|Hin]; [subst; exact Hx|apply IH; assumption].
Qed.
Lemma nb_in_file inp n : nb inp n -> in_file inp (node_rpos n).
Proof. destruct n; cbn [nb]; intros H; exact (proj1 H). Qed.
Lemma nb_eof inp n : nb inp n -> is_eof_node n = true -> i_offset inp + i_len inp <= node_rpos n.
Proof. destruct n; cbn [nb]; intros H; exact (proj1 (proj2 H)). Qed.

Lemma byte_at_lt inp pos b : byte_at inp pos = Some b -> pos - i_offset inp < i_len inp.
Proof.
  unfold byte_at, nth_N, i_len, len_N. intros H.
  assert (Hlt : (N.to_nat (pos - i_offset inp) < length (i_data inp))%nat).
  { apply nth_error_Some. rewrite H. discriminate. }
  lia.
Qed.

Lemma seq_token_not_eof k : list_N_eqb (seq_token k) tok_EOF = false.
Proof. destruct k; reflexivity. Qed.
Lemma is_eof_empty p : is_eof_node (NEmpty p) = false.
Proof. reflexivity. Qed.
Lemma is_eof_rune ch v p r : is_eof_node (NTerm [ch] v p r) = false.
Proof. unfold is_eof_node, tok_EOF. cbn [node_token list_N_eqb]. apply andb_false_r. Qed.
Lemma is_eof_nonterm k i cs p r : is_eof_node (NNonTerm (seq_token k) i cs p r) = false.
Proof. unfold is_eof_node. cbn [node_token]. apply seq_token_not_eof. Qed.

(* the node a sequence emits ends at the current position *)
Lemma handle_result_nb inp q pos nodes :
  in_file inp pos -> (forall n, In n nodes -> nb inp n) ->
  (match nodes with [] => True | n :: _ => node_rpos n = pos end) ->
  nb inp (handle_result q pos (rev nodes)) /\ node_rpos (handle_result q pos (rev nodes)) = pos.
Proof.
  intros Hin Hnb Hlink.
  assert (Hall : nbs inp (rev nodes)).
  { apply nbs_intro. intros n Hn. apply Hnb. apply in_rev. exact Hn. }
  destruct nodes as [|lastn t].
  - cbn [rev handle_result]. split; [|reflexivity]. cbn [nb node_rpos].
    split; [exact Hin|]. split; [rewrite is_eof_nonterm; discriminate|]. split; exact I.
  - cbn [rev] in *. destruct (rev t) as [|f r] eqn:Er.
    + cbn [app] in *. cbn [handle_result]. destruct Hall as [Hl _]. destruct (q_single q).
      * split; [exact Hl|exact Hlink].
      * split; [|exact Hlink]. cbn [nb node_rpos].
        split; [rewrite Hlink; exact Hin|]. split; [rewrite is_eof_nonterm; discriminate|].
        split; [reflexivity|]. split; [exact Hl|exact I].
    + assert (Hlast : last ((f :: r) ++ [lastn]) f = lastn) by apply last_last.
      assert (Hshape : exists x y, (f :: r) ++ [lastn] = f :: x :: y).
      { destruct r as [|x r]; [exists lastn, []|exists x, (r ++ [lastn])]; reflexivity. }
      destruct Hshape as [x [y Hshape]]. rewrite Hshape in *.
      cbn [handle_result node_rpos]. rewrite Hlast.
      split; [|exact Hlink]. cbn [nb node_rpos].
      split; [rewrite Hlink; exact Hin|]. split; [rewrite is_eof_nonterm; discriminate|].
      split; [exact I|exact Hall].
Qed.

Lemma alt_err_from pos err nf err2 err' nf' :
  alt_err pos err nf err2 = (err', nf') -> (err' = err \/ err' = err2) /\ (nf' = nf \/ nf' = err2).
Proof.
  unfold alt_err. destruct err2 as [e2|]; [|intros H; inversion H; auto].
  destruct (better err e2); [|intros H; inversion H; auto].
  destruct ((pos <? epos e2) || negb (is_notfound e2)); intros H; inversion H; auto.
Qed.
Lemma keep_max_from old new : keep_max old new = old \/ keep_max old new = new.
Proof. unfold keep_max. destruct new as [e|]; [|auto]. destruct (better old e); auto. Qed.
Lemma max_err_from old new : max_err old new = old \/ max_err old new = new.
Proof. unfold max_err. destruct new as [e|]; [|auto]. destruct old as [o|]; [|auto]. destruct (epos o <=? epos e); auto. Qed.
Lemma max_err_ge old new y : old = Some y -> exists y', max_err old new = Some y' /\ epos y <= epos y'.
Proof.
  intros ->. unfold max_err. destruct new as [e|]; [|exists y; split; [reflexivity|lia]].
  destruct (epos y <=? epos e) eqn:E; [apply N.leb_le in E; exists e; split; [reflexivity|exact E]|].
  exists y; split; [reflexivity|lia].
Qed.

Lemma cache_find_in k l r : cache_find k l = Some r -> In (k, r) l.
Proof.
  induction l as [|[k' r'] l IH]; cbn [cache_find]; [discriminate|].
  destruct ((fst k =? fst k') && (snd k =? snd k')) eqn:E.
  - intros H. inversion H; subst. apply andb_true_iff in E. destruct E as [E1 E2].
    apply N.eqb_eq in E1, E2. left. destruct k, k'; cbn [fst snd] in *. subst. reflexivity.
  - intros H. right. apply IH; exact H.
Qed.
Lemma cache_get_in c idx pos lrc r : cache_get c idx pos lrc = Some r -> In ((idx, pos), r) (cache c).
Proof.
  unfold cache_get. destruct (cache_find (idx, pos) (cache c)) as [r0|] eqn:E; [|discriminate].
  destruct (reusable (r_lrc r0) lrc); [|discriminate]. intros H. inversion H; subst. apply cache_find_in; exact E.
Qed.

(* how a context evolves: the log of failed attempts and the cache only grow, the furthest
   error only moves forward *)
Definition ext (c c' : ctx) : Prop :=
  (exists d, g_fails c' = d ++ g_fails c) /\ incl (cache c) (cache c') /\
  (forall y, cerr c = Some y -> exists y', cerr c' = Some y' /\ epos y <= epos y').
Lemma ext_refl c : ext c c.
Proof. split; [exists []; reflexivity|]. split; [apply incl_refl|]. intros y Hy. exists y. split; [exact Hy|lia]. Qed.
Lemma ext_trans a b c : ext a b -> ext b c -> ext a c.
Proof.
  intros [[d1 H1] [H2 H3]] [[d2 G1] [G2 G3]]. split; [exists (d2 ++ d1); rewrite G1, H1, app_assoc; reflexivity|].
  split; [eapply incl_tran; eassumption|]. intros y Hy. destruct (H3 y Hy) as [y1 [Hy1 Hle1]].
  destruct (G3 y1 Hy1) as [y2 [Hy2 Hle2]]. exists y2. split; [exact Hy2|lia].
Qed.
Lemma ext_fails c c' x : ext c c' -> In x (g_fails c) -> In x (g_fails c').
Proof. intros [[d H] _] Hin. rewrite H. apply in_or_app. right; exact Hin. Qed.
Lemma ext_reg_call c : ext c (reg_call c).
Proof. exact (ext_refl c). Qed.
Lemma ext_log_body c i p a : ext c (log_body c i p a).
Proof. exact (ext_refl c). Qed.
Lemma ext_log_fail c p k : ext c (log_fail c p k).
Proof.
  split; [exists [(p, k)]; reflexivity|]. split; [apply incl_refl|]. intros y Hy. exists y. split; [exact Hy|lia].
Qed.
Lemma ext_set_error c e : ext c (set_error c e).
Proof.
  split; [exists []; reflexivity|]. split; [apply incl_refl|]. intros y Hy. cbn [set_error cerr].
  apply max_err_ge; exact Hy.
Qed.
Lemma ext_cache_save c i p r : ext c (cache_save c i p r).
Proof.
  split; [exists []; reflexivity|]. split; [intros x Hx; right; exact Hx|]. intros y Hy. exists y. split; [exact Hy|lia].
Qed.

(* the causes the engine logs without trimming are never whitespace errors *)
Definition nows (k : cause) : Prop := match k with CWs _ => False | _ => True end.

Section Just.
  Variable inp : input.
  Variable rules : list pexpr.
  Variable Nm : list N -> Prop.
  Variable strict : bool.
  Hypothesis Hrules : forall k body, nth_N rules k = Some body -> okx Nm strict body.
  (* TermFacts loads ZifyBool (through ReaderProofs); with it [lia] looks at the boolean section
     hypotheses and every lemma proved with it would needlessly depend on them: hide them from it
     (the override disappears at the end of the section) *)
  Ltac lia := try clear Hrules; Lia.lia.

  (* an error is justified by the log F of failed attempts: it is inside the file and
     (A) it IS a logged failed attempt, or
     (B) it is "was expecting <name>" for a name of the grammar, at the position of a logged
         not-found failure (the renaming of Name / named sequences), or
     (C) it is "was expecting <name>" created by a Name whose operand returned neither node
         nor error (possible only when Names are not guarded) *)
  Definition just (F : list (N * cause)) (e : perr) : Prop :=
    in_file inp (epos e) /\
    (In (epos e, ecause e) F
     \/ (exists nm t, ecause e = CNotFound nm /\ Nm nm /\ In (epos e, CNotFound t) F)
     \/ (strict = false /\ exists nm, ecause e = CNotFound nm /\ Nm nm)).
  Definition res_ok (pos : N) (res : list node) : Prop := forall n, In n res -> nb inp n /\ pos <= node_rpos n.
  Definition err_ok (F : list (N * cause)) (pos : N) (err : option perr) : Prop :=
    forall x, err = Some x -> just F x /\ pos <= epos x.
  Definition cj (c : ctx) : Prop :=
    (forall x, cerr c = Some x -> just (g_fails c) x) /\
    (forall idx p r, In ((idx, p), r) (cache c) -> res_ok p (r_nodes r) /\ err_ok (g_fails c) p (r_err r)) /\
    (forall q k, In (q, k) (g_fails c) -> in_file inp q /\ nows k).

  Lemma just_mono F F' e : (forall x, In x F -> In x F') -> just F e -> just F' e.
  Proof.
    intros Hi [Hin [H|[[nm [t [H1 [H2 H3]]]]|H]]]; (split; [exact Hin|]).
    - left. apply Hi; exact H.
    - right. left. exists nm, t. split; [exact H1|]. split; [exact H2|apply Hi; exact H3].
    - right. right. exact H.
  Qed.
  Lemma err_ok_mono F F' pos err : (forall x, In x F -> In x F') -> err_ok F pos err -> err_ok F' pos err.
  Proof. intros Hi H x Hx. destruct (H x Hx) as [H1 H2]. split; [eapply just_mono; eassumption|exact H2]. Qed.
  Lemma err_ok_none F pos : err_ok F pos None.
  Proof. intros x Hx. discriminate. Qed.
  Lemma err_ok_ext c c' pos err : ext c c' -> err_ok (g_fails c) pos err -> err_ok (g_fails c') pos err.
  Proof. intros He. apply err_ok_mono. intros x. apply ext_fails; exact He. Qed.

  Lemma cj_log_fail c p k : cj c -> in_file inp p -> nows k -> cj (log_fail c p k).
  Proof.
    intros [H1 [H2 H3]] Hin Hk. split; [|split].
    - intros x Hx. apply (just_mono (g_fails c)); [intros y Hy; right; exact Hy|]. apply H1; exact Hx.
    - intros idx q r Hr. destruct (H2 idx q r Hr) as [G1 G2]. split; [exact G1|].
      apply (err_ok_mono (g_fails c)); [intros y Hy; right; exact Hy|exact G2].
    - intros q k' [E|Hq]; [inversion E; subst; split; assumption|apply (H3 q k'); exact Hq].
  Qed.
  Lemma cj_set_error c e : cj c -> (forall x, e = Some x -> just (g_fails c) x) -> cj (set_error c e).
  Proof.
    intros [H1 [H2 H3]] He. split; [|split; [exact H2|exact H3]].
    intros x Hx. cbn [set_error cerr g_fails] in *.
    destruct (max_err_from (cerr c) e) as [E|E]; rewrite E in Hx; [apply H1; exact Hx|apply He; exact Hx].
  Qed.
  Lemma cj_cache_save c idx p r :
    cj c -> res_ok p (r_nodes r) -> err_ok (g_fails c) p (r_err r) -> cj (cache_save c idx p r).
  Proof.
    intros [H1 [H2 H3]] Hr He. split; [exact H1|]. split; [|exact H3].
    intros idx' q r' [E|Hin]; [inversion E; subst; split; assumption|apply (H2 idx' q r'); exact Hin].
  Qed.

  Lemma just_rename F nm pos e : Nm nm -> just F e -> just F (rename_err nm pos e).
  Proof.
    intros Hnm Hj. unfold rename_err. destruct ((epos e =? pos) && is_notfound e) eqn:E; [|exact Hj].
    apply andb_true_iff in E. destruct E as [E1 E2]. apply N.eqb_eq in E1. subst pos.
    unfold is_notfound in E2. destruct Hj as [Hin [H|[[nm' [t [G1 [G2 G3]]]]|[Hs H]]]];
      (split; [exact Hin|]); cbn [mk_err epos ecause].
    - destruct (ecause e) as [t| |] eqn:Ec; try discriminate.
      right. left. exists nm, t. split; [reflexivity|]. split; [exact Hnm|exact H].
    - right. left. exists nm, t. split; [reflexivity|]. split; [exact Hnm|exact G3].
    - right. right. split; [exact Hs|]. exists nm. split; [reflexivity|exact Hnm].
  Qed.
  Lemma rename_pos nm pos e : pos <= epos e -> pos <= epos (rename_err nm pos e).
  Proof. intros H. unfold rename_err. destruct ((epos e =? pos) && is_notfound e); [cbn [mk_err epos]; apply N.le_refl|exact H]. Qed.

  Definition pj (rp : ptype) : Prop :=
    forall e c stk lrc pos res cp err c',
      okx Nm strict e -> cj c -> in_file inp pos ->
      rp e c stk lrc pos = Ok (res, cp, err, c') ->
      ext c c' /\ cj c' /\ res_ok pos res /\ err_ok (g_fails c') pos err.

  Definition st_ok (F : list (N * cause)) (pos0 : N) (st : seqst) : Prop :=
    res_ok pos0 (s_res st) /\ err_ok F pos0 (s_err st).
  Definition sj (rs : stype) : Prop :=
    forall q d c stk lrc pos m st stop st' c' pos0,
      okxs Nm strict (q_ps q) -> cj c -> in_file inp pos -> pos0 <= pos -> st_ok (g_fails c) pos0 st ->
      (forall n, In n (s_nodes st) -> nb inp n) ->
      (match s_nodes st with [] => True | n :: _ => node_rpos n = pos end) ->
      rs q d c stk lrc pos m st = Ok (stop, st', c') ->
      ext c c' /\ cj c' /\ st_ok (g_fails c') pos0 st'.

  Section Step.
    Variable rp : ptype.
    Variable rs : stype.
    Hypothesis Hne : pne rp.
    Hypothesis Hp : pj rp.
    Hypothesis Hs : sj rs.

    Lemma any_loop_just stk lrc pos ps : forall c cp res err nf res' cp' err' c',
      okxs Nm strict ps -> cj c -> in_file inp pos ->
      res_ok pos res -> err_ok (g_fails c) pos err -> err_ok (g_fails c) pos nf ->
      any_loop rp stk lrc pos ps c cp res err nf = Ok (res', cp', err', c') ->
      ext c c' /\ cj c' /\ res_ok pos res' /\ err_ok (g_fails c') pos err'.
    Proof.
      induction ps as [|p ps IH]; intros c cp res err nf res' cp' err' c' Hok Hc Hin Hres Herr Hnf H; cbn [any_loop] in H.
      - destruct res as [|n res]; inversion H; subst.
        + split; [apply ext_refl|]. split; [exact Hc|]. split; [exact Hres|].
          unfold or_nf. destruct err; assumption.
        + split; [apply ext_set_error|]. split; [|split; [exact Hres|apply err_ok_none]].
          apply cj_set_error; [exact Hc|]. intros x Hx. exact (proj1 (Herr x Hx)).
      - apply bind_ok in H. destruct H as [[[[res2 cp2] err2] c2] [H1 H2]]. destruct Hok as [Hokp Hokps].
        destruct (Hp p (reg_call c) stk lrc pos res2 cp2 err2 c2 Hokp Hc Hin H1) as [He2 [Hc2 [Hres2 Herr2]]].
        destruct (alt_err pos err nf err2) as [err1 nf1] eqn:Ea.
        destruct (alt_err_from _ _ _ _ _ _ Ea) as [Ee En].
        assert (Hx : ext c c2) by exact He2.
        destruct (IH c2 (set_union cp cp2) (append_node res res2) err1 nf1 res' cp' err' c' Hokps Hc2 Hin) as [G1 [G2 [G3 G4]]];
          [| | |exact H2|].
        + intros n Hn. apply app_node_inv in Hn. destruct Hn as [Hn|Hn]; [apply Hres|apply Hres2]; exact Hn.
        + destruct Ee as [-> | ->]; [eapply err_ok_ext; eassumption|exact Herr2].
        + destruct En as [-> | ->]; [eapply err_ok_ext; eassumption|exact Herr2].
        + split; [eapply ext_trans; eassumption|]. split; [exact G2|]. split; assumption.
    Qed.

    Lemma choice_loop_just stk lrc pos ps : forall c cp err nf res' cp' err' c',
      okxs Nm strict ps -> cj c -> in_file inp pos ->
      err_ok (g_fails c) pos err -> err_ok (g_fails c) pos nf ->
      choice_loop rp stk lrc pos ps c cp err nf = Ok (res', cp', err', c') ->
      ext c c' /\ cj c' /\ res_ok pos res' /\ err_ok (g_fails c') pos err'.
    Proof.
      induction ps as [|p ps IH]; intros c cp err nf res' cp' err' c' Hok Hc Hin Herr Hnf H; cbn [choice_loop] in H.
      - inversion H; subst. split; [apply ext_refl|]. split; [exact Hc|]. split; [intros n []|].
        unfold or_nf. destruct err; assumption.
      - apply bind_ok in H. destruct H as [[[[res2 cp2] err2] c2] [H1 H2]]. destruct Hok as [Hokp Hokps].
        destruct (Hp p (reg_call c) stk lrc pos res2 cp2 err2 c2 Hokp Hc Hin H1) as [He2 [Hc2 [Hres2 Herr2]]].
        destruct (alt_err pos err nf err2) as [err1 nf1] eqn:Ea.
        destruct (alt_err_from _ _ _ _ _ _ Ea) as [Ee En].
        assert (Hx : ext c c2) by exact He2.
        assert (Herr1 : err_ok (g_fails c2) pos err1).
        { destruct Ee as [-> | ->]; [eapply err_ok_ext; eassumption|exact Herr2]. }
        assert (Hnf1 : err_ok (g_fails c2) pos nf1).
        { destruct En as [-> | ->]; [eapply err_ok_ext; eassumption|exact Herr2]. }
        destruct res2 as [|n2 res2].
        + destruct (IH c2 (set_union cp cp2) err1 nf1 res' cp' err' c' Hokps Hc2 Hin Herr1 Hnf1 H2) as [G1 [G2 [G3 G4]]].
          split; [eapply ext_trans; eassumption|]. split; [exact G2|]. split; assumption.
        + inversion H2; subst. split; [eapply ext_trans; [exact Hx|apply ext_set_error]|].
          split; [|split; [exact Hres2|apply err_ok_none]].
          apply cj_set_error; [exact Hc2|]. intros x Hx'. exact (proj1 (Herr1 x Hx')).
    Qed.

    (* a rune terminal fails AT its position; a literal's error can lie beyond it (not covered) *)
    Lemma term_parse_just t pos res err :
      is_rune_term t = true -> in_file inp pos -> term_parse inp t pos = (res, err) ->
      res_ok pos res /\ (forall x, err = Some x -> epos x = pos /\ nows (ecause x)) /\ (res = [] \/ err = None).
    Proof.
      intros Ht [Hlo Hhi] H. destruct t as [ch|l]; [|discriminate]. unfold term_parse in H.
      destruct (byte_at inp pos) as [b|] eqn:Eb; [destruct (b =? ch)|]; inversion H; subst.
      - split; [|split; [discriminate|right; reflexivity]].
        intros n [E|[]]. subst n. apply byte_at_lt in Eb. cbn [nb node_rpos].
        split; [|lia]. split; [unfold in_file; lia|]. split; [|exact I].
        rewrite is_eof_rune; discriminate.
      - split; [intros n []|]. split; [|left; reflexivity]. intros x Hx. inversion Hx; split; [reflexivity|exact I].
      - split; [intros n []|]. split; [|left; reflexivity]. intros x Hx. inversion Hx; split; [reflexivity|exact I].
    Qed.

    Lemma parse_step_just : pj (parse_step inp rules rp rs).
    Proof.
      intros e c stk lrc pos res cp err c' Hok Hc Hin H.
      destruct e; cbn [okx] in Hok; try contradiction; cbn [parse_step] in H.
      - (* PTerm *)
        destruct (term_parse inp t pos) as [res0 err0] eqn:E. inversion H; subst.
        destruct (term_parse_just t pos res err Hok Hin E) as [Hres [Hpos Hor]].
        destruct res as [|n res]; [destruct err as [x|]|].
        + destruct (Hpos x eq_refl) as [Hpos' Hnw]. clear Hpos. rename Hpos' into Hpos.
          split; [apply ext_log_fail|]. split; [apply cj_log_fail; assumption|].
          split; [exact Hres|]. intros y Hy. inversion Hy; subst y. split; [|lia].
          split; [rewrite Hpos; exact Hin|]. left. rewrite Hpos. left. reflexivity.
        + split; [apply ext_refl|]. split; [exact Hc|]. split; [exact Hres|apply err_ok_none].
        + destruct Hor as [Hor|Hor]; [discriminate|subst err].
          split; [apply ext_refl|]. split; [exact Hc|]. split; [exact Hres|apply err_ok_none].
      - (* PEmpty *) inversion H; subst. split; [apply ext_refl|]. split; [exact Hc|]. split; [|apply err_ok_none].
        intros n [E|[]]. subst n. cbn [nb node_rpos]. split; [|lia].
        split; [exact Hin|]. split; [rewrite is_eof_empty; discriminate|exact I].
      - (* PEnd *) destruct (is_eof inp pos) eqn:E; inversion H; subst.
        + split; [apply ext_refl|]. split; [exact Hc|]. split; [|apply err_ok_none].
          intros n [E'|[]]. subst n. cbn [nb node_rpos]. split; [|lia].
          split; [exact Hin|]. split; [|exact I]. intros _. unfold is_eof in E. apply N.leb_le in E.
          destruct Hin as [Hlo Hhi]. lia.
        + split; [apply ext_log_fail|]. split; [apply cj_log_fail; [assumption|assumption|exact I]|]. split; [intros n []|].
          intros y Hy. inversion Hy; subst y. cbn [mk_err epos ecause]. split; [|lia].
          split; [exact Hin|]. left. left. reflexivity.
      - (* PRef *) destruct (nth_N rules k) as [body|] eqn:E; [|discriminate].
        exact (Hp body c stk lrc pos res cp err c' (Hrules k body E) Hc Hin H).
      - (* PMemo *) destruct (cache_get c idx pos lrc) as [r|] eqn:E.
        + inversion H; subst. apply cache_get_in in E. destruct Hc as [H1 [H2 H3]].
          destruct (H2 idx pos r E) as [G1 G2].
          split; [apply ext_refl|]. split; [split; [exact H1|split; [exact H2|exact H3]]|]. split; assumption.
        + destruct (remaining inp pos + 1 <? map_get idx lrc).
          * inversion H; subst. split; [apply ext_refl|]. split; [exact Hc|]. split; [intros n []|apply err_ok_none].
          * apply bind_ok in H. destruct H as [[[[nodes cp0] err0] c0] [H1 H2]]. inversion H2; subst.
            destruct (Hp e (log_body c idx pos (1 + count_active idx pos stk)) ((idx, pos) :: stk) (map_inc idx lrc) pos
                         res cp err c0 Hok Hc Hin H1) as [He0 [Hc0 [Hres0 Herr0]]].
            split; [eapply ext_trans; [exact He0|apply ext_cache_save]|].
            split; [apply cj_cache_save; assumption|]. split; assumption.
      - (* PAny *)
        apply (any_loop_just stk lrc pos ps c [] [] None None res cp err c' Hok Hc Hin); try assumption;
          [intros n []|apply err_ok_none|apply err_ok_none].
      - (* PChoice *)
        apply (choice_loop_just stk lrc pos ps c [] None None res cp err c' Hok Hc Hin); try assumption; apply err_ok_none.
      - (* POpt *)
        apply bind_ok in H. destruct H as [[[[res0 cp0] err0] c0] [H1 H2]]. inversion H2; subst.
        destruct (Hp e c stk lrc pos res0 cp err c' Hok Hc Hin H1) as [He0 [Hc0 [Hres0 Herr0]]].
        split; [exact He0|]. split; [exact Hc0|]. split; [|exact Herr0].
        intros n Hn. apply app_node_inv in Hn. destruct Hn as [Hn|[Hn|[]]]; [apply Hres0; exact Hn|].
        subst n. cbn [nb node_rpos]. split; [|lia]. split; [exact Hin|]. split; [rewrite is_eof_empty; discriminate|exact I].
      - (* PSeq *)
        destruct Hok as [Hnm Hoks].
        apply bind_ok in H. destruct H as [[[stop st] c0] [H1 H2]].
        destruct (Hs {| q_kind := k; q_ip := ip; q_single := single; q_ps := ps |} 0%nat c stk lrc pos true
                     {| s_cp := []; s_res := []; s_err := None; s_nodes := [] |} stop st c0 pos) as [He0 [Hc0 [Hr0 Hx0]]];
          cbn [q_ps s_nodes s_res s_err]; try assumption; try lia.
        { split; [intros n []|apply err_ok_none]. }
        { intros n []. }
        destruct (s_res st) as [|n ns] eqn:Er; inversion H2; subst.
        + split; [exact He0|]. split; [exact Hc0|]. split; [intros n []|].
          destruct name as [nm|]; [|exact Hx0]. destruct (s_err st) as [x|] eqn:Ex; [|apply err_ok_none].
          intros y Hy. inversion Hy; subst y. destruct (Hx0 x eq_refl) as [G1 G2].
          split; [apply just_rename; assumption|apply rename_pos; exact G2].
        + split; [eapply ext_trans; [exact He0|apply ext_set_error]|].
          split; [|split; [exact Hr0|apply err_ok_none]].
          apply cj_set_error; [exact Hc0|]. intros x Hx'. exact (proj1 (Hx0 x Hx')).
      - (* PName *)
        destruct Hok as [Hnm [Hg Hoke]].
        apply bind_ok in H. destruct H as [[[[res0 cp0] err0] c0] [H1 H2]].
        destruct (Hp e c stk lrc pos res0 cp0 err0 c0 Hoke Hc Hin H1) as [He0 [Hc0 [Hres0 Herr0]]].
        destruct err0 as [x|].
        + inversion H2; subst. split; [exact He0|]. split; [exact Hc0|]. split; [intros n []|].
          intros y Hy. inversion Hy; subst y. destruct (Herr0 x eq_refl) as [G1 G2].
          split; [apply just_rename; assumption|apply rename_pos; exact G2].
        + destruct res0 as [|n ns]; inversion H2; subst.
          * split; [exact He0|]. split; [exact Hc0|]. split; [intros n []|].
            intros y Hy. inversion Hy; subst y. cbn [mk_err epos ecause]. split; [|lia].
            split; [exact Hin|]. right. right. destruct strict eqn:Es.
            -- exfalso. destruct (Hne e c stk lrc pos [] cp None c' (Hg eq_refl) H1) as [G|G]; congruence.
            -- split; [reflexivity|]. exists name. split; [reflexivity|exact Hnm].
          * split; [exact He0|]. split; [exact Hc0|]. split; [exact Hres0|apply err_ok_none].
      - (* PSuppress *)
        apply bind_ok in H. destruct H as [[[[res0 cp0] err0] c0] [H1 H2]]. inversion H2; subst.
        destruct (Hp e c stk lrc pos res cp err0 c' Hok Hc Hin H1) as [He0 [Hc0 [Hres0 Herr0]]].
        split; [exact He0|]. split; [exact Hc0|]. split; [exact Hres0|apply err_ok_none].
      - (* PSingle *)
        apply bind_ok in H. destruct H as [[[[res0 cp0] err0] c0] [H1 H2]].
        destruct (Hp e c stk lrc pos res0 cp0 err0 c0 Hok Hc Hin H1) as [He0 [Hc0 [Hres0 Herr0]]].
        destruct err0 as [x|].
        + inversion H2; subst. split; [exact He0|]. split; [exact Hc0|]. split; [intros n []|exact Herr0].
        + assert (Hgen : res = res0 -> ext c c0 /\ cj c0 /\ res_ok pos res /\ err_ok (g_fails c0) pos None).
          { intros ->. split; [exact He0|]. split; [exact Hc0|]. split; [exact Hres0|apply err_ok_none]. }
          destruct res0 as [|n ns]; [inversion H2; subst; apply Hgen; reflexivity|].
          destruct n as [| | |t i [|ch [|ch2 cs]] p r]; destruct ns; inversion H2; subst; try (apply Hgen; reflexivity).
          split; [exact He0|]. split; [exact Hc0|]. split; [|apply err_ok_none].
          intros n [E|[]]. subst n. destruct (Hres0 _ (or_introl eq_refl)) as [G1 G2].
          cbn [nb node_rpos] in G1, G2. destruct G1 as [_ [_ [G3 [G4 _]]]]. split; [exact G4|]. rewrite <- G3. exact G2.
    Qed.

    Lemma alts_loop_just q d stk lrc pos m prefix pos0 ns : forall st c stop st' c',
      okxs Nm strict (q_ps q) -> pos0 <= pos -> (forall n, In n prefix -> nb inp n) ->
      (forall n, In n ns -> nb inp n /\ pos <= node_rpos n) ->
      cj c -> st_ok (g_fails c) pos0 st ->
      alts_loop rs q d stk lrc pos m prefix ns st c = Ok (stop, st', c') ->
      ext c c' /\ cj c' /\ st_ok (g_fails c') pos0 st'.
    Proof.
      induction ns as [|n ns IH]; intros st c stop st' c' Hok Hle Hpre Hns Hc Hst H; cbn [alts_loop] in H.
      - inversion H; subst. split; [apply ext_refl|]. split; assumption.
      - apply bind_ok in H. destruct H as [[[stop1 st1] c1] [H1 H2]].
        destruct (Hns n (or_introl eq_refl)) as [Hnb Hnle].
        destruct (Hs q (S d) c stk (if pos <? node_rpos n then [] else lrc) (node_rpos n)
                     (if pos <? node_rpos n then false else m)
                     {| s_cp := s_cp st; s_res := s_res st; s_err := s_err st; s_nodes := n :: prefix |}
                     stop1 st1 c1 pos0 Hok Hc) as [He1 [Hc1 Hst1]]; cbn [s_nodes s_res s_err]; try assumption.
        { apply nb_in_file; exact Hnb. }
        { lia. }
        { intros n' [E|Hn']; [subst; exact Hnb|apply Hpre; exact Hn']. }
        { reflexivity. }
        destruct stop1.
        + inversion H2; subst. split; [exact He1|]. split; assumption.
        + destruct (IH st1 c1 stop st' c' Hok Hle Hpre (fun n' Hn' => Hns n' (or_intror Hn')) Hc1 Hst1 H2) as [G1 [G2 G3]].
          split; [eapply ext_trans; eassumption|]. split; assumption.
    Qed.

    Lemma seq_step_just : sj (seq_step rp rs).
    Proof.
      intros q d c stk lrc pos m st stop st' c' pos0 Hok Hc Hin Hle [Hres Herr] Hnodes Hlink H.
      unfold seq_step in H. apply bind_ok in H. destruct H as [[[[res cp] err] c1] [H1 H2]].
      assert (Hsub : ext c c1 /\ cj c1 /\ res_ok pos res /\ err_ok (g_fails c1) pos err).
      { destruct (seq_lookup (q_kind q) (q_ps q) d) as [p|] eqn:El.
        - exact (Hp p (reg_call c) stk lrc pos res cp err c1 (okxs_in Nm strict _ _ Hok (seq_lookup_in _ _ _ _ El)) Hc Hin H1).
        - inversion H1; subst. split; [apply ext_refl|]. split; [exact Hc|]. split; [intros n []|apply err_ok_none]. }
      destruct Hsub as [He1 [Hc1 [Hres1 Herr1]]].
      assert (Hkm : err_ok (g_fails c1) pos0 (keep_max (s_err st) err)).
      { destruct (keep_max_from (s_err st) err) as [E|E]; rewrite E.
        - eapply err_ok_ext; eassumption.
        - intros x Hx. destruct (Herr1 x Hx) as [G1 G2]. split; [exact G1|lia]. }
      destruct res as [|n res].
      - cbn [s_nodes s_res s_err s_cp] in H2.
        destruct (seq_lencheck (q_kind q) (length (q_ps q)) d).
        + destruct (handle_result_nb inp q pos (s_nodes st) Hin Hnodes Hlink) as [Hnb Hrp].
          assert (Hst2 : res_ok pos0 (append_node (s_res st) [handle_result q pos (rev (s_nodes st))])).
          { intros n Hn. apply app_node_inv in Hn. destruct Hn as [Hn|[Hn|[]]]; [apply Hres; exact Hn|].
            subst n. split; [exact Hnb|]. rewrite Hrp. exact Hle. }
          destruct (s_nodes st) as [|lastn pre]; inversion H2; subst; (split; [exact He1|]; split; [exact Hc1|]);
            split; cbn [s_res s_err]; assumption.
        + inversion H2; subst. split; [exact He1|]. split; [exact Hc1|]. split; cbn [s_res s_err]; assumption.
      - destruct (alts_loop_just q d stk lrc pos m (s_nodes st) pos0 (n :: res)
                    {| s_cp := if m then set_union (s_cp st) cp else s_cp st; s_res := s_res st;
                       s_err := keep_max (s_err st) err; s_nodes := s_nodes st |} c1 stop st' c' Hok Hle Hnodes Hres1 Hc1)
          as [G1 [G2 G3]]; [split; cbn [s_res s_err]; assumption|exact H2|].
        split; [eapply ext_trans; eassumption|]. split; assumption.
    Qed.
  End Step.

  Theorem just_inv : forall f, pj (parse inp rules f) /\ sj (seqp inp rules f).
  Proof.
    induction f as [|f [IHp IHs]].
    - split; repeat intro; discriminate.
    - destruct (ne_inv inp rules f) as [Hne _]. split.
      + intros e c stk lrc pos. rewrite parse_S. apply parse_step_just; assumption.
      + intros q d c stk lrc pos m st. rewrite seqp_S. apply seq_step_just; assumption.
  Qed.
End Just.

(* ---- parsley.Parse: which error it reports ---- *)
Section Top.
  Variable inp : input.
  Variable rules : list pexpr.
  Variable Nm : list N -> Prop.
  Variable strict : bool.
  Hypothesis Hrules : forall k body, nth_N rules k = Some body -> okx Nm strict body.
  Ltac lia := try clear Hrules; Lia.lia.   (* see Section Just *)

  Lemma cj_ctx0 : cj inp Nm strict ctx0.
  Proof. split; [intros x Hx; discriminate|]. split; [intros idx p r []|intros q k []]. Qed.
  Lemma in_file_start : in_file inp (i_offset inp).
  Proof. unfold in_file. lia. Qed.

  Definition fallback : perr := mk_err (i_offset inp) (CNotFound name_valid_input).

  (* the reported error is justified by the final log, or it is the fallback of Parse (the
     root returned neither node nor error and the context holds no error) *)
  Lemma parse_top_just fuel r0 e c :
    okx Nm strict r0 -> parse_top inp rules fuel r0 = Ok (TopErr e c) ->
    (forall q k, In (q, k) (g_fails c) -> in_file inp q /\ nows k) /\
    (just inp Nm strict (g_fails c) e \/
     (e = fallback /\ ne r0 = false /\ exists cp, run inp rules fuel r0 = Ok ([], cp, None, c))).
  Proof.
    intros Hok H. unfold parse_top, run in H. apply bind_ok in H.
    destruct H as [[[[nodes cp] err] c0] [H1 H2]].
    destruct (proj1 (just_inv inp rules Nm strict Hrules fuel) r0 ctx0 [] [] (i_offset inp) nodes cp err c0
                Hok cj_ctx0 in_file_start H1) as [_ [[Hce [_ Hf]] [_ Herr]]].
    assert (Hpick : forall x, just inp Nm strict (g_fails c0) x ->
              just inp Nm strict (g_fails c0)
                (if is_wserr x then x else match cerr c0 with Some ce => if epos x <? epos ce then ce else x | None => x end)).
    { intros x Hx. destruct (is_wserr x); [exact Hx|]. destruct (cerr c0) as [ce|] eqn:Ec; [|exact Hx].
      destruct (epos x <? epos ce); [apply Hce; reflexivity|exact Hx]. }
    assert (Hnone : nodes = [] -> err = None -> ne r0 = false).
    { intros -> ->. destruct (ne r0) eqn:En; [|reflexivity]. exfalso.
      destruct (proj1 (ne_inv inp rules fuel) r0 ctx0 [] [] (i_offset inp) [] cp None c0 En H1) as [G|G]; congruence. }
    destruct err as [x|].
    - assert (E : Ok (TopErr (if is_wserr x then x else match cerr c0 with Some ce => if epos x <? epos ce then ce else x | None => x end) c0)
                  = Ok (TopErr e c)) by (destruct nodes; exact H2).
      inversion E; subst. split; [exact Hf|]. left. apply Hpick. exact (proj1 (Herr x eq_refl)).
    - destruct nodes as [|n ns]; [|discriminate].
      destruct (cerr c0) as [ce|] eqn:Ec.
      + cbn match in H2. inversion H2; subst. split; [exact Hf|]. left.
        destruct (is_wserr ce); [apply Hce; reflexivity|]. destruct (epos ce <? epos ce); apply Hce; reflexivity.
      + inversion H2; subst. split; [exact Hf|]. right. split; [reflexivity|]. split; [apply Hnone; reflexivity|].
        exists cp. exact H1.
  Qed.
End Top.

Lemma sentence_okx Nm strict root : okx Nm strict root -> okx Nm strict (sentence root).
Proof. intros H. unfold sentence. cbn [okx]. split; [exact I|]. split; [exact H|]. split; exact I. Qed.
Lemma sentence_ne root : ne (sentence root) = ne root.
Proof. unfold sentence. cbn [ne kind_ok length forallb]. rewrite andb_true_r. reflexivity. Qed.

Definition in_grammar (root : pexpr) (rules : list pexpr) (nm : list N) : Prop := In nm (gnames (root :: rules)).

Lemma grammar_okx strict root rules :
  notrim root = true -> forallb notrim rules = true ->
  (strict = true -> guarded root = true /\ forallb guarded rules = true) ->
  okx (in_grammar root rules) strict root /\
  (forall k body, nth_N rules k = Some body -> okx (in_grammar root rules) strict body).
Proof.
  intros Hn Hns Hg. split.
  - apply okx_intro; [exact Hn|intros Hs; exact (proj1 (Hg Hs))|].
    intros nm Hin. unfold in_grammar, gnames. cbn [flat_map]. apply in_or_app. left. exact Hin.
  - intros k body Hk. assert (Hin : In body rules) by (eapply nth_error_In; exact Hk).
    apply okx_intro.
    + rewrite forallb_forall in Hns. apply Hns; exact Hin.
    + intros Hs. destruct (Hg Hs) as [_ G]. rewrite forallb_forall in G. apply G; exact Hin.
    + intros nm Hnm. unfold in_grammar, gnames. cbn [flat_map]. apply in_or_app. right.
      apply in_flat_map. exists body. split; assumption.
Qed.

(* THEOREM (C06, first half).  The reported position lies inside the file and is not beyond
   a failed attempt — except for the two origins that have no failed attempt behind them:
   (iii) "was expecting <name>" created by a Name whose operand returned neither node nor
   error, (iv) the "a valid input" fallback of Parse. *)
Theorem C06_not_beyond inp rules fuel root e c :
  notrim root = true -> forallb notrim rules = true ->
  parse_top inp rules fuel (sentence root) = Ok (TopErr e c) ->
  i_offset inp <= epos e /\ epos e <= i_offset inp + i_len inp /\
  ((exists p k, In (p, k) (g_fails c) /\ epos e <= p)
   \/ (exists nm, ecause e = CNotFound nm /\ In nm (gnames (root :: rules)))
   \/ e = mk_err (i_offset inp) (CNotFound name_valid_input)).
Proof.
  intros Hn Hns H.
  destruct (grammar_okx false root rules Hn Hns ltac:(discriminate)) as [Hok Hrules].
  destruct (parse_top_just inp rules _ false Hrules fuel (sentence root) e c (sentence_okx _ _ _ Hok) H) as [_ [Hj|[He _]]].
  - destruct Hj as [[Hlo Hhi] Hj]. split; [exact Hlo|]. split; [exact Hhi|].
    destruct Hj as [Hj|[[nm [t [H1 [H2 H3]]]]|[_ [nm [H1 H2]]]]].
    + left. exists (epos e), (ecause e). split; [exact Hj|lia].
    + left. exists (epos e), (CNotFound t). split; [exact H3|lia].
    + right. left. exists nm. split; assumption.
  - subst e. cbn [fallback mk_err epos]. split; [lia|]. split; [lia|]. right. right. reflexivity.
Qed.

(* THEOREM (C06, the expectation is real).  The reported cause is the cause of a failed
   attempt logged AT the reported position, or "was expecting <name>" for a name of the
   grammar, or the fallback. *)
Theorem C06_expectation_real inp rules fuel root e c :
  notrim root = true -> forallb notrim rules = true ->
  parse_top inp rules fuel (sentence root) = Ok (TopErr e c) ->
  In (epos e, ecause e) (g_fails c)
  \/ (exists nm, ecause e = CNotFound nm /\ In nm (gnames (root :: rules)))
  \/ e = mk_err (i_offset inp) (CNotFound name_valid_input).
Proof.
  intros Hn Hns H.
  destruct (grammar_okx false root rules Hn Hns ltac:(discriminate)) as [Hok Hrules].
  destruct (parse_top_just inp rules _ false Hrules fuel (sentence root) e c (sentence_okx _ _ _ Hok) H) as [_ [Hj|[He _]]].
  - destruct Hj as [_ [Hj|[[nm [t [H1 [H2 H3]]]]|[_ [nm [H1 H2]]]]]].
    + left. exact Hj.
    + right. left. exists nm. split; assumption.
    + right. left. exists nm. split; assumption.
  - right. right. exact He.
Qed.

(* THEOREM (C06, guarded grammars: no exception).  When every Name is applied to an operand
   that cannot come back empty-handed and the root cannot either, there IS a failed attempt
   exactly at the reported position, and the reported cause is that attempt's cause or the
   name a Name / named sequence substituted for a not-found failure at that position. *)
Theorem C06_guarded inp rules fuel root e c :
  notrim root = true -> forallb notrim rules = true ->
  guarded root = true -> forallb guarded rules = true -> ne root = true ->
  parse_top inp rules fuel (sentence root) = Ok (TopErr e c) ->
  i_offset inp <= epos e /\ epos e <= i_offset inp + i_len inp /\
  (In (epos e, ecause e) (g_fails c)
   \/ exists nm t, ecause e = CNotFound nm /\ In nm (gnames (root :: rules)) /\ In (epos e, CNotFound t) (g_fails c)).
Proof.
  intros Hn Hns Hg Hgs Hne H.
  destruct (grammar_okx true root rules Hn Hns (fun _ => conj Hg Hgs)) as [Hok Hrules].
  destruct (parse_top_just inp rules _ true Hrules fuel (sentence root) e c (sentence_okx _ _ _ Hok) H) as [_ [Hj|[_ He]]].
  - destruct Hj as [[Hlo Hhi] Hj]. split; [exact Hlo|]. split; [exact Hhi|].
    destruct Hj as [Hj|[Hj|[Hs _]]]; [left; exact Hj|right; exact Hj|discriminate].
  - destruct He as [He _]. rewrite sentence_ne in He. congruence.
Qed.
Corollary C06_not_beyond_guarded inp rules fuel root e c :
  notrim root = true -> forallb notrim rules = true ->
  guarded root = true -> forallb guarded rules = true -> ne root = true ->
  parse_top inp rules fuel (sentence root) = Ok (TopErr e c) ->
  exists k, In (epos e, k) (g_fails c).
Proof.
  intros Hn Hns Hg Hgs Hne H.
  destruct (C06_guarded inp rules fuel root e c Hn Hns Hg Hgs Hne H) as [_ [_ [Hj|[nm [t [_ [_ Hj]]]]]]]; eexists; exact Hj.
Qed.

(* every logged failed attempt is at a position of the file *)
Theorem C06_attempts_in_file inp rules fuel root e c :
  notrim root = true -> forallb notrim rules = true ->
  parse_top inp rules fuel (sentence root) = Ok (TopErr e c) ->
  forall q k, In (q, k) (g_fails c) -> i_offset inp <= q /\ q <= i_offset inp + i_len inp.
Proof.
  intros Hn Hns H q k Hq.
  destruct (grammar_okx false root rules Hn Hns ltac:(discriminate)) as [Hok Hrules].
  exact (proj1 (proj1 (parse_top_just inp rules _ false Hrules fuel (sentence root) e c (sentence_okx _ _ _ Hok) H) q k Hq)).
Qed.

(* ---- non-vacuity ---- *)
Definition ex_a := PTerm (TRune 97).
Definition ex_b := PTerm (TRune 98).
Definition ex_c := PTerm (TRune 99).
Definition ex_seq (ps : list pexpr) := PSeq SeqOf INone false None ps.
(* P -> P b | a *)
Definition ex_P := PMemo 0 (PAny [ex_seq [PRef 0; ex_b]; ex_a]).
Definition ex_inp (l : list N) := mk_input l 1.
Definition top_view (o : outcome top) : option (perr * list (N * cause)) :=
  match o with Ok (TopErr e c) => Some (e, g_fails c) | _ => None end.

(* Sentence(P) on "abc": the error is at the 'c' (position 3), where End and 'b' failed *)
Example C06_example_leftrec :
  notrim (PRef 0) = true /\ forallb notrim [ex_P] = true /\
  exists e c, parse_top (ex_inp [97; 98; 99]) [ex_P] 200 (sentence (PRef 0)) = Ok (TopErr e c) /\
              epos e = 3 /\ ecause e = COther msg_end /\ In (3, COther msg_end) (g_fails c) /\
              In (3, CNotFound (quote_rune 98)) (g_fails c).
Proof.
  split; [reflexivity|]. split; [reflexivity|].
  destruct (parse_top (ex_inp [97; 98; 99]) [ex_P] 200 (sentence (PRef 0))) as [[ns c|e c]| |] eqn:E;
    try (vm_compute in E; discriminate).
  exists e, c. split; [reflexivity|]. vm_compute in E. inversion E; subst. vm_compute. tauto.
Qed.

(* a named Choice: guarded grammar, "was expecting n" at the position of the failed alternatives *)
Definition ex_named := PName [110] (PChoice [ex_seq [ex_a; ex_b]; ex_seq [ex_a; ex_c]; ex_b]).
Example C06_example_named_choice :
  notrim ex_named = true /\ guarded ex_named = true /\ ne ex_named = true /\
  top_view (parse_top (ex_inp [120]) [] 200 (sentence ex_named)) =
    Some (mk_err 1 (CNotFound [110]),
          [(1, CNotFound (quote_rune 98)); (1, CNotFound (quote_rune 97)); (1, CNotFound (quote_rune 97))]) /\
  top_view (parse_top (ex_inp [97; 120]) [] 200 (sentence ex_named)) =
    Some (mk_err 2 (CNotFound (quote_rune 99)),
          [(1, CNotFound (quote_rune 98)); (2, CNotFound (quote_rune 99)); (2, CNotFound (quote_rune 98))]).
Proof. vm_compute. repeat split. Qed.

(* the exception (iii): U -> U b is unproductive; Name(n, U) after 'a' reports position 2
   although NO terminal was tried anywhere (the log is empty) *)
Definition ex_U := PMemo 0 (ex_seq [PRef 0; ex_b]).
Example C06_example_exception_iii :
  notrim (ex_seq [ex_a; PName [110] (PRef 0)]) = true /\
  top_view (parse_top (ex_inp [97; 98; 99]) [ex_U] 200 (sentence (ex_seq [ex_a; PName [110] (PRef 0)]))) =
    Some (mk_err 2 (CNotFound [110]), []).
Proof. vm_compute. split; reflexivity. Qed.

(* the exception (iv): an unproductive root yields the fallback with an empty log *)
Example C06_example_exception_iv :
  top_view (parse_top (ex_inp [97]) [ex_U] 200 (sentence (PRef 0))) =
    Some (mk_err 1 (CNotFound name_valid_input), []).
Proof. vm_compute. reflexivity. Qed.

(* why [runes_only] is part of [notrim]: Sentence(terminal.String) on the unterminated literal
   ["ab] reports position 4 (the end of the input, "was expecting '"'") whereas the only logged
   attempt is the String parser's own start, position 1 — a literal parser's error can lie beyond
   the attempt that produced it, so "not beyond a logged failed attempt" is FALSE with literals *)
Example C06_not_beyond_needs_runes_only :
  trimfree (PTerm (TLit (LString false))) = true /\ runes_only (PTerm (TLit (LString false))) = false /\
  match parse_top (ex_inp [34; 97; 98]) [] 200 (sentence (PTerm (TLit (LString false)))) with
  | Ok (TopErr e c) => epos e = 4 /\ map fst (g_fails c) = [1]
  | _ => False
  end.
Proof. vm_compute. repeat split. Qed.

(* ------------------------------------------------------------------------------------- *)
(* Part 3: rendering — "failed to parse the input: <expectation> at f:<line>:<column>"     *)
(* ------------------------------------------------------------------------------------- *)

Lemma normalize_repeat n : normalize (repeat 97 n) = repeat 97 n.
Proof.
  induction n as [|n IH]; [reflexivity|]. destruct n as [|n]; [reflexivity|].
  change (repeat 97 (S (S n))) with (97 :: 97 :: repeat 97 n) in *.
  change (repeat 97 (S n)) with (97 :: repeat 97 n) in IH.
  cbn [normalize]. change ((97 =? 13) && (97 =? 10)) with false. cbn match.
  f_equal. exact IH.
Qed.

(* the position the error text shows: file "f", 1 + the number of line feeds before the
   position, 1 + the number of bytes since the last line feed (FileSet.spec_linecol) *)
Definition render_pos (data : list N) (offset p : N) : position :=
  let d := normalize data in
  let k := N.to_nat (p - (if offset <=? 1 then 1 else offset)) in
  {| p_name := [102]; p_line := 1 + count_lf (firstn k d); p_col := 1 + tail_len (firstn k d) 0 |}.

Lemma eng_spec_position data offset p :
  in_file (eng_input data offset) p ->
  spec_position (eng_files data offset) p = Some (render_pos data offset p).
Proof.
  unfold in_file, eng_input, mk_input, i_len, len_N. cbn [i_offset i_data]. intros [Hlo Hhi].
  unfold eng_files, render_pos. destruct (offset <=? 1) eqn:Eo.
  - set (f := new_file [102] data).
    assert (Hc : p - 1 <= f_len f) by (unfold f, f_len, new_file; cbn [f_data]; lia).
    pose proof (position_roundtrip [f] 0 f (p - 1) eq_refl Hc) as H.
    unfold offset_of in H. cbn [firstn end_from] in H. replace (1 + (p - 1)) with p in H by lia.
    exact H.
  - apply N.leb_gt in Eo.
    set (g := new_file [120] (repeat 97 (N.to_nat (offset - 2)))). set (f := new_file [102] data).
    assert (Hg : f_len g = offset - 2).
    { unfold g, f_len, new_file. cbn [f_data]. rewrite normalize_repeat, repeat_length. lia. }
    assert (Hc : p - offset <= f_len f) by (unfold f, f_len, new_file; cbn [f_data]; lia).
    pose proof (position_roundtrip [g; f] 1 f (p - offset) eq_refl Hc) as H.
    unfold offset_of in H. cbn [firstn end_from] in H. rewrite Hg in H.
    replace (1 + (offset - 2) + 1 + (p - offset)) with p in H by lia.
    exact H.
Qed.

Lemma bytes_at : bytes " at " = [32; 97; 116; 32].
Proof. reflexivity. Qed.

Lemma top_text_render data offset e :
  in_file (eng_input data offset) (epos e) ->
  top_text (new_fileset (eng_files data offset)) e =
  Ok (bytes "failed to parse the input: " ++ cause_msg (ecause e) ++ bytes " at " ++
      position_string (render_pos data offset (epos e))).
Proof.
  intros Hin. unfold top_text, error_with_position.
  rewrite fs_position_spec, (eng_spec_position data offset (epos e) Hin). cbn [bind].
  rewrite bytes_at. reflexivity.
Qed.

(* THEOREM (C06, rendering).  The text Parse returns is
   "failed to parse the input: <expectation> at f:<line>:<column>" where line and column are
   the specification's (C11) line and column of the reported position — for the single-file
   layout (offset <= 1) and the layout with a filler file in front alike. *)
Theorem C06_render data offset rules fuel root e c :
  notrim root = true -> forallb notrim rules = true ->
  parse_top (eng_input data offset) rules fuel (sentence root) = Ok (TopErr e c) ->
  spec_position (eng_files data offset) (epos e) = Some (render_pos data offset (epos e)) /\
  top_text (new_fileset (eng_files data offset)) e =
  Ok (bytes "failed to parse the input: " ++ cause_msg (ecause e) ++ bytes " at " ++
      position_string (render_pos data offset (epos e))).
Proof.
  intros Hn Hns H.
  destruct (C06_not_beyond _ _ _ _ _ _ Hn Hns H) as [Hlo [Hhi _]].
  assert (Hin : in_file (eng_input data offset) (epos e)) by (split; assumption).
  split; [apply eng_spec_position; exact Hin|apply top_text_render; exact Hin].
Qed.

(* "ab\nac" parsed by Sentence(a b \n a b) behind a 5-byte filler file: the error is on line 2, column 2 *)
Example C06_example_render :
  let root := ex_seq [ex_a; ex_b; PTerm (TRune 10); ex_a; ex_b] in
  match parse_top (eng_input [97; 98; 10; 97; 99] 7) [] 200 (sentence root) with
  | Ok (TopErr e c) =>
    epos e = 11 /\
    top_text (new_fileset (eng_files [97; 98; 10; 97; 99] 7)) e =
      Ok (bytes "failed to parse the input: was expecting ""b"" at f:2:2")
  | _ => False
  end.
Proof. vm_compute. split; reflexivity. Qed.

(* ------------------------------------------------------------------------------------- *)
(* Part 4: no failed attempt is lost — the coverage invariant                             *)
(* ------------------------------------------------------------------------------------- *)

(* ---- 4a: the cache only grows (all combinators, no hypothesis) ---- *)
Section CacheMono.
  Variable inp : input.
  Variable rules : list pexpr.
  Definition pcm (rp : ptype) : Prop :=
    forall e c stk lrc pos res cp err c', rp e c stk lrc pos = Ok (res, cp, err, c') -> incl (cache c) (cache c').
  Definition scm (rs : stype) : Prop :=
    forall q d c stk lrc pos m st stop st' c', rs q d c stk lrc pos m st = Ok (stop, st', c') -> incl (cache c) (cache c').

  Section Step.
    Variable rp : ptype.
    Variable rs : stype.
    Hypothesis Hp : pcm rp.
    Hypothesis Hs : scm rs.

    Lemma any_loop_cm stk lrc pos ps : forall c cp res err nf res' cp' err' c',
      any_loop rp stk lrc pos ps c cp res err nf = Ok (res', cp', err', c') -> incl (cache c) (cache c').
    Proof.
      induction ps as [|p ps IH]; intros c cp res err nf res' cp' err' c' H; cbn [any_loop] in H.
      - destruct res; inversion H; subst; apply incl_refl.
      - apply bind_ok in H. destruct H as [[[[res2 cp2] err2] c2] [H1 H2]].
        destruct (alt_err pos err nf err2) as [err1 nf1].
        apply Hp in H1. apply IH in H2. eapply incl_tran; [exact H1|exact H2].
    Qed.
    Lemma choice_loop_cm stk lrc pos ps : forall c cp err nf res' cp' err' c',
      choice_loop rp stk lrc pos ps c cp err nf = Ok (res', cp', err', c') -> incl (cache c) (cache c').
    Proof.
      induction ps as [|p ps IH]; intros c cp err nf res' cp' err' c' H; cbn [choice_loop] in H.
      - inversion H; subst; apply incl_refl.
      - apply bind_ok in H. destruct H as [[[[res2 cp2] err2] c2] [H1 H2]].
        destruct (alt_err pos err nf err2) as [err1 nf1]. apply Hp in H1.
        destruct res2; [apply IH in H2; eapply incl_tran; [exact H1|exact H2]|inversion H2; subst; exact H1].
    Qed.
    Lemma parse_step_cm : pcm (parse_step inp rules rp rs).
    Proof.
      intros e c stk lrc pos res cp err c' H. destruct e; cbn [parse_step] in H.
      - destruct (term_parse inp t pos) as [r0 e0]. inversion H; subst. destruct res; [destruct err|]; apply incl_refl.
      - inversion H; subst; apply incl_refl.
      - destruct (is_eof inp pos); inversion H; subst; apply incl_refl.
      - destruct (nth_N rules k); [|discriminate]. eapply Hp; exact H.
      - destruct (cache_get c idx pos lrc); [inversion H; subst; apply incl_refl|].
        destruct (remaining inp pos + 1 <? map_get idx lrc); [inversion H; subst; apply incl_refl|].
        apply bind_ok in H. destruct H as [[[[nodes cp0] err0] c0] [H1 H2]]. inversion H2; subst.
        apply Hp in H1. intros x Hx. right. apply H1. exact Hx.
      - eapply any_loop_cm; exact H.
      - eapply choice_loop_cm; exact H.
      - apply bind_ok in H. destruct H as [[[[res0 cp0] err0] c0] [H1 H2]]. inversion H2; subst. eapply Hp; exact H1.
      - apply bind_ok in H. destruct H as [[[stop st] c0] [H1 H2]]. apply Hs in H1.
        destruct (s_res st); inversion H2; subst; exact H1.
      - apply bind_ok in H. destruct H as [[[[res0 cp0] err0] c0] [H1 H2]]. apply Hp in H1.
        destruct err0; [inversion H2; subst; exact H1|]. destruct res0; inversion H2; subst; exact H1.
      - destruct (skip_ws inp pos m) as [pos1 wserr].
        apply bind_ok in H. destruct H as [[[[res0 cp0] err0] c0] [H1 H2]]. apply Hp in H1.
        assert (Hc : cache (match cerr c0 with
                            | Some ce => if (epos ce =? pos1) && is_notfound ce then set_error c0 (Some (mk_err pos (ecause ce))) else c0
                            | None => c0 end) = cache c0).
        { destruct (cerr c0) as [ce|]; [|reflexivity]. destruct ((epos ce =? pos1) && is_notfound ce); reflexivity. }
        destruct err0 as [x|]; [destruct wserr as [w|]; [destruct (pos1 <? epos x); [|destruct (is_notfound x)]|]|destruct wserr as [w|]];
          inversion H2; subst; rewrite Hc; exact H1.
      - apply bind_ok in H. destruct H as [[[[res0 cp0] err0] c0] [H1 H2]]. apply Hp in H1.
        destruct err0 as [x|]; [inversion H2; subst; exact H1|].
        destruct (trim_nodes inp m res0 None) as [r' w]. destruct w; inversion H2; subst; exact H1.
      - apply bind_ok in H. destruct H as [[[[res0 cp0] err0] c0] [H1 H2]]. inversion H2; subst. eapply Hp; exact H1.
      - apply bind_ok in H. destruct H as [[[[res0 cp0] err0] c0] [H1 H2]]. apply Hp in H1.
        destruct err0; [inversion H2; subst; exact H1|].
        destruct res0 as [|n ns]; [inversion H2; subst; exact H1|].
        destruct n as [| | |t i [|ch [|ch2 cs]] p r]; destruct ns; inversion H2; subst; exact H1.
    Qed.
    Lemma alts_loop_cm q d stk lrc pos m prefix ns : forall st c stop st' c',
      alts_loop rs q d stk lrc pos m prefix ns st c = Ok (stop, st', c') -> incl (cache c) (cache c').
    Proof.
      induction ns as [|n ns IH]; intros st c stop st' c' H; cbn [alts_loop] in H.
      - inversion H; subst; apply incl_refl.
      - apply bind_ok in H. destruct H as [[[stop1 st1] c1] [H1 H2]]. apply Hs in H1.
        destruct stop1; [inversion H2; subst; exact H1|]. apply IH in H2. eapply incl_tran; [exact H1|exact H2].
    Qed.
    Lemma seq_step_cm : scm (seq_step rp rs).
    Proof.
      intros q d c stk lrc pos m st stop st' c' H. unfold seq_step in H.
      apply bind_ok in H. destruct H as [[[[res cp] err] c1] [H1 H2]].
      assert (Hc1 : incl (cache c) (cache c1)).
      { destruct (seq_lookup (q_kind q) (q_ps q) d); [apply Hp in H1; exact H1|inversion H1; subst; apply incl_refl]. }
      destruct res as [|n res].
      - destruct (seq_lencheck (q_kind q) (length (q_ps q)) d); [|inversion H2; subst; exact Hc1].
        cbn [s_nodes] in H2. destruct (s_nodes st); inversion H2; subst; exact Hc1.
      - apply alts_loop_cm in H2. eapply incl_tran; [exact Hc1|exact H2].
    Qed.
  End Step.

  Theorem cache_mono_inv : forall f, pcm (parse inp rules f) /\ scm (seqp inp rules f).
  Proof.
    induction f as [|f [IHp IHs]].
    - split; repeat intro; discriminate.
    - split.
      + intros e c stk lrc pos. rewrite parse_S. apply parse_step_cm; assumption.
      + intros q d c stk lrc pos m st. rewrite seqp_S. apply seq_step_cm; assumption.
  Qed.
End CacheMono.

(* ---- 4b: with an EMPTY left-recursion context a Memoize is never curtailed: it returns
   what it stores, unconditionally reusable.  If no such entry of the (final) cache is
   empty-handed, [ne1] expressions return a node or an error. ---- *)
Definition r_live (r : result) : Prop := r_nodes r <> [] \/ r_err r <> None.
(* the entries Memoize may reuse in ANY context are never empty-handed *)
Definition cache_live0 (l : list ((N * N) * result)) : Prop :=
  forall k r, In (k, r) l -> reusable (r_lrc r) [] = true -> r_live r.

Section Ne1.
  Variable rules : list pexpr.
  Fixpoint ne1 (e : pexpr) : bool :=
    match e with
    | PTerm _ | PEmpty | PEnd => true
    | PRef k => match nth_N rules k with Some (PMemo _ _) => true | _ => false end
    | PMemo _ _ => true
    | PAny ps | PChoice ps => existsb ne1 ps
    | POpt _ | PName _ _ => true
    | PSeq k _ _ _ ps => kind_ok k (length ps) && forallb ne1 ps
    | PSingle p => ne1 p
    | PSuppress _ | PLeftTrim _ _ | PRightTrim _ _ => false
    end.
  (* the operands a sequence can reach at a depth >= 1 are [ne1] *)
  Definition tail_ne1 (k : seqkind) (ps : list pexpr) : bool :=
    match k with SMany _ | SSepBy _ => forallb ne1 ps | _ => forallb ne1 (tl ps) end.
  Lemma tail_ne1_lookup k ps d p :
    tail_ne1 k ps = true -> d <> 0%nat -> seq_lookup k ps d = Some p -> ne1 p = true.
  Proof.
    intros Ht Hd Hl.
    assert (Hall : forallb ne1 ps = true -> ne1 p = true).
    { intros Ha. rewrite forallb_forall in Ha. apply Ha. eapply seq_lookup_in; exact Hl. }
    assert (Htl : forallb ne1 (tl ps) = true -> nth_error ps d = Some p -> ne1 p = true).
    { intros Ha Hn. destruct d as [|d']; [congruence|]. destruct ps as [|x ps]; [discriminate|].
      cbn [tl nth_error] in *. rewrite forallb_forall in Ha. apply Ha. eapply nth_error_In; exact Hn. }
    destruct k; cbn [tail_ne1 seq_lookup] in *; auto.
  Qed.
  (* the fragment of the coverage theorem: no trimming, no SuppressError, and every sequence
     has a well-shaped operand list whose non-first operands are [ne1] *)
  Fixpoint ok4s (e : pexpr) : bool :=
    match e with
    | PTerm _ | PEmpty | PEnd | PRef _ => true
    | PMemo _ p | POpt p | PName _ p | PSingle p => ok4s p
    | PAny ps | PChoice ps => forallb ok4s ps
    | PSeq k _ _ _ ps => kind_ok k (length ps) && tail_ne1 k ps && forallb ok4s ps
    | PSuppress _ | PLeftTrim _ _ | PRightTrim _ _ => false
    end.
  (* ... and every terminal is a rune terminal (the coverage invariant itself, [cov_inv], needs only
     the shape part [ok4s]; the rune terminals are needed by the justification invariant it uses) *)
  Definition ok4 (e : pexpr) : bool := ok4s e && runes_only e.
End Ne1.

Section NE1.
  Variable inp : input.
  Variable rules : list pexpr.
  Variable final : list ((N * N) * result).
  Hypothesis Hfinal : cache_live0 final.

  Definition pne1 (rp : ptype) : Prop :=
    forall e c stk pos res cp err c',
      ne1 rules e = true -> rp e c stk [] pos = Ok (res, cp, err, c') -> incl (cache c') final ->
      res <> [] \/ err <> None.
  Definition sne1 (rs : stype) : Prop :=
    forall q d c stk pos m st stop st' c',
      forallb (ne1 rules) (q_ps q) = true -> kind_ok (q_kind q) (length (q_ps q)) = true -> dbound q d ->
      rs q d c stk [] pos m st = Ok (stop, st', c') -> incl (cache c') final -> live st'.

  Section Step.
    Variable rp : ptype.
    Variable rs : stype.
    Hypothesis Hcp : pcm rp.
    Hypothesis Hcs : scm rs.
    Hypothesis Hp : pne1 rp.
    Hypothesis Hs : sne1 rs.

    Lemma any_loop_ne1 stk pos ps : forall c cp res err nf res' cp' err' c',
      res <> [] \/ some2 err nf \/ existsb (ne1 rules) ps = true ->
      any_loop rp stk [] pos ps c cp res err nf = Ok (res', cp', err', c') -> incl (cache c') final ->
      res' <> [] \/ err' <> None.
    Proof.
      induction ps as [|p ps IH]; intros c cp res err nf res' cp' err' c' Hpre H Hfin; cbn [any_loop] in H.
      - destruct res as [|n res]; inversion H; subst.
        + right. apply or_nf_some. destruct Hpre as [Hpre|[Hpre|Hpre]]; [congruence|exact Hpre|discriminate].
        + left. discriminate.
      - apply bind_ok in H. destruct H as [[[[res2 cp2] err2] c2] [H1 H2]].
        destruct (alt_err pos err nf err2) as [err1 nf1] eqn:Ea.
        assert (Hc2 : incl (cache c2) final).
        { eapply incl_tran; [|exact Hfin]. eapply any_loop_cm; [exact Hcp|exact H2]. }
        refine (IH _ _ _ _ _ _ _ _ _ _ H2 Hfin).
        destruct Hpre as [Hpre|[Hpre|Hpre]].
        + left. apply append_node_nonnil_l. exact Hpre.
        + right. left. apply (alt_err_some _ _ _ _ _ _ Ea). left. exact Hpre.
        + cbn [existsb] in Hpre. apply orb_true_iff in Hpre. destruct Hpre as [Hpre|Hpre]; [|right; right; exact Hpre].
          destruct (Hp _ _ _ _ _ _ _ _ Hpre H1 Hc2) as [Hr|He].
          * left. apply append_node_nonnil_r. exact Hr.
          * right. left. apply (alt_err_some _ _ _ _ _ _ Ea). right. exact He.
    Qed.

    Lemma choice_loop_ne1 stk pos ps : forall c cp err nf res' cp' err' c',
      some2 err nf \/ existsb (ne1 rules) ps = true ->
      choice_loop rp stk [] pos ps c cp err nf = Ok (res', cp', err', c') -> incl (cache c') final ->
      res' <> [] \/ err' <> None.
    Proof.
      induction ps as [|p ps IH]; intros c cp err nf res' cp' err' c' Hpre H Hfin; cbn [choice_loop] in H.
      - inversion H; subst. right. apply or_nf_some. destruct Hpre as [Hpre|Hpre]; [exact Hpre|discriminate].
      - apply bind_ok in H. destruct H as [[[[res2 cp2] err2] c2] [H1 H2]].
        destruct (alt_err pos err nf err2) as [err1 nf1] eqn:Ea.
        destruct res2 as [|n2 res2]; [|inversion H2; subst; left; discriminate].
        assert (Hc2 : incl (cache c2) final).
        { eapply incl_tran; [|exact Hfin]. eapply choice_loop_cm; [exact Hcp|exact H2]. }
        refine (IH _ _ _ _ _ _ _ _ _ H2 Hfin).
        destruct Hpre as [Hpre|Hpre].
        + left. apply (alt_err_some _ _ _ _ _ _ Ea). left. exact Hpre.
        + cbn [existsb] in Hpre. apply orb_true_iff in Hpre. destruct Hpre as [Hpre|Hpre]; [|right; exact Hpre].
          destruct (Hp _ _ _ _ _ _ _ _ Hpre H1 Hc2) as [Hr|He]; [congruence|].
          left. apply (alt_err_some _ _ _ _ _ _ Ea). right. exact He.
    Qed.

    Lemma parse_step_ne1 : pne1 (parse_step inp rules rp rs).
    Proof.
      intros e c stk pos res cp err c' Hne H Hfin.
      destruct e; cbn [ne1] in Hne; try discriminate; cbn [parse_step] in H.
      - (* PTerm: rune and literal terminals alike *)
        destruct (term_parse inp t pos) as [res0 err0] eqn:E. inversion H; subst.
        destruct res as [|n res]; [right; exact (term_parse_nil _ _ _ _ E)|left; discriminate].
      - (* PEmpty *) inversion H; subst. left; discriminate.
      - (* PEnd *) destruct (is_eof inp pos); inversion H; subst; [left|right]; discriminate.
      - (* PRef *) destruct (nth_N rules k) as [body|]; [|discriminate].
        destruct body as [| | | |idx0 body0| | | | | | | | |]; try discriminate. exact (Hp (PMemo idx0 body0) _ _ _ _ _ _ _ eq_refl H Hfin).
      - (* PMemo *) destruct (cache_get c idx pos []) as [r|] eqn:E.
        + inversion H; subst. apply (Hfinal (idx, pos) r).
          * apply Hfin. apply cache_get_in in E. exact E.
          * unfold cache_get in E. destruct (cache_find (idx, pos) (cache c')) as [r0|]; [|discriminate].
            destruct (reusable (r_lrc r0) []) eqn:Er; inversion E; subst. exact Er.
        + change (map_get idx []) with 0 in H.
          replace (remaining inp pos + 1 <? 0) with false in H by (symmetry; apply N.ltb_ge; lia).
          apply bind_ok in H. destruct H as [[[[nodes cp0] err0] c0] [H1 H2]]. inversion H2; subst.
          apply (Hfinal (idx, pos) {| r_lrc := map_filter cp []; r_cp := cp; r_err := err; r_nodes := res |}).
          * apply Hfin. left. reflexivity.
          * reflexivity.
      - (* PAny *) apply (any_loop_ne1 _ _ _ _ _ _ _ _ _ _ _ _ (or_intror (or_intror Hne)) H Hfin).
      - (* PChoice *) apply (choice_loop_ne1 _ _ _ _ _ _ _ _ _ _ _ (or_intror Hne) H Hfin).
      - (* POpt *) apply bind_ok in H. destruct H as [[[[res0 cp0] err0] c0] [H1 H2]]. inversion H2; subst.
        left. apply append_node_nonnil_r. discriminate.
      - (* PSeq *) apply andb_true_iff in Hne. destruct Hne as [Hk Hall].
        apply bind_ok in H. destruct H as [[[stop st] c0] [H1 H2]].
        assert (Hc0 : incl (cache c0) final).
        { destruct (s_res st); inversion H2; subst; exact Hfin. }
        assert (Hl : live st).
        { refine (Hs _ _ _ _ _ _ _ _ _ _ _ _ _ H1 Hc0); cbn [q_kind q_ps]; [exact Hall|exact Hk|].
          unfold dbound. cbn [q_kind q_ps]. destruct k; try exact I; lia. }
        destruct (s_res st) as [|n ns] eqn:Er; inversion H2; subst; [|left; discriminate].
        right. destruct Hl as [Hl|Hl]; [congruence|].
        destruct (s_err st) as [x|]; [|congruence]. destruct name; discriminate.
      - (* PName *) apply bind_ok in H. destruct H as [[[[res0 cp0] err0] c0] [H1 H2]].
        destruct err0 as [x|]; [inversion H2; subst; right; discriminate|].
        destruct res0 as [|n ns]; inversion H2; subst; [right|left]; discriminate.
      - (* PSingle *) apply bind_ok in H. destruct H as [[[[res0 cp0] err0] c0] [H1 H2]].
        assert (Hc0 : incl (cache c0) final).
        { destruct err0; [inversion H2; subst; exact Hfin|]. destruct res0 as [|n ns]; [inversion H2; subst; exact Hfin|].
          destruct n as [| | |t i [|ch [|ch2 cs]] p r]; destruct ns; inversion H2; subst; exact Hfin. }
        destruct (Hp _ _ _ _ _ _ _ _ Hne H1 Hc0) as [Hr|He].
        + destruct err0 as [x|]; [inversion H2; subst; right; discriminate|]. left.
          destruct res0 as [|n ns]; [congruence|].
          destruct n as [| | |t i [|ch [|ch2 cs]] p r]; destruct ns; inversion H2; subst; discriminate.
        + destruct err0 as [x|]; [|congruence]. inversion H2; subst. right; discriminate.
    Qed.

    Lemma alts_loop_ne1 q d stk pos m prefix ns : forall st c stop st' c',
      forallb (ne1 rules) (q_ps q) = true -> kind_ok (q_kind q) (length (q_ps q)) = true -> dbound q (S d) ->
      ns <> [] \/ live st ->
      alts_loop rs q d stk [] pos m prefix ns st c = Ok (stop, st', c') -> incl (cache c') final -> live st'.
    Proof.
      induction ns as [|n ns IH]; intros st c stop st' c' Hall Hk Hd Hpre H Hfin; cbn [alts_loop] in H.
      - inversion H; subst. destruct Hpre as [Hpre|Hpre]; [congruence|exact Hpre].
      - apply bind_ok in H. destruct H as [[[stop1 st1] c1] [H1 H2]].
        assert (Hc1 : incl (cache c1) final).
        { destruct stop1; [inversion H2; subst; exact Hfin|].
          eapply incl_tran; [|exact Hfin]. eapply alts_loop_cm; [exact Hcs|exact H2]. }
        replace (if pos <? node_rpos n then [] else []) with (@nil (N * N)) in H1 by (destruct (pos <? node_rpos n); reflexivity).
        apply (Hs _ _ _ _ _ _ _ _ _ _ Hall Hk Hd) in H1; [|exact Hc1].
        destruct stop1; [inversion H2; subst; exact H1|].
        apply (IH _ _ _ _ _ Hall Hk Hd (or_intror H1) H2 Hfin).
    Qed.

    Lemma seq_step_ne1 : sne1 (seq_step rp rs).
    Proof.
      intros q d c stk pos m st stop st' c' Hall Hk Hd H Hfin.
      unfold seq_step in H. apply bind_ok in H. destruct H as [[[[res cp] err] c1] [H1 H2]].
      destruct (seq_lookup (q_kind q) (q_ps q) d) as [p|] eqn:El.
      - assert (Hnep : ne1 rules p = true) by (rewrite forallb_forall in Hall; apply Hall; eapply seq_lookup_in; exact El).
        assert (Hc1 : incl (cache c1) final).
        { destruct res as [|n res].
          - destruct (seq_lencheck (q_kind q) (length (q_ps q)) d); [|inversion H2; subst; exact Hfin].
            cbn [s_nodes] in H2. destruct (s_nodes st); inversion H2; subst; exact Hfin.
          - eapply incl_tran; [|exact Hfin]. eapply alts_loop_cm; [exact Hcs|exact H2]. }
        destruct (Hp _ _ _ _ _ _ _ _ Hnep H1 Hc1) as [Hr|He].
        + destruct res as [|n res]; [congruence|].
          refine (alts_loop_ne1 _ _ _ _ _ _ _ _ _ _ _ _ Hall Hk (dbound_S _ _ _ Hd El) _ H2 Hfin); left; discriminate.
        + destruct err as [x|]; [|congruence].
          destruct res as [|n res].
          * destruct (seq_lencheck (q_kind q) (length (q_ps q)) d).
            -- cbn [s_nodes s_res s_err s_cp] in H2.
               destruct (s_nodes st); inversion H2; subst; right; cbn [s_err]; apply keep_max_some.
            -- inversion H2; subst. right. cbn [s_err]. apply keep_max_some.
          * refine (alts_loop_ne1 _ _ _ _ _ _ _ _ _ _ _ _ Hall Hk (dbound_S _ _ _ Hd El) _ H2 Hfin); left; discriminate.
      - inversion H1; subst. rewrite (lookup_none_lencheck q d El Hk Hd) in H2.
        cbn [s_nodes s_res s_err s_cp] in H2.
        destruct (s_nodes st); inversion H2; subst; left; cbn [s_res]; apply append_node_nonnil_r; discriminate.
    Qed.
  End Step.

  Theorem ne1_inv : forall f, pne1 (parse inp rules f) /\ sne1 (seqp inp rules f).
  Proof.
    induction f as [|f [IHp IHs]].
    - split; repeat intro; discriminate.
    - destruct (cache_mono_inv inp rules f) as [Hcp Hcs]. split.
      + intros e c stk pos. rewrite parse_S. apply parse_step_ne1; assumption.
      + intros q d c stk pos m st. rewrite seqp_S. apply seq_step_ne1; assumption.
  Qed.
End NE1.

(* ---- 4c: coverage ---- *)
Definition le_err (a b : option perr) : Prop := forall x, a = Some x -> exists y, b = Some y /\ epos x <= epos y.
Lemma le_err_refl a : le_err a a.
Proof. intros x Hx. exists x. split; [exact Hx|lia]. Qed.
Lemma le_err_trans a b c : le_err a b -> le_err b c -> le_err a c.
Proof.
  intros H1 H2 x Hx. destruct (H1 x Hx) as [y [Hy Hle]]. destruct (H2 y Hy) as [z [Hz Hle2]].
  exists z. split; [exact Hz|lia].
Qed.
Lemma le_err_none a : le_err None a.
Proof. intros x Hx. discriminate. Qed.
Lemma keep_max_ge_old old new : le_err old (keep_max old new).
Proof.
  unfold keep_max, better. destruct new as [e|]; [|apply le_err_refl].
  destruct old as [o|]; [|apply le_err_none].
  destruct (epos o <=? epos e) eqn:E; [|apply le_err_refl].
  apply N.leb_le in E. intros x Hx. inversion Hx; subst. exists e. split; [reflexivity|exact E].
Qed.
Lemma keep_max_ge_new old new : le_err new (keep_max old new).
Proof.
  unfold keep_max, better. destruct new as [e|]; [|apply le_err_none].
  destruct old as [o|]; [|apply le_err_refl].
  destruct (epos o <=? epos e) eqn:E; [apply le_err_refl|].
  apply N.leb_gt in E. intros x Hx. inversion Hx; subst. exists o. split; [reflexivity|lia].
Qed.
Lemma alt_err_le pos err nf err2 err1 nf1 : alt_err pos err nf err2 = (err1, nf1) -> le_err err err1.
Proof.
  unfold alt_err, better. destruct err2 as [e2|]; [|intros H; inversion H; apply le_err_refl].
  destruct err as [o|].
  - destruct (epos o <=? epos e2) eqn:E; [|intros H; inversion H; apply le_err_refl].
    apply N.leb_le in E.
    destruct ((pos <? epos e2) || negb (is_notfound e2)); intros H; inversion H; subst; [|apply le_err_refl].
    intros x Hx. inversion Hx; subst. exists e2. split; [reflexivity|exact E].
  - intros _. apply le_err_none.
Qed.
Lemma alt_err_cover pos err nf e2 err1 nf1 :
  alt_err pos err nf (Some e2) = (err1, nf1) -> (exists x, err1 = Some x /\ epos e2 <= epos x) \/ epos e2 <= pos.
Proof.
  unfold alt_err, better. destruct err as [o|].
  - destruct (epos o <=? epos e2) eqn:E.
    + destruct (pos <? epos e2) eqn:E2; cbn [orb].
      * intros H; inversion H; subst. left. exists e2. split; [reflexivity|lia].
      * apply N.ltb_ge in E2. intros _. right. exact E2.
    + apply N.leb_gt in E. intros H; inversion H; subst. left. exists o. split; [reflexivity|lia].
  - destruct (pos <? epos e2) eqn:E2; cbn [orb].
    + intros H; inversion H; subst. left. exists e2. split; [reflexivity|lia].
    + apply N.ltb_ge in E2. intros _. right. exact E2.
Qed.
Lemma max_err_ge_new old x : exists y, max_err old (Some x) = Some y /\ epos x <= epos y.
Proof.
  unfold max_err. destruct old as [o|]; [|exists x; split; [reflexivity|lia]].
  destruct (epos o <=? epos x) eqn:E; [exists x; split; [reflexivity|lia]|].
  apply N.leb_gt in E. exists o. split; [reflexivity|lia].
Qed.
Lemma rename_epos nm pos e : epos (rename_err nm pos e) = epos e.
Proof.
  unfold rename_err. destruct ((epos e =? pos) && is_notfound e) eqn:E; [|reflexivity].
  apply andb_true_iff in E. destruct E as [E _]. apply N.eqb_eq in E. cbn [mk_err epos]. symmetry; exact E.
Qed.

(* the attempt position q is covered: by the error in hand, by the context's furthest error,
   by lying at or before the start p0, or by a result in hand that ends at or after it *)
Definition cov (q : N) (eo : option perr) (c : ctx) (p0 : N) (ns : list node) : Prop :=
  (exists x, eo = Some x /\ q <= epos x) \/ (exists y, cerr c = Some y /\ q <= epos y) \/ q <= p0 \/
  (exists n, In n ns /\ q <= node_rpos n).
Lemma cov_mono q q' eo eo' c c' p0 ns ns' :
  q' <= q -> le_err eo eo' -> le_err (cerr c) (cerr c') -> incl ns ns' -> cov q eo c p0 ns -> cov q' eo' c' p0 ns'.
Proof.
  intros Hq He Hc Hn [[x [H1 H2]]|[[y [H1 H2]]|[H|[n [H1 H2]]]]].
  - destruct (He x H1) as [x' [G1 G2]]. left. exists x'. split; [exact G1|lia].
  - destruct (Hc y H1) as [y' [G1 G2]]. right. left. exists y'. split; [exact G1|lia].
  - right. right. left. lia.
  - right. right. right. exists n. split; [apply Hn; exact H1|lia].
Qed.
Lemma cov_set_error q eo c p0 ns : cov q eo c p0 ns -> cov q None (set_error c eo) p0 ns.
Proof.
  intros [[x [H1 H2]]|[[y [H1 H2]]|[H|H]]].
  - subst eo. right. left. cbn [set_error cerr]. destruct (max_err_ge_new (cerr c) x) as [y [G1 G2]].
    exists y. split; [exact G1|lia].
  - right. left. cbn [set_error cerr]. destruct (max_err_ge (cerr c) eo y H1) as [y' [G1 G2]].
    exists y'. split; [exact G1|lia].
  - right. right. left. exact H.
  - right. right. right. exact H.
Qed.
Lemma ext_cerr c c' : ext c c' -> le_err (cerr c) (cerr c').
Proof. intros [_ [_ H]]. exact H. Qed.

(* q is the position of a failed attempt logged between c and c' *)
Definition newf (c c' : ctx) (q : N) : Prop := exists k d, g_fails c' = d ++ g_fails c /\ In (q, k) d.
Lemma newf_same c c' q : g_fails c' = g_fails c -> newf c c' q -> False.
Proof.
  intros E [k [d [H Hin]]]. rewrite E in H.
  assert (d = []) by (apply (app_inv_tail (g_fails c)); symmetry; exact H). subst d. destruct Hin.
Qed.
Lemma newf_eq a a' b b' q : g_fails a = g_fails a' -> g_fails b = g_fails b' -> newf a b q -> newf a' b' q.
Proof. intros E1 E2 [k [d [H Hin]]]. exists k, d. rewrite <- E1, <- E2. split; assumption. Qed.
Lemma newf_split a b c q : ext a b -> ext b c -> newf a c q -> newf a b q \/ newf b c q.
Proof.
  intros [[d1 H1] _] [[d2 H2] _] [k [d [H Hin]]].
  assert (d = d2 ++ d1).
  { apply (app_inv_tail (g_fails a)). rewrite <- H, H2, H1, app_assoc. reflexivity. }
  subst d. apply in_app_or in Hin. destruct Hin as [Hin|Hin]; [right; exists k, d2|left; exists k, d1]; split; assumption.
Qed.
Lemma newf_log_fail c p k q : newf c (log_fail c p k) q -> q = p.
Proof.
  intros [k' [d [H Hin]]]. cbn [log_fail g_fails] in H.
  assert (d = [(p, k)]) by (apply (app_inv_tail (g_fails c)); symmetry; exact H). subst d.
  destruct Hin as [E|[]]. inversion E; reflexivity.
Qed.
Lemma newf_all c q k : In (q, k) (g_fails c) -> newf ctx0 c q.
Proof. intros H. exists k, (g_fails c). split; [cbn [ctx0 g_fails]; rewrite app_nil_r; reflexivity|exact H]. Qed.

Lemma emit_inv (l : list node) (st2 : seqst) (c1 : ctx) stop st' c' :
  match l with [] => Ok (false, st2, c1) | lastn :: _ => Ok (is_eof_node lastn, st2, c1) end = Ok (stop, st', c') ->
  st' = st2 /\ c' = c1 /\ (stop = true -> exists lastn pre, l = lastn :: pre /\ is_eof_node lastn = true).
Proof.
  destruct l as [|lastn pre]; intros H; inversion H; subst; (split; [reflexivity|]; split; [reflexivity|]); [discriminate|].
  intros E. exists lastn, pre. split; [reflexivity|exact E].
Qed.

Definition rcov (err : option perr) (res : list node) : list node := match err with None => res | Some _ => [] end.
Lemma rcov_incl err res : incl (rcov err res) res.
Proof. destruct err; [intros x []|apply incl_refl]. Qed.

Section Cov.
  Variable inp : input.
  Variable rules : list pexpr.
  Variable Nm : list N -> Prop.
  Variable strict : bool.
  Variable final : list ((N * N) * result).
  Hypothesis Hrules : forall k body, nth_N rules k = Some body -> okx Nm strict body.
  Hypothesis Hrules4 : forall k body, nth_N rules k = Some body -> ok4s rules body = true.
  Ltac lia := try clear Hrules; try clear Hrules4; Lia.lia.   (* see Section Just *)
  Hypothesis Hfinal : cache_live0 final.
  Notation hi := (i_offset inp + i_len inp).
  Notation cj' := (cj inp Nm strict).
  Notation err_ok' := (err_ok inp Nm strict).
  Notation st_ok' := (st_ok inp Nm strict).

  Definition pc (rp : ptype) : Prop :=
    forall e c stk lrc pos res cp err c',
      ok4s rules e = true -> okx Nm strict e -> cj' c -> in_file inp pos ->
      rp e c stk lrc pos = Ok (res, cp, err, c') -> incl (cache c') final ->
      forall q, newf c c' q -> cov q err c' pos (rcov err res).

  Definition sc (rs : stype) : Prop :=
    forall q d c stk lrc pos m st stop st' c' pos0,
      kind_ok (q_kind q) (length (q_ps q)) = true -> tail_ne1 rules (q_kind q) (q_ps q) = true ->
      forallb (ok4s rules) (q_ps q) = true -> okxs Nm strict (q_ps q) -> dbound q d ->
      cj' c -> in_file inp pos -> pos0 <= pos -> (d = 0%nat -> pos = pos0) -> (pos0 < pos -> lrc = []) ->
      st_ok' (g_fails c) pos0 st -> (forall n, In n (s_nodes st) -> nb inp n) ->
      (match s_nodes st with [] => True | n :: _ => node_rpos n = pos end) ->
      rs q d c stk lrc pos m st = Ok (stop, st', c') -> incl (cache c') final ->
      le_err (s_err st) (s_err st') /\ incl (s_res st) (s_res st') /\
      (stop = true -> exists n, In n (s_res st') /\ hi <= node_rpos n) /\
      (forall x, newf c c' x -> cov x (s_err st') c' pos0 (s_res st')) /\
      cov pos (s_err st') c' pos0 (s_res st').

  Section Step.
    Variable rp : ptype.
    Variable rs : stype.
    Hypothesis Hne1 : pne1 rules final rp.
    Hypothesis Hj : pj inp Nm strict rp.
    Hypothesis Hsj : sj inp Nm strict rs.
    Hypothesis Hc : pc rp.
    Hypothesis Hcs : sc rs.

    Lemma any_loop_cov cs stk lrc pos ps : forall c cp res err nf res' cp' err' c',
      forallb (ok4s rules) ps = true -> okxs Nm strict ps -> cj' c -> in_file inp pos -> ext cs c ->
      res_ok inp pos res -> err_ok' (g_fails c) pos err -> err_ok' (g_fails c) pos nf ->
      (forall q, newf cs c q -> cov q err c pos res) ->
      any_loop rp stk lrc pos ps c cp res err nf = Ok (res', cp', err', c') -> incl (cache c') final ->
      forall q, newf cs c' q -> cov q err' c' pos (rcov err' res').
    Proof.
      induction ps as [|p ps IH]; intros c cp res err nf res' cp' err' c' Ho4 Hok Hcj Hin Hext Hres Herr Hnf Hinv H Hfin q Hq;
        cbn [any_loop] in H.
      - destruct res as [|n res]; inversion H; subst.
        + specialize (Hinv q Hq). replace (rcov (or_nf err nf) []) with (@nil node) by (destruct (or_nf err nf); reflexivity).
          refine (cov_mono _ _ _ _ _ _ _ _ _ (N.le_refl q) _ (le_err_refl _) (incl_refl _) Hinv).
          unfold or_nf. destruct err; [apply le_err_refl|apply le_err_none].
        + cbn [rcov]. apply cov_set_error. apply Hinv. eapply newf_eq; [reflexivity| |exact Hq]. reflexivity.
      - apply bind_ok in H. destruct H as [[[[res2 cp2] err2] c2] [H1 H2]].
        cbn [forallb] in Ho4. apply andb_true_iff in Ho4. destruct Ho4 as [Ho4p Ho4ps]. destruct Hok as [Hokp Hokps].
        destruct (Hj p (reg_call c) stk lrc pos res2 cp2 err2 c2 Hokp Hcj Hin H1) as [He2 [Hc2 [Hres2 Herr2]]].
        destruct (alt_err pos err nf err2) as [err1 nf1] eqn:Ea.
        destruct (alt_err_from _ _ _ _ _ _ Ea) as [Ee En].
        assert (Hx : ext c c2) by exact He2.
        assert (Hres12 : res_ok inp pos (append_node res res2)).
        { intros n Hn. apply app_node_inv in Hn. destruct Hn as [Hn|Hn]; [apply Hres|apply Hres2]; exact Hn. }
        assert (Herr1 : err_ok' (g_fails c2) pos err1).
        { destruct Ee as [-> | ->]; [eapply err_ok_ext; eassumption|exact Herr2]. }
        assert (Hnf1 : err_ok' (g_fails c2) pos nf1).
        { destruct En as [-> | ->]; [eapply err_ok_ext; eassumption|exact Herr2]. }
        destruct (any_loop_just inp Nm strict rp Hj stk lrc pos ps c2 _ _ _ _ _ _ _ _ Hokps Hc2 Hin Hres12 Herr1 Hnf1 H2)
          as [Hrest _].
        assert (Hfin2 : incl (cache c2) final).
        { eapply incl_tran; [|exact Hfin]. exact (proj1 (proj2 Hrest)). }
        refine (IH c2 _ _ _ _ _ _ _ _ Ho4ps Hokps Hc2 Hin (ext_trans _ _ _ Hext Hx) Hres12 Herr1 Hnf1 _ H2 Hfin q Hq).
        intros q' Hq'. destruct (newf_split cs c c2 q' Hext Hx Hq') as [Hold|Hnew].
        + refine (cov_mono _ _ _ _ _ _ _ _ _ (N.le_refl q') (alt_err_le _ _ _ _ _ _ Ea) (ext_cerr _ _ Hx) _ (Hinv q' Hold)).
          intros n Hn. apply append_node_in_l. exact Hn.
        + assert (Hnew' : newf (reg_call c) c2 q') by (eapply newf_eq; [| |exact Hnew]; reflexivity).
          pose proof (Hc p (reg_call c) stk lrc pos res2 cp2 err2 c2 Ho4p Hokp Hcj Hin H1 Hfin2 q' Hnew') as Hcov.
          destruct Hcov as [[x [G1 G2]]|[G|[G|[n [G1 G2]]]]].
          * subst err2. destruct (alt_err_cover _ _ _ _ _ _ Ea) as [[y [F1 F2]]|F].
            -- left. exists y. split; [exact F1|lia].
            -- right. right. left. lia.
          * right. left. exact G.
          * right. right. left. exact G.
          * right. right. right. exists n. split; [|exact G2]. apply append_node_in_r. apply (rcov_incl err2 res2). exact G1.
    Qed.

    Lemma choice_loop_cov cs stk lrc pos ps : forall c cp err nf res' cp' err' c',
      forallb (ok4s rules) ps = true -> okxs Nm strict ps -> cj' c -> in_file inp pos -> ext cs c ->
      err_ok' (g_fails c) pos err -> err_ok' (g_fails c) pos nf ->
      (forall q, newf cs c q -> cov q err c pos []) ->
      choice_loop rp stk lrc pos ps c cp err nf = Ok (res', cp', err', c') -> incl (cache c') final ->
      forall q, newf cs c' q -> cov q err' c' pos (rcov err' res').
    Proof.
      induction ps as [|p ps IH]; intros c cp err nf res' cp' err' c' Ho4 Hok Hcj Hin Hext Herr Hnf Hinv H Hfin q Hq;
        cbn [choice_loop] in H.
      - inversion H; subst. specialize (Hinv q Hq).
        replace (rcov (or_nf err nf) []) with (@nil node) by (destruct (or_nf err nf); reflexivity).
        refine (cov_mono _ _ _ _ _ _ _ _ _ (N.le_refl q) _ (le_err_refl _) (incl_refl _) Hinv).
        unfold or_nf. destruct err; [apply le_err_refl|apply le_err_none].
      - apply bind_ok in H. destruct H as [[[[res2 cp2] err2] c2] [H1 H2]].
        cbn [forallb] in Ho4. apply andb_true_iff in Ho4. destruct Ho4 as [Ho4p Ho4ps]. destruct Hok as [Hokp Hokps].
        destruct (Hj p (reg_call c) stk lrc pos res2 cp2 err2 c2 Hokp Hcj Hin H1) as [He2 [Hc2 [Hres2 Herr2]]].
        destruct (alt_err pos err nf err2) as [err1 nf1] eqn:Ea.
        destruct (alt_err_from _ _ _ _ _ _ Ea) as [Ee En].
        assert (Hx : ext c c2) by exact He2.
        assert (Herr1 : err_ok' (g_fails c2) pos err1).
        { destruct Ee as [-> | ->]; [eapply err_ok_ext; eassumption|exact Herr2]. }
        assert (Hnf1 : err_ok' (g_fails c2) pos nf1).
        { destruct En as [-> | ->]; [eapply err_ok_ext; eassumption|exact Herr2]. }
        assert (Hfin2 : incl (cache c2) final).
        { destruct res2 as [|n2 r2].
          - destruct (choice_loop_just inp Nm strict rp Hj stk lrc pos ps c2 _ _ _ _ _ _ _ Hokps Hc2 Hin Herr1 Hnf1 H2) as [Hrest _].
            eapply incl_tran; [|exact Hfin]. exact (proj1 (proj2 Hrest)).
          - inversion H2; subst. exact Hfin. }
        (* the invariant after this alternative, with this alternative's results in hand *)
        assert (Hinv2 : forall q', newf cs c2 q' -> cov q' err1 c2 pos res2).
        { intros q' Hq'. destruct (newf_split cs c c2 q' Hext Hx Hq') as [Hold|Hnew].
          - refine (cov_mono _ _ _ _ _ _ _ _ _ (N.le_refl q') (alt_err_le _ _ _ _ _ _ Ea) (ext_cerr _ _ Hx) _ (Hinv q' Hold)).
            intros n [].
          - assert (Hnew' : newf (reg_call c) c2 q') by (eapply newf_eq; [| |exact Hnew]; reflexivity).
            pose proof (Hc p (reg_call c) stk lrc pos res2 cp2 err2 c2 Ho4p Hokp Hcj Hin H1 Hfin2 q' Hnew') as Hcov.
            destruct Hcov as [[x [G1 G2]]|[G|[G|[n [G1 G2]]]]].
            + subst err2. destruct (alt_err_cover _ _ _ _ _ _ Ea) as [[y [F1 F2]]|F].
              * left. exists y. split; [exact F1|lia].
              * right. right. left. lia.
            + right. left. exact G.
            + right. right. left. exact G.
            + right. right. right. exists n. split; [|exact G2]. apply (rcov_incl err2 res2). exact G1. }
        destruct res2 as [|n2 r2].
        + exact (IH c2 _ _ _ _ _ _ _ Ho4ps Hokps Hc2 Hin (ext_trans _ _ _ Hext Hx) Herr1 Hnf1 Hinv2 H2 Hfin q Hq).
        + inversion H2; subst. cbn [rcov]. apply cov_set_error. apply Hinv2.
          eapply newf_eq; [reflexivity| |exact Hq]. reflexivity.
    Qed.

    Lemma cov_start q err c pos ns : q = pos -> cov q err c pos ns.
    Proof. intros ->. right. right. left. lia. Qed.

    Lemma parse_step_cov : pc (parse_step inp rules rp rs).
    Proof.
      intros e c stk lrc pos res cp err c' Ho4 Hok Hcj Hin H Hfin q Hq.
      destruct e; cbn [ok4s] in Ho4; try discriminate; cbn [okx] in Hok; cbn [parse_step] in H.
      - (* PTerm *)
        destruct (term_parse inp t pos) as [res0 err0] eqn:E. inversion H; subst.
        destruct res as [|n res]; [destruct err as [x|]|]; try (exfalso; eapply newf_same; [|exact Hq]; reflexivity).
        apply cov_start. eapply newf_log_fail; exact Hq.
      - (* PEmpty *) inversion H; subst. exfalso; eapply newf_same; [|exact Hq]; reflexivity.
      - (* PEnd *) destruct (is_eof inp pos); inversion H; subst.
        + exfalso; eapply newf_same; [|exact Hq]; reflexivity.
        + apply cov_start. eapply newf_log_fail; exact Hq.
      - (* PRef *) destruct (nth_N rules k) as [body|] eqn:E; [|discriminate].
        exact (Hc body c stk lrc pos res cp err c' (Hrules4 k body E) (Hrules k body E) Hcj Hin H Hfin q Hq).
      - (* PMemo *) destruct (cache_get c idx pos lrc) as [r|].
        + inversion H; subst. exfalso; eapply newf_same; [|exact Hq]; reflexivity.
        + destruct (remaining inp pos + 1 <? map_get idx lrc).
          * inversion H; subst. exfalso; eapply newf_same; [|exact Hq]; reflexivity.
          * apply bind_ok in H. destruct H as [[[[nodes cp0] err0] c0] [H1 H2]]. inversion H2; subst.
            assert (Hfin0 : incl (cache c0) final) by (intros x Hx; apply Hfin; right; exact Hx).
            assert (Hq0 : newf (log_body c idx pos (1 + count_active idx pos stk)) c0 q)
              by (eapply newf_eq; [| |exact Hq]; reflexivity).
            pose proof (Hc e (log_body c idx pos (1 + count_active idx pos stk)) _ _ pos res cp err c0 Ho4 Hok Hcj Hin H1 Hfin0 q Hq0) as Hcov.
            refine (cov_mono _ _ _ _ _ _ _ _ _ (N.le_refl q) (le_err_refl _) _ (incl_refl _) Hcov). apply le_err_refl.
      - (* PAny *)
        refine (any_loop_cov c stk lrc pos ps c [] [] None None res cp err c' Ho4 Hok Hcj Hin (ext_refl c) _ _ _ _ H Hfin q Hq).
        + intros n [].
        + apply err_ok_none.
        + apply err_ok_none.
        + intros q' Hq'. exfalso. eapply newf_same; [|exact Hq']. reflexivity.
      - (* PChoice *)
        refine (choice_loop_cov c stk lrc pos ps c [] None None res cp err c' Ho4 Hok Hcj Hin (ext_refl c) _ _ _ H Hfin q Hq).
        + apply err_ok_none.
        + apply err_ok_none.
        + intros q' Hq'. exfalso. eapply newf_same; [|exact Hq']. reflexivity.
      - (* POpt *)
        apply bind_ok in H. destruct H as [[[[res0 cp0] err0] c0] [H1 H2]]. inversion H2; subst.
        pose proof (Hc e c stk lrc pos res0 cp err c' Ho4 Hok Hcj Hin H1 Hfin q Hq) as Hcov.
        refine (cov_mono _ _ _ _ _ _ _ _ _ (N.le_refl q) (le_err_refl _) (le_err_refl _) _ Hcov).
        destruct err; [apply incl_refl|]. cbn [rcov]. intros n Hn. apply append_node_in_l. exact Hn.
      - (* PSeq *)
        apply andb_true_iff in Ho4. destruct Ho4 as [Ho4 Ho4s]. apply andb_true_iff in Ho4. destruct Ho4 as [Hk Hn1].
        destruct Hok as [Hnm Hoks].
        apply bind_ok in H. destruct H as [[[stop st] c0] [H1 H2]].
        assert (Hfin0 : incl (cache c0) final) by (destruct (s_res st); inversion H2; subst; exact Hfin).
        assert (Hq0 : newf c c0 q).
        { destruct (s_res st); inversion H2; subst; [exact Hq|]. eapply newf_eq; [reflexivity| |exact Hq]. reflexivity. }
        destruct (Hcs {| q_kind := k; q_ip := ip; q_single := single; q_ps := ps |} 0%nat c stk lrc pos true
                      {| s_cp := []; s_res := []; s_err := None; s_nodes := [] |} stop st c0 pos)
          as [_ [_ [_ [Hnew _]]]]; cbn [q_kind q_ps s_nodes s_res s_err]; try assumption; try lia.
        { unfold dbound. cbn [q_kind q_ps]. destruct k; try exact I; lia. }
        { split; [intros n []|apply err_ok_none]. }
        { intros n []. }
        specialize (Hnew q Hq0).
        destruct (s_res st) as [|n ns] eqn:Er; inversion H2; subst.
        + replace (rcov _ []) with (@nil node) by (destruct name; destruct (s_err st); reflexivity).
          refine (cov_mono _ _ _ _ _ _ _ _ _ (N.le_refl q) _ (le_err_refl _) (incl_refl _) Hnew).
          destruct name as [nm|]; [|apply le_err_refl]. destruct (s_err st) as [x|]; [|apply le_err_none].
          intros y Hy. inversion Hy; subst y. exists (rename_err nm pos x). split; [reflexivity|rewrite rename_epos; lia].
        + cbn [rcov]. apply cov_set_error. exact Hnew.
      - (* PName *)
        destruct Hok as [Hnm [Hg Hoke]].
        apply bind_ok in H. destruct H as [[[[res0 cp0] err0] c0] [H1 H2]].
        assert (E0 : c0 = c').
        { destruct err0; [inversion H2; reflexivity|]. destruct res0; inversion H2; reflexivity. }
        subst c0.
        pose proof (Hc e c stk lrc pos res0 cp0 err0 c' Ho4 Hoke Hcj Hin H1 Hfin q Hq) as Hcov.
        destruct err0 as [x|].
        + inversion H2; subst. cbn [rcov] in *.
          refine (cov_mono _ _ _ _ _ _ _ _ _ (N.le_refl q) _ (le_err_refl _) (incl_refl _) Hcov).
          intros y Hy. inversion Hy; subst y. exists (rename_err name pos x). split; [reflexivity|rewrite rename_epos; lia].
        + destruct res0 as [|n ns]; inversion H2; subst; cbn [rcov] in *.
          * refine (cov_mono _ _ _ _ _ _ _ _ _ (N.le_refl q) (le_err_none _) (le_err_refl _) (incl_refl _) Hcov).
          * exact Hcov.
      - (* PSingle *)
        apply bind_ok in H. destruct H as [[[[res0 cp0] err0] c0] [H1 H2]].
        assert (E0 : c0 = c').
        { destruct err0; [inversion H2; reflexivity|]. destruct res0 as [|n ns]; [inversion H2; reflexivity|].
          destruct n as [| | |t i [|ch [|ch2 cs]] p r]; destruct ns; inversion H2; reflexivity. }
        subst c0.
        destruct (Hj e c stk lrc pos res0 cp0 err0 c' Hok Hcj Hin H1) as [_ [_ [Hres0 _]]].
        pose proof (Hc e c stk lrc pos res0 cp0 err0 c' Ho4 Hok Hcj Hin H1 Hfin q Hq) as Hcov.
        destruct err0 as [x|]; [inversion H2; subst; exact Hcov|]. cbn [rcov] in Hcov.
        assert (Hgen : res = res0 -> err = None -> cov q err c' pos (rcov err res)).
        { intros -> ->. exact Hcov. }
        destruct res0 as [|n ns]; [inversion H2; subst; apply Hgen; reflexivity|].
        destruct n as [| | |t i [|ch [|ch2 cs]] p r]; destruct ns; inversion H2; subst; try (apply Hgen; reflexivity).
        cbn [rcov]. refine (cov_mono _ _ _ _ _ _ _ _ _ (N.le_refl q) (le_err_refl _) (le_err_refl _) (incl_refl _) _).
        destruct Hcov as [G|[G|[G|[n [[G1|[]] G2]]]]]; [left; exact G|right; left; exact G|right; right; left; exact G|].
        subst n. right. right. right. exists ch. split; [left; reflexivity|].
        destruct (Hres0 _ (or_introl eq_refl)) as [F1 _]. cbn [nb node_rpos] in F1, G2.
        destruct F1 as [_ [_ [F3 _]]]. rewrite <- F3. exact G2.
    Qed.
    Lemma alts_loop_cov q d stk lrc pos m prefix pos0 ns : forall st c stop st' c',
      kind_ok (q_kind q) (length (q_ps q)) = true -> tail_ne1 rules (q_kind q) (q_ps q) = true ->
      forallb (ok4s rules) (q_ps q) = true -> okxs Nm strict (q_ps q) -> dbound q (S d) ->
      pos0 <= pos -> (pos0 < pos -> lrc = []) ->
      (forall n, In n prefix -> nb inp n) -> (forall n, In n ns -> nb inp n /\ pos <= node_rpos n) ->
      cj' c -> st_ok' (g_fails c) pos0 st ->
      alts_loop rs q d stk lrc pos m prefix ns st c = Ok (stop, st', c') -> incl (cache c') final ->
      le_err (s_err st) (s_err st') /\ incl (s_res st) (s_res st') /\
      (stop = true -> exists n, In n (s_res st') /\ hi <= node_rpos n) /\
      (forall x, newf c c' x -> cov x (s_err st') c' pos0 (s_res st')) /\
      (forall n, In n ns -> cov (node_rpos n) (s_err st') c' pos0 (s_res st')).
    Proof.
      induction ns as [|n ns IH]; intros st c stop st' c' Hk Hn1 Ho4 Hok Hd Hle Hlrc Hpre Hns Hcj Hst H Hfin;
        cbn [alts_loop] in H.
      - inversion H; subst. split; [apply le_err_refl|]. split; [apply incl_refl|]. split; [discriminate|].
        split; [|intros n []]. intros x Hx. exfalso. eapply newf_same; [|exact Hx]. reflexivity.
      - apply bind_ok in H. destruct H as [[[stop1 st1] c1] [H1 H2]].
        destruct (Hns n (or_introl eq_refl)) as [Hnb Hnle].
        pose proof (nb_in_file inp n Hnb) as Hinn.
        set (stn := {| s_cp := s_cp st; s_res := s_res st; s_err := s_err st; s_nodes := n :: prefix |}) in *.
        assert (Hstn : st_ok' (g_fails c) pos0 stn) by exact Hst.
        assert (Hnodes : forall n', In n' (s_nodes stn) -> nb inp n').
        { intros n' [E|Hn']; [subst; exact Hnb|apply Hpre; exact Hn']. }
        assert (Hle' : pos0 <= node_rpos n) by lia.
        destruct (Hsj q (S d) c stk (if pos <? node_rpos n then [] else lrc) (node_rpos n)
                      (if pos <? node_rpos n then false else m) stn stop1 st1 c1 pos0 Hok Hcj Hinn Hle' Hstn Hnodes eq_refl H1)
          as [He1 [Hc1 Hst1]].
        assert (Hrest : stop1 = false -> ext c1 c').
        { intros ->. exact (proj1 (alts_loop_just inp Nm strict rs Hsj q d stk lrc pos m prefix pos0 ns st1 c1 stop st' c'
                                     Hok Hle Hpre (fun n' Hn' => Hns n' (or_intror Hn')) Hc1 Hst1 H2)). }
        assert (Hfin1 : incl (cache c1) final).
        { destruct stop1; [inversion H2; subst; exact Hfin|].
          eapply incl_tran; [|exact Hfin]. exact (proj1 (proj2 (Hrest eq_refl))). }
        assert (Hlrc' : pos0 < node_rpos n -> (if pos <? node_rpos n then [] else lrc) = []).
        { intros Hlt. destruct (pos <? node_rpos n) eqn:E; [reflexivity|]. apply N.ltb_ge in E. apply Hlrc. lia. }
        destruct (Hcs q (S d) c stk (if pos <? node_rpos n then [] else lrc) (node_rpos n)
                      (if pos <? node_rpos n then false else m) stn stop1 st1 c1 pos0 Hk Hn1 Ho4 Hok Hd Hcj Hinn Hle' (fun E => match Nat.neq_succ_0 d E with end) Hlrc'
                      Hstn Hnodes eq_refl H1 Hfin1) as [A1 [A2 [A3 [A4 A5]]]].
        destruct stop1.
        + inversion H2; subst. split; [exact A1|]. split; [exact A2|]. split; [exact A3|]. split; [exact A4|].
          intros n' Hn'. destruct (A3 eq_refl) as [nz [Hz1 Hz2]].
          right. right. right. exists nz. split; [exact Hz1|].
          destruct (Hns n' Hn') as [Hnb' _]. destruct (nb_in_file inp n' Hnb') as [_ Hhi]. lia.
        + specialize (Hrest eq_refl).
          destruct (IH st1 c1 stop st' c' Hk Hn1 Ho4 Hok Hd Hle Hlrc Hpre (fun n' Hn' => Hns n' (or_intror Hn')) Hc1 Hst1 H2 Hfin)
            as [B1 [B2 [B3 [B4 B5]]]].
          split; [eapply le_err_trans; [exact A1|exact B1]|]. split; [eapply incl_tran; [exact A2|exact B2]|].
          split; [exact B3|]. split.
          * intros x Hx. destruct (newf_split c c1 c' x He1 Hrest Hx) as [Hold|Hnew]; [|apply B4; exact Hnew].
            exact (cov_mono _ _ _ _ _ _ _ _ _ (N.le_refl x) B1 (ext_cerr _ _ Hrest) B2 (A4 x Hold)).
          * intros n' [E|Hn']; [|apply B5; exact Hn']. subst n'.
            exact (cov_mono _ _ _ _ _ _ _ _ _ (N.le_refl _) B1 (ext_cerr _ _ Hrest) B2 A5).
    Qed.

    Lemma cov_le q q' eo c p0 ns : q' <= q -> cov q eo c p0 ns -> cov q' eo c p0 ns.
    Proof. intros Hq. apply cov_mono; [exact Hq|apply le_err_refl|apply le_err_refl|apply incl_refl]. Qed.

    Lemma seq_step_cov : sc (seq_step rp rs).
    Proof.
      intros q d c stk lrc pos m st stop st' c' pos0 Hk Hn1 Ho4 Hok Hd Hcj Hin Hle Hd0 Hlrc Hst Hnodes Hlink H Hfin.
      pose proof Hst as [Hres Herr].
      unfold seq_step in H. apply bind_ok in H. destruct H as [[[[res cp] err] c1] [H1 H2]].
      cbn [s_nodes s_res s_err s_cp] in H2.
      (* what Part 2 says about the element's call *)
      assert (Hsub : ext c c1 /\ cj' c1 /\ res_ok inp pos res /\ err_ok' (g_fails c1) pos err).
      { destruct (seq_lookup (q_kind q) (q_ps q) d) as [p|] eqn:El.
        - exact (Hj p (reg_call c) stk lrc pos res cp err c1 (okxs_in Nm strict _ _ Hok (seq_lookup_in _ _ _ _ El)) Hcj Hin H1).
        - inversion H1; subst. split; [apply ext_refl|]. split; [exact Hcj|]. split; [intros n []|apply err_ok_none]. }
      destruct Hsub as [He1 [Hc1 [Hres1 Herr1]]].
      assert (Hst1 : st_ok' (g_fails c1) pos0
                       {| s_cp := if m then set_union (s_cp st) cp else s_cp st; s_res := s_res st;
                          s_err := keep_max (s_err st) err; s_nodes := s_nodes st |}).
      { split; [exact Hres|]. cbn [s_err]. destruct (keep_max_from (s_err st) err) as [E|E]; rewrite E.
        - eapply err_ok_ext; eassumption.
        - intros x Hx. destruct (Herr1 x Hx) as [G1 G2]. split; [exact G1|lia]. }
      assert (Hfin1 : incl (cache c1) final).
      { destruct res as [|n res].
        - destruct (seq_lencheck (q_kind q) (length (q_ps q)) d); [|inversion H2; subst; exact Hfin].
          destruct (s_nodes st); inversion H2; subst; exact Hfin.
        - eapply incl_tran; [|exact Hfin].
          exact (proj1 (proj2 (proj1 (alts_loop_just inp Nm strict rs Hsj q d stk lrc pos m (s_nodes st) pos0 (n :: res) _ c1 stop st' c'
                                        Hok Hle Hnodes Hres1 Hc1 Hst1 H2)))). }
      (* coverage of the attempts made by the element's call, in terms of its own answer *)
      assert (Hel : forall x, newf c c1 x -> cov x err c1 pos (rcov err res)).
      { intros x Hx. destruct (seq_lookup (q_kind q) (q_ps q) d) as [p|] eqn:El.
        - assert (Hx' : newf (reg_call c) c1 x) by (eapply newf_eq; [| |exact Hx]; reflexivity).
          rewrite forallb_forall in Ho4.
          exact (Hc p (reg_call c) stk lrc pos res cp err c1 (Ho4 p (seq_lookup_in _ _ _ _ El))
                    (okxs_in Nm strict _ _ Hok (seq_lookup_in _ _ _ _ El)) Hcj Hin H1 Hfin1 x Hx').
        - inversion H1; subst. exfalso. eapply newf_same; [|exact Hx]. reflexivity. }
      (* attempts of the element covered by the accumulated error, the context, or its own start *)
      assert (Hel0 : res = [] -> forall eo cc ns, le_err (keep_max (s_err st) err) eo -> le_err (cerr c1) (cerr cc) ->
                     cov pos eo cc pos0 ns -> forall x, newf c c1 x -> cov x eo cc pos0 ns).
      { intros -> eo cc ns Heo Hcc Hpc x Hx. specialize (Hel x Hx).
        replace (rcov err []) with (@nil node) in Hel by (destruct err; reflexivity).
        destruct Hel as [[y [G1 G2]]|[[y [G1 G2]]|[G|[nn [[] _]]]]].
        - destruct (keep_max_ge_new (s_err st) err y G1) as [z [F1 F2]]. destruct (Heo z F1) as [w [W1 W2]].
          left. exists w. split; [exact W1|lia].
        - destruct (Hcc y G1) as [w [W1 W2]]. right. left. exists w. split; [exact W1|lia].
        - apply (cov_le pos); [exact G|exact Hpc]. }
      destruct res as [|n res].
      - (* the element found nothing *)
        destruct (seq_lencheck (q_kind q) (length (q_ps q)) d) eqn:Elen.
        + destruct (handle_result_nb inp q pos (s_nodes st) Hin Hnodes Hlink) as [Hnb Hrp].
          destruct (emit_inv _ _ _ _ _ _ H2) as [E1 [E2 E3]]. subst st' c'. cbn [s_res s_err].
          assert (Hb1 : stop = true -> hi <= pos).
          { intros Hs. destruct (E3 Hs) as [lastn [pre [Esn Heof]]]. rewrite Esn in Hlink. rewrite <- Hlink.
            apply (nb_eof inp lastn); [apply Hnodes; rewrite Esn; left; reflexivity|exact Heof]. }
          assert (Hpc : cov pos (keep_max (s_err st) err) c1 pos0 (append_node (s_res st) [handle_result q pos (rev (s_nodes st))])).
          { right. right. right. exists (handle_result q pos (rev (s_nodes st))).
            split; [apply append_node_in_r; left; reflexivity|lia]. }
          split; [apply keep_max_ge_old|].
          split; [intros x Hx; apply append_node_in_l; exact Hx|].
          split; [intros Hs; exists (handle_result q pos (rev (s_nodes st)));
                  split; [apply append_node_in_r; left; reflexivity|rewrite Hrp; apply Hb1; exact Hs]|].
          split; [|exact Hpc].
          apply (Hel0 eq_refl); [apply le_err_refl|apply le_err_refl|exact Hpc].
        + inversion H2; subst. cbn [s_res s_err].
          assert (Hpc : cov pos (keep_max (s_err st) err) c' pos0 (s_res st)).
          { destruct err as [x|].
            - destruct (Herr1 x eq_refl) as [_ G]. destruct (keep_max_ge_new (s_err st) (Some x) x eq_refl) as [z [F1 F2]].
              left. exists z. split; [exact F1|lia].
            - destruct (N.eq_dec pos pos0) as [E|E]; [right; right; left; lia|].
              exfalso. assert (Hl : lrc = []) by (apply Hlrc; lia). subst lrc.
              destruct (seq_lookup (q_kind q) (q_ps q) d) as [p|] eqn:El.
              + assert (Hd1 : d <> 0%nat) by (intros E0; apply E; apply Hd0; exact E0).
                destruct (Hne1 p (reg_call c) stk pos [] cp None c' (tail_ne1_lookup rules _ _ _ _ Hn1 Hd1 El) H1 Hfin) as [G|G]; congruence.
              + rewrite (lookup_none_lencheck q d El Hk Hd) in Elen. discriminate. }
          split; [apply keep_max_ge_old|]. split; [apply incl_refl|]. split; [discriminate|]. split; [|exact Hpc].
          apply (Hel0 eq_refl); [apply le_err_refl|apply le_err_refl|exact Hpc].
      - (* the element returned alternatives *)
        assert (HdS : dbound q (S d)).
        { destruct (seq_lookup (q_kind q) (q_ps q) d) as [p|] eqn:El; [exact (dbound_S q d p Hd El)|inversion H1]. }
        destruct (alts_loop_just inp Nm strict rs Hsj q d stk lrc pos m (s_nodes st) pos0 (n :: res) _ c1 stop st' c'
                    Hok Hle Hnodes Hres1 Hc1 Hst1 H2) as [He2 _].
        destruct (alts_loop_cov q d stk lrc pos m (s_nodes st) pos0 (n :: res) _ c1 stop st' c'
                    Hk Hn1 Ho4 Hok HdS Hle Hlrc Hnodes Hres1 Hc1 Hst1 H2 Hfin) as [B1 [B2 [B3 [B4 B5]]]].
        cbn [s_res s_err] in B1, B2.
        assert (Hpc : cov pos (s_err st') c' pos0 (s_res st')).
        { apply (cov_le (node_rpos n)); [exact (proj2 (Hres1 n (or_introl eq_refl)))|apply B5; left; reflexivity]. }
        split; [eapply le_err_trans; [apply (keep_max_ge_old (s_err st) err)|exact B1]|]. split; [exact B2|]. split; [exact B3|].
        split; [|exact Hpc].
        intros x Hx. destruct (newf_split c c1 c' x He1 He2 Hx) as [Hold|Hnew]; [|apply B4; exact Hnew].
        destruct (Hel x Hold) as [[y [G1 G2]]|[G|[G|[nn [G1 G2]]]]].
        + destruct (keep_max_ge_new (s_err st) err y G1) as [z [F1 F2]]. destruct (B1 z F1) as [w [W1 W2]].
          left. exists w. split; [exact W1|lia].
        + destruct G as [y [G1 G2]]. destruct (ext_cerr _ _ He2 y G1) as [w [W1 W2]]. right. left. exists w. split; [exact W1|lia].
        + apply (cov_le pos); [exact G|exact Hpc].
        + apply (cov_le (node_rpos nn)); [exact G2|]. apply B5. apply (rcov_incl err (n :: res)). exact G1.
    Qed.
  End Step.

  Theorem cov_inv : forall f, pc (parse inp rules f) /\ sc (seqp inp rules f).
  Proof.
    induction f as [|f [IHp IHs]].
    - split; repeat intro; discriminate.
    - destruct (ne1_inv inp rules final Hfinal f) as [Hn1 _].
      destruct (ne_inv inp rules f) as [Hne _].
      destruct (just_inv inp rules Nm strict Hrules f) as [Hj Hsj]. split.
      + intros e c stk lrc pos. rewrite parse_S. apply parse_step_cov; assumption.
      + intros q d c stk lrc pos m st. rewrite seqp_S. apply seq_step_cov; assumption.
  Qed.
End Cov.

(* ---- 4d: parsley.Parse loses no failed attempt ---- *)
Lemma just_nows inp Nm strict F x :
  (forall q k, In (q, k) F -> in_file inp q /\ nows k) -> just inp Nm strict F x -> is_wserr x = false.
Proof.
  intros HF [_ [H|[[nm [t [H _]]]|[_ [nm [H _]]]]]]; unfold is_wserr.
  - destruct (HF _ _ H) as [_ Hn]. destruct (ecause x); [reflexivity|destruct Hn|reflexivity].
  - rewrite H. reflexivity.
  - rewrite H. reflexivity.
Qed.

Section TopCov.
  Variable inp : input.
  Variable rules : list pexpr.
  Variable Nm : list N -> Prop.
  Variable strict : bool.
  Hypothesis Hrules : forall k body, nth_N rules k = Some body -> okx Nm strict body.
  Hypothesis Hrules4 : forall k body, nth_N rules k = Some body -> ok4s rules body = true.
  Ltac lia := try clear Hrules; try clear Hrules4; Lia.lia.   (* see Section Just *)

  Lemma parse_top_cov fuel r0 e c :
    ok4s rules r0 = true -> okx Nm strict r0 -> cache_live0 (cache c) ->
    parse_top inp rules fuel r0 = Ok (TopErr e c) ->
    forall q k, In (q, k) (g_fails c) -> q <= epos e.
  Proof.
    intros Ho4 Hok Hlive H q k Hq. unfold parse_top, run in H. apply bind_ok in H.
    destruct H as [[[[nodes cp] err] c0] [H1 H2]].
    assert (Ec : c0 = c).
    { destruct err as [x|]; [destruct nodes; inversion H2; reflexivity|].
      destruct nodes; [|discriminate]. destruct (cerr c0); inversion H2; reflexivity. }
    subst c0.
    destruct (proj1 (just_inv inp rules Nm strict Hrules fuel) r0 ctx0 [] [] (i_offset inp) nodes cp err c
                Hok (cj_ctx0 inp Nm strict) (in_file_start inp) H1) as [_ [[Hce [_ Hf]] [_ Herr]]].
    pose proof (proj1 (cov_inv inp rules Nm strict (cache c) Hrules Hrules4 Hlive fuel) r0 ctx0 [] [] (i_offset inp)
                  nodes cp err c Ho4 Hok (cj_ctx0 inp Nm strict) (in_file_start inp) H1 (incl_refl _) q (newf_all c q k Hq)) as Hcov.
    (* the error Parse picks is at least as far as the one it is given and as the context's *)
    assert (Hpick : forall x, is_wserr x = false ->
              let p := if is_wserr x then x else match cerr c with Some ce => if epos x <? epos ce then ce else x | None => x end in
              epos x <= epos p /\ forall ce, cerr c = Some ce -> epos ce <= epos p).
    { intros x Hw. rewrite Hw. destruct (cerr c) as [ce|]; [|split; [lia|intros ce Hce'; discriminate]].
      destruct (epos x <? epos ce) eqn:E.
      - apply N.ltb_lt in E. split; [lia|]. intros ce' Hce'. inversion Hce'; subst. lia.
      - apply N.ltb_ge in E. split; [lia|]. intros ce' Hce'. inversion Hce'; subst. exact E. }
    destruct err as [x|].
    - assert (E : Ok (TopErr (if is_wserr x then x else match cerr c with Some ce => if epos x <? epos ce then ce else x | None => x end) c)
                  = Ok (TopErr e c)) by (destruct nodes; exact H2).
      inversion E as [E']. destruct (Herr x eq_refl) as [Hjx Hlo].
      destruct (Hpick x (just_nows inp Nm strict _ x Hf Hjx)) as [P1 P2]. cbn zeta in P1, P2.
      destruct Hcov as [[y [G1 G2]]|[[y [G1 G2]]|[G|[n [[] _]]]]].
      + inversion G1; subst y. lia.
      + specialize (P2 y G1). lia.
      + lia.
    - destruct nodes as [|n ns]; [|discriminate]. cbn [rcov] in Hcov.
      destruct (cerr c) as [ce|] eqn:Ec.
      + cbn match in H2. inversion H2 as [E'].
        pose proof (Hce ce eq_refl) as Hjce. destruct (Hpick ce (just_nows inp Nm strict _ ce Hf Hjce)) as [P1 P2].
        cbn zeta in P1, P2.
        destruct Hcov as [[y [G1 G2]]|[[y [G1 G2]]|[G|[n [[] _]]]]]; [discriminate| |].
        * rewrite Ec in G1. inversion G1; subst y. lia.
        * destruct Hjce as [[Hlo _] _]. lia.
      + inversion H2; subst. cbn [mk_err epos].
        destruct Hcov as [[y [G1 G2]]|[[y [G1 G2]]|[G|[n [[] _]]]]]; [discriminate|congruence|exact G].
  Qed.
End TopCov.

Lemma ok4s_trimfree rules e : ok4s rules e = true -> trimfree e = true.
Proof.
  induction e using pexpr_ind'; cbn [ok4s trimfree]; intros Ho; try reflexivity; try discriminate; try (apply IHe; exact Ho).
  - apply forallb_forall. intros p Hp. rewrite forallb_forall in Ho. apply H; [exact Hp|apply Ho; exact Hp].
  - apply forallb_forall. intros p Hp. rewrite forallb_forall in Ho. apply H; [exact Hp|apply Ho; exact Hp].
  - apply andb_true_iff in Ho. destruct Ho as [_ Ho].
    apply forallb_forall. intros p Hp. rewrite forallb_forall in Ho. apply H; [exact Hp|apply Ho; exact Hp].
Qed.
Lemma ok4_ok4s rules e : ok4 rules e = true -> ok4s rules e = true.
Proof. unfold ok4. intros H. apply andb_true_iff in H. exact (proj1 H). Qed.
Lemma ok4_runes_only rules e : ok4 rules e = true -> runes_only e = true.
Proof. unfold ok4. intros H. apply andb_true_iff in H. exact (proj2 H). Qed.
Lemma ok4_notrim rules e : ok4 rules e = true -> notrim e = true.
Proof.
  unfold ok4, notrim. intros H. apply andb_true_iff in H. destruct H as [H1 H2].
  rewrite (ok4s_trimfree rules e H1), H2. reflexivity.
Qed.
Lemma sentence_ok4s rules root : ok4s rules root = true -> ok4s rules (sentence root) = true.
Proof. intros H. unfold sentence. cbn [ok4s kind_ok length tail_ne1 tl forallb ne1]. rewrite H. reflexivity. Qed.

(* THEOREM (C06, second half, conditional form).  No failed attempt lies beyond the reported
   position, provided [cache_live0 (cache c)]: no result that Memoize stored for reuse in
   every context is empty-handed (neither node nor error) — a hypothesis about the run,
   checkable on its final cache, which is exactly what K2 violates — plus the syntactic side
   conditions [ok4] (no SuppressError, which drops errors by design; operand lists of the
   shape the library's constructors produce; non-first sequence operands are terminals,
   references to memoized rules, or built from them).  "Every Any/Choice carries a Name" is
   NOT needed (the repaired Any/Choice keep the own-position not-found error).
   Part 5 discharges [cache_live0] for productive grammars ([C06_furthest]);
   [C06_furthest_static] below discharges it for grammars whose Memoize bodies are
   syntactically never empty-handed. *)
Theorem C06_no_attempt_lost inp rules fuel root e c :
  ok4 rules root = true -> forallb (ok4 rules) rules = true -> cache_live0 (cache c) ->
  parse_top inp rules fuel (sentence root) = Ok (TopErr e c) ->
  forall q k, In (q, k) (g_fails c) -> q <= epos e.
Proof.
  intros Ho Hos Hlive H.
  assert (Hr4 : forall k body, nth_N rules k = Some body -> ok4s rules body = true).
  { intros k body Hk. apply ok4_ok4s. rewrite forallb_forall in Hos. apply Hos. eapply nth_error_In; exact Hk. }
  assert (Hns : forallb notrim rules = true).
  { apply forallb_forall. intros p Hp. apply (ok4_notrim rules). rewrite forallb_forall in Hos. apply Hos; exact Hp. }
  destruct (grammar_okx false root rules (ok4_notrim _ _ Ho) Hns ltac:(discriminate)) as [Hok Hrules].
  exact (parse_top_cov inp rules _ false Hrules Hr4 fuel (sentence root) e c (sentence_ok4s _ _ (ok4_ok4s _ _ Ho)) (sentence_okx _ _ _ Hok) Hlive H).
Qed.

Theorem C06_furthest_partial inp rules fuel root e c :
  ok4 rules root = true -> forallb (ok4 rules) rules = true ->
  guarded root = true -> forallb guarded rules = true -> ne root = true ->
  cache_live0 (cache c) ->
  parse_top inp rules fuel (sentence root) = Ok (TopErr e c) ->
  (exists k, In (epos e, k) (g_fails c)) /\ (forall q k, In (q, k) (g_fails c) -> q <= epos e).
Proof.
  intros Ho Hos Hg Hgs Hne Hlive H. split; [|exact (C06_no_attempt_lost inp rules fuel root e c Ho Hos Hlive H)].
  assert (Hns : forallb notrim rules = true).
  { apply forallb_forall. intros p Hp. apply (ok4_notrim rules). rewrite forallb_forall in Hos. apply Hos; exact Hp. }
  exact (C06_not_beyond_guarded inp rules fuel root e c (ok4_notrim _ _ Ho) Hns Hg Hgs Hne H).
Qed.

(* ---- 4e: a static sufficient condition for [cache_live0]: every Memoize body is [ne] ---- *)
Fixpoint mne (e : pexpr) : bool :=
  match e with
  | PTerm _ | PEmpty | PEnd | PRef _ => true
  | PMemo _ p => ne p && mne p
  | POpt p | PName _ p | PSuppress p | PSingle p | PLeftTrim _ p | PRightTrim _ p => mne p
  | PAny ps | PChoice ps | PSeq _ _ _ _ ps => forallb mne ps
  end.
Definition all_live (l : list ((N * N) * result)) : Prop := forall k r, In (k, r) l -> r_live r.

Section Live.
  Variable inp : input.
  Variable rules : list pexpr.
  Hypothesis Hrules : forall k body, nth_N rules k = Some body -> mne body = true.
  Ltac lia := try clear Hrules; Lia.lia.   (* see Section Just *)

  Definition pl (rp : ptype) : Prop :=
    forall e c stk lrc pos res cp err c',
      mne e = true -> all_live (cache c) -> rp e c stk lrc pos = Ok (res, cp, err, c') -> all_live (cache c').
  Definition sl (rs : stype) : Prop :=
    forall q d c stk lrc pos m st stop st' c',
      forallb mne (q_ps q) = true -> all_live (cache c) -> rs q d c stk lrc pos m st = Ok (stop, st', c') -> all_live (cache c').

  Section Step.
    Variable rp : ptype.
    Variable rs : stype.
    Hypothesis Hne : pne rp.
    Hypothesis Hp : pl rp.
    Hypothesis Hs : sl rs.

    Lemma any_loop_live stk lrc pos ps : forall c cp res err nf res' cp' err' c',
      forallb mne ps = true -> all_live (cache c) ->
      any_loop rp stk lrc pos ps c cp res err nf = Ok (res', cp', err', c') -> all_live (cache c').
    Proof.
      induction ps as [|p ps IH]; intros c cp res err nf res' cp' err' c' Hm Hl H; cbn [any_loop] in H.
      - destruct res; inversion H; subst; exact Hl.
      - apply bind_ok in H. destruct H as [[[[res2 cp2] err2] c2] [H1 H2]].
        cbn [forallb] in Hm. apply andb_true_iff in Hm. destruct Hm as [Hmp Hmps].
        destruct (alt_err pos err nf err2) as [err1 nf1].
        apply (Hp p (reg_call c) _ _ _ _ _ _ _ Hmp Hl) in H1. exact (IH _ _ _ _ _ _ _ _ _ Hmps H1 H2).
    Qed.
    Lemma choice_loop_live stk lrc pos ps : forall c cp err nf res' cp' err' c',
      forallb mne ps = true -> all_live (cache c) ->
      choice_loop rp stk lrc pos ps c cp err nf = Ok (res', cp', err', c') -> all_live (cache c').
    Proof.
      induction ps as [|p ps IH]; intros c cp err nf res' cp' err' c' Hm Hl H; cbn [choice_loop] in H.
      - inversion H; subst; exact Hl.
      - apply bind_ok in H. destruct H as [[[[res2 cp2] err2] c2] [H1 H2]].
        cbn [forallb] in Hm. apply andb_true_iff in Hm. destruct Hm as [Hmp Hmps].
        destruct (alt_err pos err nf err2) as [err1 nf1].
        apply (Hp p (reg_call c) _ _ _ _ _ _ _ Hmp Hl) in H1.
        destruct res2; [exact (IH _ _ _ _ _ _ _ _ Hmps H1 H2)|inversion H2; subst; exact H1].
    Qed.
    Lemma parse_step_live : pl (parse_step inp rules rp rs).
    Proof.
      intros e c stk lrc pos res cp err c' Hm Hl H. destruct e; cbn [mne] in Hm; cbn [parse_step] in H.
      - destruct (term_parse inp t pos) as [r0 e0]. inversion H; subst. destruct res; [destruct err|]; exact Hl.
      - inversion H; subst; exact Hl.
      - destruct (is_eof inp pos); inversion H; subst; exact Hl.
      - destruct (nth_N rules k) as [body|] eqn:E; [|discriminate]. exact (Hp _ _ _ _ _ _ _ _ _ (Hrules k body E) Hl H).
      - apply andb_true_iff in Hm. destruct Hm as [Hn Hm].
        destruct (cache_get c idx pos lrc); [inversion H; subst; exact Hl|].
        destruct (remaining inp pos + 1 <? map_get idx lrc); [inversion H; subst; exact Hl|].
        apply bind_ok in H. destruct H as [[[[nodes cp0] err0] c0] [H1 H2]]. inversion H2; subst.
        pose proof (Hne _ _ _ _ _ _ _ _ _ Hn H1) as Hlive.
        apply (Hp e (log_body c idx pos (1 + count_active idx pos stk)) _ _ _ _ _ _ _ Hm Hl) in H1.
        intros k r [E|Hin]; [inversion E; subst; exact Hlive|exact (H1 k r Hin)].
      - eapply any_loop_live; eassumption.
      - eapply choice_loop_live; eassumption.
      - apply bind_ok in H. destruct H as [[[[res0 cp0] err0] c0] [H1 H2]]. inversion H2; subst.
        exact (Hp _ _ _ _ _ _ _ _ _ Hm Hl H1).
      - apply bind_ok in H. destruct H as [[[stop st] c0] [H1 H2]].
        refine (_ (Hs _ _ _ _ _ _ _ _ _ _ _ _ Hl H1)); [|exact Hm]. intros G.
        destruct (s_res st); inversion H2; subst; exact G.
      - apply bind_ok in H. destruct H as [[[[res0 cp0] err0] c0] [H1 H2]].
        apply (Hp _ _ _ _ _ _ _ _ _ Hm Hl) in H1.
        destruct err0; [inversion H2; subst; exact H1|]. destruct res0; inversion H2; subst; exact H1.
      - destruct (skip_ws inp pos m) as [pos1 wserr].
        apply bind_ok in H. destruct H as [[[[res0 cp0] err0] c0] [H1 H2]].
        apply (Hp _ _ _ _ _ _ _ _ _ Hm Hl) in H1.
        assert (Hc : cache (match cerr c0 with
                            | Some ce => if (epos ce =? pos1) && is_notfound ce then set_error c0 (Some (mk_err pos (ecause ce))) else c0
                            | None => c0 end) = cache c0).
        { destruct (cerr c0) as [ce|]; [|reflexivity]. destruct ((epos ce =? pos1) && is_notfound ce); reflexivity. }
        destruct err0 as [x|]; [destruct wserr as [w|]; [destruct (pos1 <? epos x); [|destruct (is_notfound x)]|]|destruct wserr as [w|]];
          inversion H2; subst; rewrite Hc; exact H1.
      - apply bind_ok in H. destruct H as [[[[res0 cp0] err0] c0] [H1 H2]].
        apply (Hp _ _ _ _ _ _ _ _ _ Hm Hl) in H1.
        destruct err0 as [x|]; [inversion H2; subst; exact H1|].
        destruct (trim_nodes inp m res0 None) as [r' w]. destruct w; inversion H2; subst; exact H1.
      - apply bind_ok in H. destruct H as [[[[res0 cp0] err0] c0] [H1 H2]]. inversion H2; subst.
        exact (Hp _ _ _ _ _ _ _ _ _ Hm Hl H1).
      - apply bind_ok in H. destruct H as [[[[res0 cp0] err0] c0] [H1 H2]].
        apply (Hp _ _ _ _ _ _ _ _ _ Hm Hl) in H1.
        destruct err0; [inversion H2; subst; exact H1|].
        destruct res0 as [|n ns]; [inversion H2; subst; exact H1|].
        destruct n as [| | |t i [|ch [|ch2 cs]] p r]; destruct ns; inversion H2; subst; exact H1.
    Qed.
    Lemma alts_loop_live q d stk lrc pos m prefix ns : forall st c stop st' c',
      forallb mne (q_ps q) = true -> all_live (cache c) ->
      alts_loop rs q d stk lrc pos m prefix ns st c = Ok (stop, st', c') -> all_live (cache c').
    Proof.
      induction ns as [|n ns IH]; intros st c stop st' c' Hm Hl H; cbn [alts_loop] in H.
      - inversion H; subst; exact Hl.
      - apply bind_ok in H. destruct H as [[[stop1 st1] c1] [H1 H2]].
        apply (Hs _ _ _ _ _ _ _ _ _ _ _ Hm Hl) in H1.
        destruct stop1; [inversion H2; subst; exact H1|]. exact (IH _ _ _ _ _ Hm H1 H2).
    Qed.
    Lemma seq_step_live : sl (seq_step rp rs).
    Proof.
      intros q d c stk lrc pos m st stop st' c' Hm Hl H. unfold seq_step in H.
      apply bind_ok in H. destruct H as [[[[res cp] err] c1] [H1 H2]].
      assert (Hl1 : all_live (cache c1)).
      { destruct (seq_lookup (q_kind q) (q_ps q) d) as [p|] eqn:El; [|inversion H1; subst; exact Hl].
        rewrite forallb_forall in Hm. exact (Hp p (reg_call c) _ _ _ _ _ _ _ (Hm p (seq_lookup_in _ _ _ _ El)) Hl H1). }
      destruct res as [|n res].
      - destruct (seq_lencheck (q_kind q) (length (q_ps q)) d); [|inversion H2; subst; exact Hl1].
        cbn [s_nodes] in H2. destruct (s_nodes st); inversion H2; subst; exact Hl1.
      - exact (alts_loop_live _ _ _ _ _ _ _ _ _ _ _ _ _ Hm Hl1 H2).
    Qed.
  End Step.

  Theorem live_inv : forall f, pl (parse inp rules f) /\ sl (seqp inp rules f).
  Proof.
    induction f as [|f [IHp IHs]].
    - split; repeat intro; discriminate.
    - destruct (ne_inv inp rules f) as [Hne _]. split.
      + intros e c stk lrc pos. rewrite parse_S. apply parse_step_live; assumption.
      + intros q d c stk lrc pos m st. rewrite seqp_S. apply seq_step_live; assumption.
  Qed.
End Live.

Lemma parse_top_live inp rules fuel r0 e c :
  mne r0 = true -> forallb mne rules = true ->
  parse_top inp rules fuel r0 = Ok (TopErr e c) -> cache_live0 (cache c).
Proof.
  intros Hm Hms H. unfold parse_top, run in H. apply bind_ok in H.
  destruct H as [[[[nodes cp] err] c0] [H1 H2]].
  assert (Ec : c0 = c).
  { destruct err as [x|]; [destruct nodes; inversion H2; reflexivity|].
    destruct nodes; [|discriminate]. destruct (cerr c0); inversion H2; reflexivity. }
  subst c0.
  assert (Hr : forall k body, nth_N rules k = Some body -> mne body = true).
  { intros k body Hk. rewrite forallb_forall in Hms. apply Hms. eapply nth_error_In; exact Hk. }
  assert (Hl : all_live (cache c)).
  { refine (proj1 (live_inv inp rules Hr fuel) r0 ctx0 [] [] (i_offset inp) nodes cp err c Hm _ H1). intros k r []. }
  intros k r Hin _. exact (Hl k r Hin).
Qed.

(* THEOREM (C06, second half, static form): when every Memoize body is syntactically never
   empty-handed (e.g. P -> P b | a: the alternative 'a' is a terminal), no hypothesis on the
   run is needed. *)
Theorem C06_furthest_static inp rules fuel root e c :
  ok4 rules root = true -> forallb (ok4 rules) rules = true ->
  mne root = true -> forallb mne rules = true ->
  parse_top inp rules fuel (sentence root) = Ok (TopErr e c) ->
  forall q k, In (q, k) (g_fails c) -> q <= epos e.
Proof.
  intros Ho Hos Hm Hms H. apply (C06_no_attempt_lost inp rules fuel root e c Ho Hos); [|exact H].
  apply (parse_top_live inp rules fuel (sentence root) e c); [|exact Hms|exact H].
  unfold sentence. cbn [mne forallb]. rewrite Hm. reflexivity.
Qed.

(* every Any / Choice is directly wrapped in a Name *)
Fixpoint named (e : pexpr) : bool :=
  match e with
  | PTerm _ | PEmpty | PEnd | PRef _ => true
  | PName _ (PAny ps) | PName _ (PChoice ps) => forallb named ps
  | PAny _ | PChoice _ => false
  | PMemo _ p | POpt p | PName _ p | PSuppress p | PSingle p | PLeftTrim _ p | PRightTrim _ p => named p
  | PSeq _ _ _ _ ps => forallb named ps
  end.

(* ---- non-vacuity and the K2 witness ---- *)
(* P -> P b | a satisfies every hypothesis of the static theorem; on "abc" the maximum is 3 *)
Example C06_example_furthest :
  ok4 [ex_P] (PRef 0) = true /\ forallb (ok4 [ex_P]) [ex_P] = true /\ mne (PRef 0) = true /\ forallb mne [ex_P] = true /\
  exists e c, parse_top (ex_inp [97; 98; 99]) [ex_P] 200 (sentence (PRef 0)) = Ok (TopErr e c) /\ epos e = 3 /\
              In (3, COther msg_end) (g_fails c) /\ forallb (fun f => fst f <=? 3) (g_fails c) = true.
Proof.
  repeat (split; [reflexivity|]).
  destruct (parse_top (ex_inp [97; 98; 99]) [ex_P] 200 (sentence (PRef 0))) as [[ns c|e c]| |] eqn:E;
    try (vm_compute in E; discriminate).
  exists e, c. split; [reflexivity|]. vm_compute in E. inversion E; subst. vm_compute. tauto.
Qed.

(* a guarded, fully named grammar satisfying the hypotheses of [C06_furthest_partial] *)
Example C06_example_furthest_guarded :
  ok4 [] ex_named = true /\ guarded ex_named = true /\ ne ex_named = true /\ named ex_named = true /\
  match parse_top (ex_inp [97; 120]) [] 200 (sentence ex_named) with
  | Ok (TopErr e c) => epos e = 2 /\ cache c = [] /\ forallb (fun f => fst f <=? 2) (g_fails c) = true
  | _ => False
  end.
Proof. vm_compute. repeat split. Qed.

(* K2: K -> Name(n, Any(Empty, a)) K is unproductive.  Root Name(r, Any(b K, c)) on "b":
   every Any is named, every Name is guarded, the root is never empty-handed, [ok4] holds —
   and yet the reported position (1) is SHORT of the failed attempt of 'a' at position 2:
   the Any inside K succeeded (Empty) and dropped the failure of 'a' at its own start, and K
   then came back empty-handed through curtailment.  The hypothesis that fails is
   [cache_live0]: the cache holds an unconditionally reusable empty-handed entry for K. *)
Definition ex_K := PMemo 0 (ex_seq [PName [110] (PAny [PEmpty; ex_a]); PRef 0]).
Definition ex_Kroot := PName [114] (PAny [ex_seq [ex_b; PRef 0]; ex_c]).
Theorem C06_furthest_refuted_without_productivity :
  exists inp rules root e c,
    ok4 rules root = true /\ forallb (ok4 rules) rules = true /\
    guarded root = true /\ forallb guarded rules = true /\ ne root = true /\
    named root = true /\ forallb named rules = true /\
    parse_top inp rules 200 (sentence root) = Ok (TopErr e c) /\
    (exists q k, In (q, k) (g_fails c) /\ epos e < q) /\
    (exists k r, In (k, r) (cache c) /\ reusable (r_lrc r) [] = true /\ r_nodes r = [] /\ r_err r = None).
Proof.
  exists (ex_inp [98]), [ex_K], ex_Kroot.
  destruct (parse_top (ex_inp [98]) [ex_K] 200 (sentence ex_Kroot)) as [[ns c|e c]| |] eqn:E;
    try (vm_compute in E; discriminate).
  exists e, c. repeat (split; [reflexivity|]). vm_compute in E. inversion E; subst. split.
  - exists 2, (CNotFound (quote_rune 97)). split; [vm_compute; tauto|reflexivity].
  - eexists. eexists. split; [left; reflexivity|]. vm_compute. repeat split.
Qed.

(* ------------------------------------------------------------------------------------- *)
(* Part 5: productive grammars — every unconditionally reusable cache entry is a node or   *)
(* an error                                                                               *)
(* ------------------------------------------------------------------------------------- *)

Lemma map_get_filter i cp l : set_mem i cp = true -> map_get i (map_filter cp l) = map_get i l.
Proof.
  intros Hi. unfold map_filter. induction l as [|[k v] t IH]; [reflexivity|].
  cbn [filter fst map_get]. destruct (set_mem k cp) eqn:Ek; cbn [map_get].
  - rewrite IH. reflexivity.
  - destruct (i =? k) eqn:E; [|exact IH]. apply N.eqb_eq in E. subst. congruence.
Qed.

Section Prod.
  Variable inp : input.
  Variable rules : list pexpr.
  Variable rk : N -> nat.          (* the rank of a Memoize index *)

  (* [prodn n e]: e has a way to a node or an error that enters only Memoize wrappers of rank
     < n (so none of them twice).  With [ranked] this is "every rule is productive", the rank
     of a rule being the stage at which the least fixpoint finds it productive. *)
  Fixpoint prodn (n : nat) (e : pexpr) : bool :=
    match e with
    | PTerm _ | PEmpty | PEnd => true
    | PRef k => match nth_N rules k with Some (PMemo idx _) => Nat.ltb (rk idx) n | _ => false end
    | PMemo idx _ => Nat.ltb (rk idx) n
    | PAny ps | PChoice ps => existsb (prodn n) ps
    | POpt _ | PName _ _ => true
    | PSeq k _ _ _ ps => kind_ok k (length ps) && forallb (prodn n) ps
    | PSingle p => prodn n p
    | PSuppress _ | PLeftTrim _ _ | PRightTrim _ _ => false
    end.
  (* every Memoize body is productive strictly below the rank of its wrapper *)
  Fixpoint ranked (e : pexpr) : bool :=
    match e with
    | PTerm _ | PEmpty | PEnd | PRef _ => true
    | PMemo idx p => prodn (rk idx) p && ranked p
    | POpt p | PName _ p | PSuppress p | PSingle p => ranked p
    | PAny ps | PChoice ps | PSeq _ _ _ _ ps => forallb ranked ps
    | PLeftTrim _ _ | PRightTrim _ _ => false
    end.
  Hypothesis Hrules : forall k body, nth_N rules k = Some body -> ranked body = true.
  Ltac lia := try clear Hrules; Lia.lia.   (* see Section Just *)

  (* the call was cut by the curtailment of a Memoize of rank < n *)
  Definition blocked (n : nat) (cp : intset) (lrc : intmap) (pos : N) : Prop :=
    exists i, set_mem i cp = true /\ (rk i < n)%nat /\ remaining inp pos + 1 < map_get i lrc.
  (* cache invariant: an empty-handed entry records a curtailing parser of smaller rank
     whose counter was already beyond the bound *)
  Definition CI (c : ctx) : Prop :=
    forall idx pos r, In ((idx, pos), r) (cache c) -> r_live r \/ blocked (rk idx) (r_cp r) (r_lrc r) pos.

  Lemma blocked_cp n cp cp' l p : (forall i, set_mem i cp = true -> set_mem i cp' = true) -> blocked n cp l p -> blocked n cp' l p.
  Proof. intros H [i [H1 H2]]. exists i. split; [apply H; exact H1|exact H2]. Qed.
  Lemma blocked_union_l n a b l p : blocked n a l p -> blocked n (set_union a b) l p.
  Proof. apply blocked_cp. intros i Hi. rewrite set_mem_union, Hi. reflexivity. Qed.
  Lemma blocked_union_r n a b l p : blocked n b l p -> blocked n (set_union a b) l p.
  Proof. apply blocked_cp. intros i Hi. rewrite set_mem_union, Hi. apply orb_true_r. Qed.
  Lemma blocked_pos n cp l p p0 : p <= p0 -> blocked n cp l p -> blocked n cp l p0.
  Proof.
    intros Hle [i [H1 [H2 H3]]]. exists i. split; [exact H1|]. split; [exact H2|].
    unfold remaining in *. lia.
  Qed.
  Lemma blocked_nil n cp p : blocked n cp [] p -> False.
  Proof. intros [i [_ [_ H]]]. cbn [map_get] in H. lia. Qed.
  Lemma blocked_rank n n' cp l p : (n <= n')%nat -> blocked n cp l p -> blocked n' cp l p.
  Proof. intros Hle [i [H1 [H2 H3]]]. exists i. split; [exact H1|]. split; [lia|exact H3]. Qed.
  Lemma CI_cache c c' : cache c' = cache c -> CI c -> CI c'.
  Proof. intros E H idx pos r Hin. rewrite E in Hin. exact (H idx pos r Hin). Qed.

  Definition pp (rp : ptype) : Prop :=
    forall e c stk lrc pos res cp err c',
      ranked e = true -> CI c -> rp e c stk lrc pos = Ok (res, cp, err, c') ->
      CI c' /\ forall n, prodn n e = true -> res <> [] \/ err <> None \/ blocked n cp lrc pos.
  (* the sequence either still runs in the context it was started in (nothing consumed, the
     curtailing parsers are merged) or has consumed input (empty left-recursion context) *)
  Definition smode (m : bool) (lrc lrc0 : intmap) (pos pos0 : N) : Prop :=
    (m = true /\ lrc = lrc0 /\ pos <= pos0) \/ lrc = [].
  Definition spr (rs : stype) : Prop :=
    forall q d c stk lrc pos m st stop st' c' pos0 lrc0,
      forallb ranked (q_ps q) = true -> CI c -> dbound q d -> smode m lrc lrc0 pos pos0 ->
      rs q d c stk lrc pos m st = Ok (stop, st', c') ->
      CI c' /\ (live st -> live st') /\ (forall i, set_mem i (s_cp st) = true -> set_mem i (s_cp st') = true) /\
      forall n, kind_ok (q_kind q) (length (q_ps q)) = true -> forallb (prodn n) (q_ps q) = true ->
                live st' \/ blocked n (s_cp st') lrc0 pos0.

  Section Step.
    Variable rp : ptype.
    Variable rs : stype.
    Hypothesis Hp : pp rp.
    Hypothesis Hs : spr rs.

    Lemma any_loop_prod stk lrc pos ps : forall c cp res err nf res' cp' err' c',
      forallb ranked ps = true -> CI c ->
      any_loop rp stk lrc pos ps c cp res err nf = Ok (res', cp', err', c') ->
      CI c' /\ forall n, res <> [] \/ some2 err nf \/ blocked n cp lrc pos \/ existsb (prodn n) ps = true ->
                         res' <> [] \/ err' <> None \/ blocked n cp' lrc pos.
    Proof.
      induction ps as [|p ps IH]; intros c cp res err nf res' cp' err' c' Hr Hci H; cbn [any_loop] in H.
      - destruct res as [|x res]; inversion H; subst.
        + split; [exact Hci|]. intros n [Hn|[Hn|[Hn|Hn]]]; [congruence| | |discriminate].
          * right. left. apply or_nf_some. exact Hn.
          * right. right. exact Hn.
        + split; [eapply CI_cache; [|exact Hci]; reflexivity|]. intros n _. left. discriminate.
      - apply bind_ok in H. destruct H as [[[[res2 cp2] err2] c2] [H1 H2]].
        cbn [forallb] in Hr. apply andb_true_iff in Hr. destruct Hr as [Hrp Hrps].
        destruct (Hp p (reg_call c) stk lrc pos res2 cp2 err2 c2 Hrp Hci H1) as [Hci2 Hn2].
        destruct (alt_err pos err nf err2) as [err1 nf1] eqn:Ea.
        destruct (IH c2 _ _ _ _ _ _ _ _ Hrps Hci2 H2) as [Hci' Hn']. split; [exact Hci'|].
        intros n Hn. apply Hn'. destruct Hn as [Hn|[Hn|[Hn|Hn]]].
        + left. apply append_node_nonnil_l. exact Hn.
        + right. left. apply (alt_err_some _ _ _ _ _ _ Ea). left. exact Hn.
        + right. right. left. apply blocked_union_l. exact Hn.
        + cbn [existsb] in Hn. apply orb_true_iff in Hn. destruct Hn as [Hn|Hn]; [|right; right; right; exact Hn].
          destruct (Hn2 n Hn) as [G|[G|G]].
          * left. apply append_node_nonnil_r. exact G.
          * right. left. apply (alt_err_some _ _ _ _ _ _ Ea). right. exact G.
          * right. right. left. apply blocked_union_r. exact G.
    Qed.

    Lemma choice_loop_prod stk lrc pos ps : forall c cp err nf res' cp' err' c',
      forallb ranked ps = true -> CI c ->
      choice_loop rp stk lrc pos ps c cp err nf = Ok (res', cp', err', c') ->
      CI c' /\ forall n, some2 err nf \/ blocked n cp lrc pos \/ existsb (prodn n) ps = true ->
                         res' <> [] \/ err' <> None \/ blocked n cp' lrc pos.
    Proof.
      induction ps as [|p ps IH]; intros c cp err nf res' cp' err' c' Hr Hci H; cbn [choice_loop] in H.
      - inversion H; subst. split; [exact Hci|]. intros n [Hn|[Hn|Hn]]; [| |discriminate].
        + right. left. apply or_nf_some. exact Hn.
        + right. right. exact Hn.
      - apply bind_ok in H. destruct H as [[[[res2 cp2] err2] c2] [H1 H2]].
        cbn [forallb] in Hr. apply andb_true_iff in Hr. destruct Hr as [Hrp Hrps].
        destruct (Hp p (reg_call c) stk lrc pos res2 cp2 err2 c2 Hrp Hci H1) as [Hci2 Hn2].
        destruct (alt_err pos err nf err2) as [err1 nf1] eqn:Ea.
        destruct res2 as [|x2 res2].
        + destruct (IH c2 _ _ _ _ _ _ _ Hrps Hci2 H2) as [Hci' Hn']. split; [exact Hci'|].
          intros n Hn. apply Hn'. destruct Hn as [Hn|[Hn|Hn]].
          * left. apply (alt_err_some _ _ _ _ _ _ Ea). left. exact Hn.
          * right. left. apply blocked_union_l. exact Hn.
          * cbn [existsb] in Hn. apply orb_true_iff in Hn. destruct Hn as [Hn|Hn]; [|right; right; exact Hn].
            destruct (Hn2 n Hn) as [G|[G|G]]; [congruence| |].
            -- left. apply (alt_err_some _ _ _ _ _ _ Ea). right. exact G.
            -- right. left. apply blocked_union_r. exact G.
        + inversion H2; subst. split; [eapply CI_cache; [|exact Hci2]; reflexivity|]. intros n _. left. discriminate.
    Qed.

    Lemma parse_step_prod : pp (parse_step inp rules rp rs).
    Proof.
      intros e c stk lrc pos res cp err c' Hr Hci H.
      destruct e; cbn [ranked] in Hr; try discriminate; cbn [parse_step] in H.
      - (* PTerm: rune and literal terminals alike *)
        destruct (term_parse inp t pos) as [res0 err0] eqn:E. inversion H; subst.
        split; [eapply CI_cache; [|exact Hci]; destruct res; [destruct err|]; reflexivity|].
        intros n _. destruct res as [|x res]; [right; left; exact (term_parse_nil _ _ _ _ E)|left; discriminate].
      - (* PEmpty *) inversion H; subst. split; [exact Hci|]. intros n _. left; discriminate.
      - (* PEnd *) destruct (is_eof inp pos); inversion H; subst.
        + split; [exact Hci|]. intros n _. left; discriminate.
        + split; [eapply CI_cache; [|exact Hci]; reflexivity|]. intros n _. right; left; discriminate.
      - (* PRef *) destruct (nth_N rules k) as [body|] eqn:E; [|discriminate].
        destruct (Hp body c stk lrc pos res cp err c' (Hrules k body E) Hci H) as [Hci' Hn]. split; [exact Hci'|].
        intros n Hpn. cbn [prodn] in Hpn. rewrite E in Hpn.
        destruct body as [| | | |idx0 body0| | | | | | | | |]; try discriminate. apply Hn. exact Hpn.
      - (* PMemo *) apply andb_true_iff in Hr. destruct Hr as [Hpe Hre].
        destruct (cache_get c idx pos lrc) as [r|] eqn:E.
        + inversion H; subst. split; [exact Hci|]. intros n Hpn. cbn [prodn] in Hpn. apply Nat.ltb_lt in Hpn.
          destruct (Hci idx pos r (cache_get_in _ _ _ _ _ E)) as [[G|G]|[i [G1 [G2 G3]]]]; [left; exact G|right; left; exact G|].
          right. right. exists i. split; [exact G1|]. split; [lia|].
          unfold cache_get in E. destruct (cache_find (idx, pos) (cache c')) as [r0|]; [|discriminate].
          destruct (reusable (r_lrc r0) lrc) eqn:Er; inversion E; subst r0.
          unfold reusable in Er. rewrite forallb_forall in Er.
          assert (Hin : In (i, map_get i (r_lrc r)) (r_lrc r)) by (apply map_get_in; lia).
          specialize (Er _ Hin). cbn [fst snd] in Er. apply N.leb_le in Er. lia.
        + destruct (remaining inp pos + 1 <? map_get idx lrc) eqn:Ecut.
          * inversion H; subst. split; [exact Hci|]. intros n Hpn. cbn [prodn] in Hpn. apply Nat.ltb_lt in Hpn.
            apply N.ltb_lt in Ecut. right. right. exists idx. split; [cbn [set_mem]; rewrite N.eqb_refl; reflexivity|].
            split; [exact Hpn|exact Ecut].
          * apply bind_ok in H. destruct H as [[[[nodes cp0] err0] c0] [H1 H2]]. inversion H2; subst.
            destruct (Hp e (log_body c idx pos (1 + count_active idx pos stk)) ((idx, pos) :: stk) (map_inc idx lrc) pos
                         res cp err c0 Hre Hci H1) as [Hci0 Hn0].
            (* what the body's productivity below rk idx gives, in terms of the caller's counters *)
            assert (Hb : res <> [] \/ err <> None \/ blocked (rk idx) cp lrc pos).
            { destruct (Hn0 (rk idx) Hpe) as [G|[G|[i [G1 [G2 G3]]]]]; [left; exact G|right; left; exact G|].
              right. right. exists i. split; [exact G1|]. split; [exact G2|].
              rewrite map_get_inc in G3. destruct (i =? idx) eqn:Ei; [apply N.eqb_eq in Ei; subst; lia|exact G3]. }
            split.
            -- intros idx' pos' r' [Ein|Hin]; [|exact (Hci0 idx' pos' r' Hin)].
               inversion Ein; subst. cbn [r_cp r_lrc]. unfold r_live. cbn [r_nodes r_err].
               destruct Hb as [G|[G|[i [G1 [G2 G3]]]]]; [left; left; exact G|left; right; exact G|].
               right. exists i. split; [exact G1|]. split; [exact G2|]. rewrite map_get_filter by exact G1. exact G3.
            -- intros n Hpn. cbn [prodn] in Hpn. apply Nat.ltb_lt in Hpn.
               destruct Hb as [G|[G|G]]; [left; exact G|right; left; exact G|].
               right. right. apply (blocked_rank (rk idx)); [lia|exact G].
      - (* PAny *)
        destruct (any_loop_prod stk lrc pos ps c [] [] None None res cp err c' Hr Hci H) as [Hci' Hn]. split; [exact Hci'|].
        intros n Hpn. apply Hn. right. right. right. exact Hpn.
      - (* PChoice *)
        destruct (choice_loop_prod stk lrc pos ps c [] None None res cp err c' Hr Hci H) as [Hci' Hn]. split; [exact Hci'|].
        intros n Hpn. apply Hn. right. right. exact Hpn.
      - (* POpt *)
        apply bind_ok in H. destruct H as [[[[res0 cp0] err0] c0] [H1 H2]]. inversion H2; subst.
        destruct (Hp e c stk lrc pos res0 cp err c' Hr Hci H1) as [Hci' _]. split; [exact Hci'|].
        intros n _. left. apply append_node_nonnil_r. discriminate.
      - (* PSeq *)
        apply bind_ok in H. destruct H as [[[stop st] c0] [H1 H2]].
        destruct (Hs {| q_kind := k; q_ip := ip; q_single := single; q_ps := ps |} 0%nat c stk lrc pos true
                     {| s_cp := []; s_res := []; s_err := None; s_nodes := [] |} stop st c0 pos lrc Hr Hci) as [Hci0 [_ [_ Hn0]]];
          [unfold dbound; cbn [q_kind q_ps]; destruct k; try exact I; lia|left; split; [reflexivity|split; [reflexivity|lia]]|exact H1|].
        assert (Hci' : CI c') by (destruct (s_res st); inversion H2; subst; [exact Hci0|eapply CI_cache; [|exact Hci0]; reflexivity]).
        split; [exact Hci'|]. intros n Hpn. cbn [prodn] in Hpn. apply andb_true_iff in Hpn. destruct Hpn as [Hk Hall].
        specialize (Hn0 n Hk Hall).
        destruct (s_res st) as [|x xs] eqn:Er; inversion H2; subst; [|left; discriminate].
        destruct Hn0 as [[G|G]|G]; [congruence| |right; right; exact G].
        right. left. destruct (s_err st) as [y|]; [|congruence]. destruct name; discriminate.
      - (* PName *)
        apply bind_ok in H. destruct H as [[[[res0 cp0] err0] c0] [H1 H2]].
        destruct (Hp e c stk lrc pos res0 cp0 err0 c0 Hr Hci H1) as [Hci0 _].
        destruct err0 as [x|]; [inversion H2; subst; split; [exact Hci0|]; intros n _; right; left; discriminate|].
        destruct res0 as [|x xs]; inversion H2; subst; (split; [exact Hci0|]); intros n _; [right; left|left]; discriminate.
      - (* PSuppress *)
        apply bind_ok in H. destruct H as [[[[res0 cp0] err0] c0] [H1 H2]]. inversion H2; subst.
        destruct (Hp e c stk lrc pos res cp err0 c' Hr Hci H1) as [Hci0 _]. split; [exact Hci0|]. intros n Hpn. discriminate.
      - (* PSingle *)
        apply bind_ok in H. destruct H as [[[[res0 cp0] err0] c0] [H1 H2]].
        destruct (Hp e c stk lrc pos res0 cp0 err0 c0 Hr Hci H1) as [Hci0 Hn0].
        assert (E : c0 = c' /\ cp0 = cp /\ (err0 <> None -> err <> None) /\ (err0 = None -> res0 <> [] -> res <> [])).
        { destruct err0 as [x|]; [inversion H2; subst; repeat split; [discriminate|congruence]|].
          destruct res0 as [|x xs]; [inversion H2; subst; repeat split; congruence|].
          destruct x as [| | |t i [|ch [|ch2 cs]] p r]; destruct xs; inversion H2; subst; repeat split; try congruence; discriminate. }
        destruct E as [-> [-> [E1 E2]]]. split; [exact Hci0|]. intros n Hpn. cbn [prodn] in Hpn.
        destruct (Hn0 n Hpn) as [G|[G|G]]; [|right; left; apply E1; exact G|right; right; exact G].
        destruct err0 as [x|]; [right; left; apply E1; discriminate|left; apply E2; [reflexivity|exact G]].
    Qed.

    Lemma alts_loop_prod q d stk lrc pos m prefix ns pos0 lrc0 : forall st c stop st' c',
      forallb ranked (q_ps q) = true -> CI c -> dbound q (S d) -> smode m lrc lrc0 pos pos0 ->
      alts_loop rs q d stk lrc pos m prefix ns st c = Ok (stop, st', c') ->
      CI c' /\ (live st -> live st') /\ (forall i, set_mem i (s_cp st) = true -> set_mem i (s_cp st') = true) /\
      forall n, kind_ok (q_kind q) (length (q_ps q)) = true -> forallb (prodn n) (q_ps q) = true ->
                ns <> [] \/ live st \/ blocked n (s_cp st) lrc0 pos0 -> live st' \/ blocked n (s_cp st') lrc0 pos0.
    Proof.
      induction ns as [|x ns IH]; intros st c stop st' c' Hr Hci Hd Hm H; cbn [alts_loop] in H.
      - inversion H; subst. split; [exact Hci|]. split; [auto|]. split; [auto|].
        intros n _ _ [Hn|[Hn|Hn]]; [congruence|left; exact Hn|right; exact Hn].
      - apply bind_ok in H. destruct H as [[[stop1 st1] c1] [H1 H2]].
        assert (Hm' : smode (if pos <? node_rpos x then false else m) (if pos <? node_rpos x then [] else lrc) lrc0 (node_rpos x) pos0).
        { destruct (pos <? node_rpos x) eqn:E; [right; reflexivity|]. apply N.ltb_ge in E.
          destruct Hm as [[M1 [M2 M3]]|M]; [left; split; [exact M1|split; [exact M2|lia]]|right; exact M]. }
        destruct (Hs q (S d) c stk _ (node_rpos x) _ _ stop1 st1 c1 pos0 lrc0 Hr Hci Hd Hm' H1) as [Hci1 [Hl1 [Hcp1 Hn1]]].
        cbn [s_cp s_res s_err] in Hl1, Hcp1. unfold live in Hl1. cbn [s_res s_err] in Hl1.
        destruct stop1.
        + inversion H2; subst. split; [exact Hci1|]. split; [exact Hl1|]. split; [exact Hcp1|].
          intros n Hk Hall _. exact (Hn1 n Hk Hall).
        + destruct (IH st1 c1 stop st' c' Hr Hci1 Hd Hm H2) as [Hci' [Hl' [Hcp' Hn']]].
          split; [exact Hci'|]. split; [intros G; apply Hl', Hl1; exact G|]. split; [intros i Hi; apply Hcp', Hcp1; exact Hi|].
          intros n Hk Hall _. apply (Hn' n Hk Hall). right. exact (Hn1 n Hk Hall).
    Qed.

    Lemma seq_step_prod : spr (seq_step rp rs).
    Proof.
      intros q d c stk lrc pos m st stop st' c' pos0 lrc0 Hr Hci Hd Hm H.
      unfold seq_step in H. apply bind_ok in H. destruct H as [[[[res cp] err] c1] [H1 H2]].
      cbn [s_nodes s_res s_err s_cp] in H2.
      assert (Hsub : CI c1 /\ forall n, forallb (prodn n) (q_ps q) = true ->
                       seq_lookup (q_kind q) (q_ps q) d <> None -> res <> [] \/ err <> None \/ blocked n cp lrc pos).
      { destruct (seq_lookup (q_kind q) (q_ps q) d) as [p|] eqn:El.
        - rewrite forallb_forall in Hr.
          destruct (Hp p (reg_call c) stk lrc pos res cp err c1 (Hr p (seq_lookup_in _ _ _ _ El)) Hci H1) as [Hci1 Hn1].
          split; [exact Hci1|]. intros n Hall _. rewrite forallb_forall in Hall. apply Hn1. apply Hall. eapply seq_lookup_in; exact El.
        - inversion H1; subst. split; [exact Hci|]. intros n _ G. congruence. }
      destruct Hsub as [Hci1 Hn1].
      assert (Hcp1 : forall i, set_mem i (s_cp st) = true -> set_mem i (if m then set_union (s_cp st) cp else s_cp st) = true).
      { intros i Hi. destruct m; [rewrite set_mem_union, Hi; reflexivity|exact Hi]. }
      assert (Hl1 : forall r, live st -> live {| s_cp := if m then set_union (s_cp st) cp else s_cp st; s_res := r ++ s_res st;
                                                 s_err := keep_max (s_err st) err; s_nodes := s_nodes st |} ).
      { intros r [G|G]; [left|right]; cbn [s_res s_err]; [destruct r; [exact G|discriminate]|apply keep_max_keeps; exact G]. }
      destruct res as [|x res].
      - destruct (seq_lencheck (q_kind q) (length (q_ps q)) d) eqn:Elen.
        + destruct (emit_inv _ _ _ _ _ _ H2) as [E1 [E2 _]]. subst st' c'.
          assert (Hlive : live {| s_cp := if m then set_union (s_cp st) cp else s_cp st;
                                  s_res := append_node (s_res st) [handle_result q pos (rev (s_nodes st))];
                                  s_err := keep_max (s_err st) err; s_nodes := s_nodes st |}).
          { left. cbn [s_res]. apply append_node_nonnil_r. discriminate. }
          split; [exact Hci1|]. split; [intros _; exact Hlive|]. split; [exact Hcp1|]. intros n _ _. left. exact Hlive.
        + inversion H2; subst. split; [exact Hci1|]. split; [exact (Hl1 [])|]. split; [exact Hcp1|].
          intros n Hk Hall.
          assert (Hlk : seq_lookup (q_kind q) (q_ps q) d <> None).
          { intros El. rewrite (lookup_none_lencheck q d El Hk Hd) in Elen. discriminate. }
          destruct (Hn1 n Hall Hlk) as [G|[G|G]]; [congruence| |].
          * left. right. cbn [s_err]. destruct err as [y|]; [apply keep_max_some|congruence].
          * destruct Hm as [[M1 [M2 M3]]|M].
            -- subst m lrc. right. cbn [s_cp]. apply blocked_union_r. apply (blocked_pos _ _ _ pos); [exact M3|exact G].
            -- subst lrc. exfalso. exact (blocked_nil _ _ _ G).
      - assert (HdS : dbound q (S d)).
        { destruct (seq_lookup (q_kind q) (q_ps q) d) as [p|] eqn:El; [exact (dbound_S q d p Hd El)|inversion H1]. }
        destruct (alts_loop_prod q d stk lrc pos m (s_nodes st) (x :: res) pos0 lrc0 _ c1 stop st' c' Hr Hci1 HdS Hm H2)
          as [Hci' [Hl' [Hcp' Hn']]].
        cbn [s_cp] in Hcp'.
        split; [exact Hci'|]. split; [intros G; apply Hl'; exact (Hl1 [] G)|].
        split; [intros i Hi; apply Hcp', Hcp1; exact Hi|].
        intros n Hk Hall. apply (Hn' n Hk Hall). left. discriminate.
    Qed.
  End Step.

  Theorem prod_inv : forall f, pp (parse inp rules f) /\ spr (seqp inp rules f).
  Proof.
    induction f as [|f [IHp IHs]].
    - split; repeat intro; discriminate.
    - split.
      + intros e c stk lrc pos. rewrite parse_S. apply parse_step_prod; assumption.
      + intros q d c stk lrc pos m st. rewrite seqp_S. apply seq_step_prod; assumption.
  Qed.

  Lemma CI_live0 c : CI c -> cache_live0 (cache c).
  Proof.
    intros Hci [idx pos] r Hin Hre. destruct (Hci idx pos r Hin) as [G|[i [G1 [G2 G3]]]]; [exact G|exfalso].
    unfold reusable in Hre. rewrite forallb_forall in Hre.
    assert (Hi : In (i, map_get i (r_lrc r)) (r_lrc r)) by (apply map_get_in; lia).
    specialize (Hre _ Hi). cbn [fst snd map_get] in Hre. apply N.leb_le in Hre. lia.
  Qed.
End Prod.

(* ---- productive grammars: Parse's cache is live, the fallback cannot happen ---- *)
Lemma CI_ctx0 inp rk : CI inp rk ctx0.
Proof. intros idx pos r []. Qed.

Lemma ranked_rules rules rk : forallb (ranked rules rk) rules = true ->
  forall k body, nth_N rules k = Some body -> ranked rules rk body = true.
Proof. intros H k body Hk. rewrite forallb_forall in H. apply H. eapply nth_error_In; exact Hk. Qed.

Lemma parse_top_ranked inp rules rk fuel r0 e c :
  ranked rules rk r0 = true -> forallb (ranked rules rk) rules = true ->
  parse_top inp rules fuel r0 = Ok (TopErr e c) -> cache_live0 (cache c).
Proof.
  intros Hr Hrs H. unfold parse_top, run in H. apply bind_ok in H.
  destruct H as [[[[nodes cp] err] c0] [H1 H2]].
  assert (Ec : c0 = c).
  { destruct err as [x|]; [destruct nodes; inversion H2; reflexivity|].
    destruct nodes; [|discriminate]. destruct (cerr c0); inversion H2; reflexivity. }
  subst c0. apply (CI_live0 inp rk).
  exact (proj1 (proj1 (prod_inv inp rules rk (ranked_rules rules rk Hrs) fuel) r0 ctx0 [] [] (i_offset inp) nodes cp err c
                  Hr (CI_ctx0 inp rk) H1)).
Qed.

(* a productive root never comes back empty-handed from the top-level call *)
Lemma run_productive inp rules rk n fuel r0 cp c :
  ranked rules rk r0 = true -> forallb (ranked rules rk) rules = true -> prodn rules rk n r0 = true ->
  run inp rules fuel r0 = Ok ([], cp, None, c) -> False.
Proof.
  intros Hr Hrs Hp H. unfold run in H.
  destruct (proj2 (proj1 (prod_inv inp rules rk (ranked_rules rules rk Hrs) fuel) r0 ctx0 [] [] (i_offset inp) [] cp None c
                     Hr (CI_ctx0 inp rk) H) n Hp) as [G|[G|G]]; [congruence|congruence|].
  exact (blocked_nil inp rk _ _ _ G).
Qed.

Lemma sentence_ranked rules rk root : ranked rules rk root = true -> ranked rules rk (sentence root) = true.
Proof. intros H. unfold sentence. cbn [ranked forallb]. rewrite H. reflexivity. Qed.
Lemma sentence_prod rules rk n root : prodn rules rk n root = true -> prodn rules rk n (sentence root) = true.
Proof. intros H. unfold sentence. cbn [prodn kind_ok length forallb]. rewrite H. reflexivity. Qed.

(* THEOREM (C06, productive grammars lose no failed attempt). *)
Theorem C06_no_attempt_lost_productive inp rules rk fuel root e c :
  ok4 rules root = true -> forallb (ok4 rules) rules = true ->
  ranked rules rk root = true -> forallb (ranked rules rk) rules = true ->
  parse_top inp rules fuel (sentence root) = Ok (TopErr e c) ->
  forall q k, In (q, k) (g_fails c) -> q <= epos e.
Proof.
  intros Ho Hos Hr Hrs H. apply (C06_no_attempt_lost inp rules fuel root e c Ho Hos); [|exact H].
  exact (parse_top_ranked inp rules rk fuel (sentence root) e c (sentence_ranked _ _ _ Hr) Hrs H).
Qed.

(* THEOREM (C06, guarded productive grammars: no exception).  As [C06_guarded], with "the root
   is syntactically never empty-handed" replaced by "the root is productive". *)
Theorem C06_guarded_productive inp rules rk n fuel root e c :
  notrim root = true -> forallb notrim rules = true ->
  guarded root = true -> forallb guarded rules = true ->
  ranked rules rk root = true -> forallb (ranked rules rk) rules = true -> prodn rules rk n root = true ->
  parse_top inp rules fuel (sentence root) = Ok (TopErr e c) ->
  i_offset inp <= epos e /\ epos e <= i_offset inp + i_len inp /\
  (In (epos e, ecause e) (g_fails c)
   \/ exists nm t, ecause e = CNotFound nm /\ In nm (gnames (root :: rules)) /\ In (epos e, CNotFound t) (g_fails c)).
Proof.
  intros Hn Hns Hg Hgs Hr Hrs Hp H.
  destruct (grammar_okx true root rules Hn Hns (fun _ => conj Hg Hgs)) as [Hok Hrules].
  destruct (parse_top_just inp rules _ true Hrules fuel (sentence root) e c (sentence_okx _ _ _ Hok) H) as [_ [Hj|[_ [_ [cp Hrun]]]]].
  - destruct Hj as [[Hlo Hhi] Hj]. split; [exact Hlo|]. split; [exact Hhi|].
    destruct Hj as [Hj|[Hj|[Hs _]]]; [left; exact Hj|right; exact Hj|discriminate].
  - exfalso. exact (run_productive inp rules rk n fuel (sentence root) cp c (sentence_ranked _ _ _ Hr) Hrs (sentence_prod _ _ _ _ Hp) Hrun).
Qed.

(* THEOREM (C06_furthest).  For a grammar without trimming and SuppressError whose rules are
   productive ([ranked] by some rank function, root productive) and whose Names are guarded,
   the reported position EQUALS the maximum position of a failed attempt: there is a failed
   attempt exactly there and none further.  "Every Any/Choice carries a Name" is not needed. *)
Theorem C06_furthest inp rules rk n fuel root e c :
  ok4 rules root = true -> forallb (ok4 rules) rules = true ->
  ranked rules rk root = true -> forallb (ranked rules rk) rules = true -> prodn rules rk n root = true ->
  guarded root = true -> forallb guarded rules = true ->
  parse_top inp rules fuel (sentence root) = Ok (TopErr e c) ->
  (exists k, In (epos e, k) (g_fails c)) /\ (forall q k, In (q, k) (g_fails c) -> q <= epos e).
Proof.
  intros Ho Hos Hr Hrs Hp Hg Hgs H.
  split; [|exact (C06_no_attempt_lost_productive inp rules rk fuel root e c Ho Hos Hr Hrs H)].
  assert (Hns : forallb notrim rules = true).
  { apply forallb_forall. intros p Hpp. apply (ok4_notrim rules). rewrite forallb_forall in Hos. apply Hos; exact Hpp. }
  destruct (C06_guarded_productive inp rules rk n fuel root e c (ok4_notrim _ _ Ho) Hns Hg Hgs Hr Hrs Hp H)
    as [_ [_ [Hj|[nm [t [_ [_ Hj]]]]]]]; eexists; exact Hj.
Qed.

(* non-vacuity: the arithmetic grammar E -> E + T | T, T -> T * F | F, F -> ( E ) | 1,
   ranks F = 0, T = 1, E = 2, on "1+*1": the error is at the '*' (position 3) *)
Definition ex_t (c : N) := PTerm (TRune c).
Definition ex_arith : list pexpr :=
  [ PMemo 0 (PAny [ex_seq [PRef 0; ex_t 43; PRef 1]; PRef 1]);
    PMemo 1 (PAny [ex_seq [PRef 1; ex_t 42; PRef 2]; PRef 2]);
    PMemo 2 (PAny [ex_seq [ex_t 40; PRef 0; ex_t 41]; ex_t 49]) ].
Definition ex_rank (idx : N) : nat := if idx =? 0 then 2 else if idx =? 1 then 1 else 0.
Example C06_example_arith :
  ok4 ex_arith (PRef 0) = true /\ forallb (ok4 ex_arith) ex_arith = true /\
  ranked ex_arith ex_rank (PRef 0) = true /\ forallb (ranked ex_arith ex_rank) ex_arith = true /\
  prodn ex_arith ex_rank 3 (PRef 0) = true /\ guarded (PRef 0) = true /\ forallb guarded ex_arith = true /\
  match parse_top (ex_inp [49; 43; 42; 49]) ex_arith 400 (sentence (PRef 0)) with
  | Ok (TopErr e c) => epos e = 3 /\ existsb (fun f => fst f =? 3) (g_fails c) = true /\
                       forallb (fun f => fst f <=? 3) (g_fails c) = true
  | _ => False
  end.
Proof. vm_compute. repeat split. Qed.

(* SuppressError is outside the fragment for a reason: it drops the error that covers the
   attempts below it.  Sentence(Suppress(a b)) on "ac" reports the start although 'b' failed at 2. *)
Example C06_furthest_refuted_with_suppress :
  top_view (parse_top (ex_inp [97; 99]) [] 200 (sentence (PSuppress (ex_seq [ex_a; ex_b])))) =
    Some (mk_err 1 (CNotFound name_valid_input), [(2, CNotFound (quote_rune 98))]).
Proof. vm_compute. reflexivity. Qed.

(* ---- a rank function can be computed (the usual productivity fixpoint, by rounds), so the
   hypotheses of [C06_furthest] are decidable: [productive_b] ---- *)
Fixpoint memos (e : pexpr) : list (N * pexpr) :=
  match e with
  | PMemo idx p => (idx, p) :: memos p
  | POpt p | PName _ p | PSuppress p | PSingle p | PLeftTrim _ p | PRightTrim _ p => memos p
  | PAny ps | PChoice ps | PSeq _ _ _ _ ps => flat_map memos ps
  | _ => []
  end.
Fixpoint rank_find (idx : N) (l : list (N * nat)) : option nat :=
  match l with [] => None | (i, r) :: t => if idx =? i then Some r else rank_find idx t end.
Definition rank_of (big : nat) (l : list (N * nat)) (idx : N) : nat :=
  match rank_find idx l with Some r => r | None => big end.
(* round i: every still unranked Memoize whose body is productive below i gets rank i *)
Definition rank_round (rules : list pexpr) (big : nat) (ms : list (N * pexpr)) (i : nat) (l : list (N * nat)) : list (N * nat) :=
  fold_left (fun acc m => match rank_find (fst m) l with
                          | Some _ => acc
                          | None => if prodn rules (rank_of big l) i (snd m) then (fst m, i) :: acc else acc
                          end) ms l.
Fixpoint rank_rounds (rules : list pexpr) (big : nat) (ms : list (N * pexpr)) (i n : nat) (l : list (N * nat)) : list (N * nat) :=
  match n with O => l | S n' => rank_rounds rules big ms (S i) n' (rank_round rules big ms i l) end.
Definition compute_rank (rules : list pexpr) (root : pexpr) : N -> nat :=
  let ms := flat_map memos (root :: rules) in
  let big := S (length ms) in
  rank_of big (rank_rounds rules big ms 0 (S (length ms)) []).
Definition productive_b (rules : list pexpr) (root : pexpr) : bool :=
  let rk := compute_rank rules root in
  ranked rules rk root && forallb (ranked rules rk) rules && prodn rules rk (S (length (flat_map memos (root :: rules)))) root.

Corollary C06_furthest_decidable inp rules fuel root e c :
  ok4 rules root = true -> forallb (ok4 rules) rules = true -> productive_b rules root = true ->
  guarded root = true -> forallb guarded rules = true ->
  parse_top inp rules fuel (sentence root) = Ok (TopErr e c) ->
  (exists k, In (epos e, k) (g_fails c)) /\ (forall q k, In (q, k) (g_fails c) -> q <= epos e).
Proof.
  intros Ho Hos Hp Hg Hgs H. unfold productive_b in Hp.
  apply andb_true_iff in Hp. destruct Hp as [Hp Hp3]. apply andb_true_iff in Hp. destruct Hp as [Hp1 Hp2].
  exact (C06_furthest inp rules _ _ fuel root e c Ho Hos Hp1 Hp2 Hp3 Hg Hgs H).
Qed.

Example C06_example_productive_b :
  productive_b ex_arith (PRef 0) = true /\ productive_b [ex_P] (PRef 0) = true /\
  productive_b [ex_K] ex_Kroot = false /\ productive_b [ex_U] (PRef 0) = false /\
  map (compute_rank ex_arith (PRef 0)) [0; 1; 2] = [2; 1; 0]%nat.
Proof. vm_compute. repeat split. Qed.
