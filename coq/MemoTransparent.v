(* MemoTransparent.v — property C03: Memoize is transparent, deterministic and evaluates its
   body at most once per position, for left-recursion-free grammars.
   Part 0: definitions ([consuming], [edge_ok], left-recursion freedom [lr_free], views of the engine).
   Part 1: the plain (Memoize-free) engine does not depend on its context ([plain_indep]).
   Part 2: ranks, per-element bounds of sequences, spans ([deep_ge]).
   Part 3: memo-side invariants (no curtailment, spans, consumption, at most once: [minv_fuel]),
           then the simulation memoised run / plain run ([trans_fuel]).
   Part 4: the theorems [C03_once], [C03_transparent], [C03_transparent_subset], [C03_deterministic].
   Part 5: decidable checks ([lr_free_check], [lr_free_auto]) and examples. *)
From Coq Require Import String List NArith ZArith Bool Arith Lia Permutation.
From Parsley Require Import Obs Base Grammar Engine TermFacts EngineFacts SetMapFacts EngineHarness.
Import ListNotations.
Open Scope N_scope.

(* TermFacts (through ReaderProofs: ZifyN and a [zify_post_hook]) switches [lia] to the euclidean-division
   preprocessing, which generalises over every section variable in sight: lemmas proved by [lia] inside a
   section would silently get extra arguments ([lrc_below_le rk rrk cons ..] instead of [lrc_below_le rk ..]).
   This file has no division; switch it off here and restore TermFacts' setting at the end of the file. *)
Ltac Zify.zify_convert_to_euclidean_division_equations_flag ::= constr:(false).
Ltac Zify.zify_post_hook ::= idtac.

(* ------------------------------------------------------------------------------------- *)
(* Part 0: definitions                                                                    *)
(* ------------------------------------------------------------------------------------- *)

(* induction on expressions with the list operands covered by [Forall] *)
Section PexprInd.
  Variable P : pexpr -> Prop.
  Hypothesis HTerm : forall t, P (PTerm t).
  Hypothesis HEmpty : P PEmpty.
  Hypothesis HEnd : P PEnd.
  Hypothesis HRef : forall k, P (PRef k).
  Hypothesis HMemo : forall idx p, P p -> P (PMemo idx p).
  Hypothesis HAny : forall ps, Forall P ps -> P (PAny ps).
  Hypothesis HChoice : forall ps, Forall P ps -> P (PChoice ps).
  Hypothesis HOpt : forall p, P p -> P (POpt p).
  Hypothesis HSeq : forall k ip s nm ps, Forall P ps -> P (PSeq k ip s nm ps).
  Hypothesis HName : forall nm p, P p -> P (PName nm p).
  Hypothesis HLeft : forall m p, P p -> P (PLeftTrim m p).
  Hypothesis HRight : forall m p, P p -> P (PRightTrim m p).
  Hypothesis HSuppress : forall p, P p -> P (PSuppress p).
  Hypothesis HSingle : forall p, P p -> P (PSingle p).
  Fixpoint pexpr_ind2 (e : pexpr) : P e :=
    let all := fix go (l : list pexpr) : Forall P l :=
                 match l with [] => Forall_nil P | x :: t => Forall_cons x (pexpr_ind2 x) (go t) end in
    match e with
    | PTerm t => HTerm t
    | PEmpty => HEmpty
    | PEnd => HEnd
    | PRef k => HRef k
    | PMemo idx p => HMemo idx p (pexpr_ind2 p)
    | PAny ps => HAny ps (all ps)
    | PChoice ps => HChoice ps (all ps)
    | POpt p => HOpt p (pexpr_ind2 p)
    | PSeq k ip s nm ps => HSeq k ip s nm ps (all ps)
    | PName nm p => HName nm p (pexpr_ind2 p)
    | PLeftTrim m p => HLeft m p (pexpr_ind2 p)
    | PRightTrim m p => HRight m p (pexpr_ind2 p)
    | PSuppress p => HSuppress p (pexpr_ind2 p)
    | PSingle p => HSingle p (pexpr_ind2 p)
    end.
End PexprInd.

(* no Memoize wrapper anywhere *)
Fixpoint nomemo (e : pexpr) : bool :=
  match e with
  | PTerm _ | PEmpty | PEnd | PRef _ => true
  | PMemo _ _ => false
  | PAny ps | PChoice ps | PSeq _ _ _ _ ps => forallb nomemo ps
  | POpt p | PName _ p | PLeftTrim _ p | PRightTrim _ p | PSuppress p | PSingle p => nomemo p
  end.

(* CONSUMING (non-nullable), relative to a labelling [cons] of the rules: every node the
   expression returns ends strictly after the start.  Conservative: Empty, End, Optional and
   Single are never consuming; a sequence is consuming when an element that every emitted
   result must contain is. *)
(* a terminal is consuming when a match certainly moves: every rune, every literal except a user
   regular expression that can match the empty string (TermFacts.term_strict) *)
Definition term_consuming (t : terminal) : bool := term_strict t.
Definition hd_ok (f : pexpr -> bool) (ps : list pexpr) : bool := match ps with p :: _ => f p | [] => false end.
Fixpoint consuming (cons : N -> bool) (e : pexpr) : bool :=
  match e with
  | PTerm t => term_consuming t
  | PRef k => cons k
  | PMemo _ p | PName _ p | PSuppress p | PLeftTrim _ p | PRightTrim _ p => consuming cons p
  | PAny ps | PChoice ps => forallb (consuming cons) ps
  | PSeq k _ _ _ ps =>
    match k with
    | SeqOf => existsb (consuming cons) ps
    | SeqTry | SeqFirstOrAll => match ps with p :: _ => consuming cons p | [] => false end
    | SMany ae | SSepBy ae => negb ae && match ps with p :: _ => consuming cons p | [] => false end
    end
  | PEmpty | PEnd | POpt _ | PSingle _ => false
  end.
(* the labelling is justified by the rule bodies (coinductively: a rule that never returns is vacuously consuming) *)
Fixpoint cons_ok (cons : N -> bool) (k : N) (rules : list pexpr) : bool :=
  match rules with
  | [] => true
  | body :: t => implb (cons k) (consuming cons body) && cons_ok cons (k + 1) t
  end.

(* the Memoize sites of an expression: (index, wrapped expression) *)
Fixpoint memos (e : pexpr) : list (N * pexpr) :=
  match e with
  | PTerm _ | PEmpty | PEnd | PRef _ => []
  | PMemo idx p => (idx, p) :: memos p
  | PAny ps | PChoice ps | PSeq _ _ _ _ ps => flat_map memos ps
  | POpt p | PName _ p | PLeftTrim _ p | PRightTrim _ p | PSuppress p | PSingle p => memos p
  end.
Definition all_memos (rules : list pexpr) (root : pexpr) : list (N * pexpr) := flat_map memos (root :: rules).
(* an index identifies the wrapped expression (one Memoize object may be used in several places) *)
Definition memo_fun (M : list (N * pexpr)) : Prop :=
  forall idx p p', In (idx, p) M -> In (idx, p') M -> p = p'.

(* sequence kinds whose element number [depth] is element [depth] of the operand list *)
Definition linear (k : seqkind) : bool :=
  match k with SeqOf | SeqTry | SeqFirstOrAll => true | _ => false end.

(* LEFT-RECURSION FREEDOM, relative to a ranking [rk] of the Memoize indexes and [rrk] of the
   rules.  [edge_ok b e]: when [e] is evaluated and every Memoize index counted in the current
   left-recursion context has a rank below [b], then every Memoize reached from [e] before input
   is consumed has a rank >= [b], ranks strictly increase along such a chain, and a reference
   reached that way points to a rule of rank >= [b].  After a syntactically consuming element
   of a SeqOf/SeqTry/SeqFirstOrAll the bound drops to 0 (the engine resets the context there). *)
Section EdgeOk.
  Variable rk : N -> N.
  Variable rrk : N -> N.
  Variable cons : N -> bool.
  Fixpoint edge_ok (b : N) (e : pexpr) : bool :=
    match e with
    | PTerm _ | PEmpty | PEnd => true
    | PRef k => b <=? rrk k
    | PMemo idx p => (b <=? rk idx) && edge_ok (rk idx + 1) p
    | PAny ps | PChoice ps => forallb (edge_ok b) ps
    | POpt p | PName _ p | PLeftTrim _ p | PRightTrim _ p | PSuppress p | PSingle p => edge_ok b p
    | PSeq k _ _ _ ps =>
      (fix go (b' : N) (l : list pexpr) : bool :=
         match l with
         | [] => true
         | p :: t => edge_ok b' p && go (if linear k && consuming cons p then 0 else b') t
         end) b ps
    end.
  Definition seq_go (k : seqkind) :=
    fix go (b' : N) (l : list pexpr) : bool :=
      match l with
      | [] => true
      | p :: t => edge_ok b' p && go (if linear k && consuming cons p then 0 else b') t
      end.
  Lemma edge_ok_seq b k ip s nm ps : edge_ok b (PSeq k ip s nm ps) = seq_go k b ps.
  Proof. reflexivity. Qed.

  (* the bound in force for element number [d] *)
  Fixpoint bound_at (k : seqkind) (b : N) (ps : list pexpr) (d : nat) : N :=
    match d, ps with
    | O, _ => b
    | S d', p :: t => bound_at k (if linear k && consuming cons p then 0 else b) t d'
    | S _, [] => b
    end.

  Fixpoint rules_ok (k : N) (rules : list pexpr) : bool :=
    match rules with [] => true | body :: t => edge_ok (rrk k) body && rules_ok (k + 1) t end.
  Definition lr_rank_ok (rules : list pexpr) (root : pexpr) : bool :=
    edge_ok 0 root && rules_ok 0 rules.
End EdgeOk.

(* H: the grammar is left-recursion free *)
Definition lr_free (rules : list pexpr) (root : pexpr) : Prop :=
  memo_fun (all_memos rules root) /\
  exists rk rrk cons, lr_rank_ok rk rrk cons rules root = true /\ cons_ok cons 0 rules = true.

(* a decidable sufficient condition for [memo_fun]: every index is used by one wrapper *)
Fixpoint nodup_N (l : list N) : bool :=
  match l with [] => true | x :: t => negb (existsb (N.eqb x) t) && nodup_N t end.
Definition lr_free_check (rk rrk : N -> N) (cons : N -> bool) (rules : list pexpr) (root : pexpr) : bool :=
  nodup_N (map fst (all_memos rules root)) && lr_rank_ok rk rrk cons rules root && cons_ok cons 0 rules.

(* ---- the furthest error of a context, as a number (0 = none, p+1 = at position p) ---- *)
Definition epn (o : option perr) : N := match o with None => 0 | Some e => epos e + 1 end.
Definition ep (c : ctx) : N := epn (cerr c).
(* two contexts advanced by the same amount *)
Definition grow (x x' y y' : N) : Prop := exists d, x' = N.max x d /\ y' = N.max y d.

Lemma epn_max_err a b : epn (max_err a b) = N.max (epn a) (epn b).
Proof.
  destruct a as [o|], b as [e|]; cbn [max_err epn]; try lia.
  destruct (epos o <=? epos e) eqn:E; cbn [epn]; [apply N.leb_le in E|apply N.leb_gt in E]; lia.
Qed.
Lemma ep_set_error c e : ep (set_error c e) = N.max (ep c) (epn e).
Proof. unfold ep. cbn [set_error cerr]. apply epn_max_err. Qed.
Lemma epn_option_map a b : epn a = epn b -> option_map epos a = option_map epos b.
Proof. destruct a, b; cbn [epn option_map]; intros H; try lia; [f_equal; lia|reflexivity]. Qed.

Lemma grow_refl x y : grow x x y y.
Proof. exists 0. split; lia. Qed.
Lemma grow_trans x x' x'' y y' y'' : grow x x' y y' -> grow x' x'' y' y'' -> grow x x'' y y''.
Proof. intros [d [A B]] [d' [A' B']]. exists (N.max d d'). split; lia. Qed.
Lemma grow_max x x' y y' k : grow x x' y y' -> grow x (N.max x' k) y (N.max y' k).
Proof. intros [d [A B]]. exists (N.max d k). split; lia. Qed.
Lemma grow_le x x' y y' : grow x x' y y' -> x <= x' /\ y <= y'.
Proof. intros [d [A B]]. split; lia. Qed.

(* ---- whitespace skipping never moves backwards ---- *)
Lemma ws_scan_ge l : forall pos nl, pos <= fst (ws_scan l pos nl).
Proof.
  induction l as [|b t IH]; intros pos nl; cbn [ws_scan fst]; [lia|].
  destruct (is_ws b); cbn [fst]; [|lia].
  specialize (IH (pos + 1) (if is_nl b && (nl =? 0) then pos else nl)). lia.
Qed.
Lemma skip_ws_ge inp pos m : pos <= fst (skip_ws inp pos m).
Proof.
  unfold skip_ws.
  pose proof (ws_scan_ge (skipn (N.to_nat (pos - i_offset inp)) (i_data inp)) pos 0) as H.
  destruct (ws_scan (skipn (N.to_nat (pos - i_offset inp)) (i_data inp)) pos 0) as [e nl]. cbn [fst] in H.
  destruct m; [destruct (pos <? e)|destruct (0 <? nl)| |destruct (nl =? 0)]; cbn [fst]; exact H.
Qed.

(* ---- views of the engine's step functions that name their pure parts ---- *)
Definition ltrim_ctx (c' : ctx) (pos pos1 : N) : ctx :=
  match cerr c' with
  | Some ce => if (epos ce =? pos1) && is_notfound ce then set_error c' (Some (mk_err pos (ecause ce))) else c'
  | None => c'
  end.
Definition ltrim_out (pos pos1 : N) (wserr : option perr) (res : list node) (cp : intset) (err : option perr)
  : list node * intset * option perr :=
  match err with
  | Some e =>
    match wserr with
    | Some w => if pos1 <? epos e then ([], [], Some w)
                else if is_notfound e then (res, cp, Some (mk_err pos (ecause e)))
                else (res, cp, Some e)
    | None => (res, cp, Some e)
    end
  | None => match wserr with Some w => ([], [], Some w) | None => (res, cp, None) end
  end.
Lemma parse_step_ltrim inp rules rp rs m p c stk lrc pos :
  parse_step inp rules rp rs (PLeftTrim m p) c stk lrc pos =
  bind (rp p c stk lrc (fst (skip_ws inp pos m))) (fun '(res, cp, err, c') =>
    let '(a, b, d) := ltrim_out pos (fst (skip_ws inp pos m)) (snd (skip_ws inp pos m)) res cp err in
    Ok (a, b, d, ltrim_ctx c' pos (fst (skip_ws inp pos m)))).
Proof.
  cbn [parse_step]. destruct (skip_ws inp pos m) as [pos1 wserr]. cbn [fst snd].
  destruct (rp p c stk lrc pos1) as [[[[res cp] err] c']| |]; cbn [bind]; try reflexivity.
  unfold ltrim_out, ltrim_ctx.
  destruct err as [e|], wserr as [w|]; try reflexivity.
  destruct (pos1 <? epos e); [reflexivity|]. destruct (is_notfound e); reflexivity.
Qed.
Lemma ep_ltrim c' pos pos1 : pos <= pos1 -> ep (ltrim_ctx c' pos pos1) = ep c'.
Proof.
  intros Hle. unfold ltrim_ctx. destruct (cerr c') as [ce|] eqn:E; [|reflexivity].
  destruct ((epos ce =? pos1) && is_notfound ce) eqn:E1; [|reflexivity].
  apply andb_true_iff in E1. destruct E1 as [E1 _]. apply N.eqb_eq in E1.
  rewrite ep_set_error. unfold ep. rewrite E. cbn [epn mk_err epos]. lia.
Qed.
Lemma cache_ltrim c' pos pos1 : cache (ltrim_ctx c' pos pos1) = cache c'.
Proof.
  unfold ltrim_ctx. destruct (cerr c') as [ce|]; [|reflexivity].
  destruct ((epos ce =? pos1) && is_notfound ce); reflexivity.
Qed.
Lemma bodies_ltrim c' pos pos1 : g_bodies (ltrim_ctx c' pos pos1) = g_bodies c'.
Proof.
  unfold ltrim_ctx. destruct (cerr c') as [ce|]; [|reflexivity].
  destruct ((epos ce =? pos1) && is_notfound ce); reflexivity.
Qed.
Lemma ltrim_out_cases pos pos1 wserr res cp err a b d :
  ltrim_out pos pos1 wserr res cp err = (a, b, d) -> (a = [] /\ b = []) \/ (a = res /\ b = cp).
Proof.
  unfold ltrim_out. destruct err as [e|], wserr as [w|]; try (intros H; inversion H; subst; auto; fail).
  destruct (pos1 <? epos e); [|destruct (is_notfound e)]; intros H; inversion H; subst; auto.
Qed.

(* the result of a sequence-family parser, from the final search state *)
Definition seq_out (name : option (list N)) (pos : N) (st : seqst) (c' : ctx) : pres :=
  match s_res st with
  | [] => ([], s_cp st, match name, s_err st with Some nm, Some e => Some (rename_err nm pos e) | _, e => e end, c')
  | _ => (s_res st, s_cp st, None, set_error c' (s_err st))
  end.
Definition st0 : seqst := {| s_cp := []; s_res := []; s_err := None; s_nodes := [] |}.
Lemma parse_step_seq inp rules rp rs k ip single name ps c stk lrc pos :
  parse_step inp rules rp rs (PSeq k ip single name ps) c stk lrc pos =
  bind (rs {| q_kind := k; q_ip := ip; q_single := single; q_ps := ps |} 0%nat c stk lrc pos true st0)
       (fun '(_, st, c') => Ok (seq_out name pos st c')).
Proof.
  cbn [parse_step]. fold st0.
  destruct (rs _ 0%nat c stk lrc pos true st0) as [[[stop st] c']| |]; cbn [bind]; try reflexivity.
  unfold seq_out. destruct (s_res st); reflexivity.
Qed.

(* the state after one element returned, and the emission of a completed result *)
Definition st_after (st : seqst) (m : bool) (cp : intset) (err : option perr) : seqst :=
  {| s_cp := if m then set_union (s_cp st) cp else s_cp st; s_res := s_res st;
     s_err := keep_max (s_err st) err; s_nodes := s_nodes st |}.
Definition emit (q : seqinfo) (d : nat) (pos : N) (st1 : seqst) : bool * seqst :=
  if seq_lencheck (q_kind q) (length (q_ps q)) d then
    let st2 := {| s_cp := s_cp st1; s_res := append_node (s_res st1) [handle_result q pos (rev (s_nodes st1))];
                  s_err := s_err st1; s_nodes := s_nodes st1 |} in
    match s_nodes st1 with [] => (false, st2) | lastn :: _ => (is_eof_node lastn, st2) end
  else (false, st1).
Definition seq_sub (rp : ptype) (q : seqinfo) (d : nat) (c : ctx) (stk : stack) (lrc : intmap) (pos : N) : outcome pres :=
  match seq_lookup (q_kind q) (q_ps q) d with
  | Some p => rp p (reg_call c) stk lrc pos
  | None => Ok ([], [], None, c)
  end.
Lemma seq_step_view rp rs q d c stk lrc pos m st :
  seq_step rp rs q d c stk lrc pos m st =
  bind (seq_sub rp q d c stk lrc pos) (fun '(res, cp, err, c1) =>
    match res with
    | [] => let '(stop, st2) := emit q d pos (st_after st m cp err) in Ok (stop, st2, c1)
    | _ => alts_loop rs q d stk lrc pos m (s_nodes st) res (st_after st m cp err) c1
    end).
Proof.
  unfold seq_step, seq_sub.
  destruct (match seq_lookup (q_kind q) (q_ps q) d with Some p => rp p (reg_call c) stk lrc pos | None => Ok ([], [], None, c) end)
    as [[[[res cp] err] c1]| |]; cbn [bind]; try reflexivity.
  destruct res; [|reflexivity]. unfold emit, st_after. cbn [s_cp s_res s_err s_nodes].
  destruct (seq_lencheck (q_kind q) (length (q_ps q)) d); [|reflexivity].
  destruct (s_nodes st); reflexivity.
Qed.

Lemma seq_lookup_in k ps d p : seq_lookup k ps d = Some p -> In p ps.
Proof. destruct k; cbn [seq_lookup]; apply nth_error_In. Qed.
Lemma seq_lookup_map f k ps d : seq_lookup k (map f ps) d = option_map f (seq_lookup k ps d).
Proof. destruct k; cbn [seq_lookup]; apply nth_error_map. Qed.

Lemma append_nodes_in_inv l : forall acc n, In n (append_nodes acc l) -> In n acc \/ In n l.
Proof.
  induction l as [|x l IH]; intros acc n H; cbn [append_nodes] in H; [left; exact H|].
  assert (Hgen : In n (append_nodes (acc ++ [x]) l) -> In n acc \/ In n (x :: l)).
  { intros H'. apply IH in H'. destruct H' as [H'|H']; [|right; right; exact H'].
    apply in_app_or in H'. destruct H' as [H'|[H'|[]]]; [left; exact H'|right; left; exact H']. }
  destruct x; try (apply Hgen; exact H).
  destruct (has_empty pos acc); [|apply Hgen; exact H].
  apply IH in H. destruct H as [H|H]; [left; exact H|right; right; exact H].
Qed.
Lemma append_node_in_inv a b n : In n (append_node a b) -> In n a \/ In n b.
Proof.
  unfold append_node. destruct a as [|x a]; [intros H; right; exact H|]. apply append_nodes_in_inv.
Qed.

Lemma term_parse_consuming inp t pos res err n :
  term_consuming t = true -> term_parse inp t pos = (res, err) -> In n res -> pos < node_rpos n.
Proof.
  destruct t as [ch|l].
  - intros _ H Hin. unfold term_parse in H.
    destruct (byte_at inp pos) as [b|]; [destruct (b =? ch)|]; inversion H; subst; try (destruct Hin; fail).
    destruct Hin as [E|[]]. subst n. cbn [node_rpos]. lia.
  - unfold term_consuming. cbn [term_strict]. intros Hs H Hin.
    destruct (term_parse_cases _ _ _ _ _ H) as [->|[n0 [-> ->]]]; [destruct Hin|].
    destruct Hin as [E|[]]. subst n0.
    apply term_parse_lit_node in H. destruct H as (_ & tok & v & r & -> & _ & _ & _ & Hlt).
    cbn [node_rpos]. exact (Hlt Hs).
Qed.

(* without the hypothesis: a terminal's node does not end before the position *)
Lemma term_parse_rpos_ge inp t pos res err n :
  term_parse inp t pos = (res, err) -> In n res -> exists tok v r, n = NTerm tok v pos r /\ pos <= r.
Proof.
  intros H Hin. destruct (term_parse_cases _ _ _ _ _ H) as [->|[n0 [-> ->]]]; [destruct Hin|].
  destruct Hin as [E|[]]. subst n0. destruct t as [ch|l].
  - apply term_parse_rune_node in H. destruct H as (_ & -> & _). do 3 eexists. split; [reflexivity|lia].
  - apply term_parse_lit_node in H. destruct H as (_ & tok & v & r & -> & _ & Hle & _ & _).
    exists tok, v, r. split; [reflexivity|exact Hle].
Qed.

(* combinator.Single's unwrapping *)
Definition single_out (res : list node) : list node :=
  match res with [NNonTerm _ _ [ch] _ _] => [ch] | _ => res end.
Lemma single_view (res : list node) (cp : intset) (c' : ctx) :
  match res with
  | [NNonTerm _ _ [ch] _ _] => Ok ([ch], cp, @None perr, c')
  | _ => Ok (res, cp, None, c')
  end = Ok (single_out res, cp, None, c').
Proof.
  destruct res as [|n t]; [reflexivity|]. destruct n; try reflexivity.
  destruct children as [|ch [|]]; try reflexivity. destruct t; reflexivity.
Qed.

(* ---- strip_memo ---- *)
Lemma forallb_map {A B} (f : B -> bool) (g : A -> B) l : forallb f (map g l) = forallb (fun x => f (g x)) l.
Proof. induction l as [|x l IH]; cbn [map forallb]; [reflexivity|rewrite IH; reflexivity]. Qed.
Lemma forallb_Forall_ext {A} (f g : A -> bool) l : Forall (fun x => f x = g x) l -> forallb f l = forallb g l.
Proof. induction 1 as [|x l Hx _ IH]; cbn [forallb]; [reflexivity|rewrite Hx, IH; reflexivity]. Qed.

Lemma nomemo_strip e : nomemo (strip_memo e) = true.
Proof.
  induction e using pexpr_ind2; cbn [strip_memo nomemo]; try reflexivity; try assumption;
    rewrite forallb_map; apply forallb_forall; rewrite Forall_forall in H; exact H.
Qed.

(* ------------------------------------------------------------------------------------- *)
(* Part 1: the plain engine does not depend on its context                                *)
(* ------------------------------------------------------------------------------------- *)
Section Plain.
  Variable inp : input.
  Variable prules : list pexpr.
  Hypothesis Hnm : forall k body, nth_N prules k = Some body -> nomemo body = true.

  (* one recursion, used from two contexts / stacks / left-recursion contexts *)
  Definition pind (rp : ptype) : Prop :=
    forall e pos c1 stk1 l1 c2 stk2 l2 ns1 cp1 err1 c1' ns2 cp2 err2 c2',
      nomemo e = true ->
      rp e c1 stk1 l1 pos = Ok (ns1, cp1, err1, c1') ->
      rp e c2 stk2 l2 pos = Ok (ns2, cp2, err2, c2') ->
      ns1 = ns2 /\ err1 = err2 /\ cp1 = [] /\ cp2 = [] /\ grow (ep c1) (ep c1') (ep c2) (ep c2').
  Definition sind (rs : stype) : Prop :=
    forall q d pos m st c1 stk1 l1 c2 stk2 l2 stop1 st1' c1' stop2 st2' c2',
      forallb nomemo (q_ps q) = true -> s_cp st = [] ->
      rs q d c1 stk1 l1 pos m st = Ok (stop1, st1', c1') ->
      rs q d c2 stk2 l2 pos m st = Ok (stop2, st2', c2') ->
      stop1 = stop2 /\ st1' = st2' /\ s_cp st1' = [] /\ grow (ep c1) (ep c1') (ep c2) (ep c2').

  Section Step.
    Variable rp : ptype.
    Variable rs : stype.
    Hypothesis Hp : pind rp.
    Hypothesis Hs : sind rs.

    Lemma any_loop_ind pos ps : forall a1 a2 c1 stk1 l1 c2 stk2 l2 res err nf ns1 cp1 err1 c1' ns2 cp2 err2 c2',
      forallb nomemo ps = true -> grow a1 (ep c1) a2 (ep c2) ->
      any_loop rp stk1 l1 pos ps c1 [] res err nf = Ok (ns1, cp1, err1, c1') ->
      any_loop rp stk2 l2 pos ps c2 [] res err nf = Ok (ns2, cp2, err2, c2') ->
      ns1 = ns2 /\ err1 = err2 /\ cp1 = [] /\ cp2 = [] /\ grow a1 (ep c1') a2 (ep c2').
    Proof.
      induction ps as [|p ps IH]; intros a1 a2 c1 stk1 l1 c2 stk2 l2 res err nf ns1 cp1 err1 c1' ns2 cp2 err2 c2' Hn Hg H1 H2;
        cbn [any_loop] in H1, H2.
      - destruct res; inversion H1; inversion H2; subst; do 4 (split; [reflexivity|]); [exact Hg|].
        rewrite !ep_set_error. apply grow_max. exact Hg.
      - cbn [forallb] in Hn. apply andb_true_iff in Hn. destruct Hn as [Hn1 Hn2].
        apply bind_ok in H1. destruct H1 as [[[[r1 q1] e1] d1] [H1 H1']].
        apply bind_ok in H2. destruct H2 as [[[[r2 q2] e2] d2] [H2 H2']].
        destruct (Hp p pos _ _ _ _ _ _ _ _ _ _ _ _ _ _ Hn1 H1 H2) as [E1 [E2 [E3 [E4 G]]]]. subst r2 e2 q1 q2.
        destruct (alt_err pos err nf e1) as [err' nf']. cbn [set_union fold_left] in H1', H2'.
        eapply (IH a1 a2); [exact Hn2| |exact H1'|exact H2'].
        eapply grow_trans; [exact Hg|exact G].
    Qed.

    Lemma choice_loop_ind pos ps : forall a1 a2 c1 stk1 l1 c2 stk2 l2 err nf ns1 cp1 err1 c1' ns2 cp2 err2 c2',
      forallb nomemo ps = true -> grow a1 (ep c1) a2 (ep c2) ->
      choice_loop rp stk1 l1 pos ps c1 [] err nf = Ok (ns1, cp1, err1, c1') ->
      choice_loop rp stk2 l2 pos ps c2 [] err nf = Ok (ns2, cp2, err2, c2') ->
      ns1 = ns2 /\ err1 = err2 /\ cp1 = [] /\ cp2 = [] /\ grow a1 (ep c1') a2 (ep c2').
    Proof.
      induction ps as [|p ps IH]; intros a1 a2 c1 stk1 l1 c2 stk2 l2 err nf ns1 cp1 err1 c1' ns2 cp2 err2 c2' Hn Hg H1 H2;
        cbn [choice_loop] in H1, H2.
      - inversion H1; inversion H2; subst. do 4 (split; [reflexivity|]). exact Hg.
      - cbn [forallb] in Hn. apply andb_true_iff in Hn. destruct Hn as [Hn1 Hn2].
        apply bind_ok in H1. destruct H1 as [[[[r1 q1] e1] d1] [H1 H1']].
        apply bind_ok in H2. destruct H2 as [[[[r2 q2] e2] d2] [H2 H2']].
        destruct (Hp p pos _ _ _ _ _ _ _ _ _ _ _ _ _ _ Hn1 H1 H2) as [E1 [E2 [E3 [E4 G]]]]. subst r2 e2 q1 q2.
        destruct (alt_err pos err nf e1) as [err' nf']. cbn [set_union fold_left] in H1', H2'.
        assert (G' : grow a1 (ep d1) a2 (ep d2)) by (eapply grow_trans; [exact Hg|exact G]).
        destruct r1 as [|n1 r1].
        + exact (IH a1 a2 d1 stk1 l1 d2 stk2 l2 _ _ _ _ _ _ _ _ _ _ Hn2 G' H1' H2').
        + inversion H1'; inversion H2'; subst. do 4 (split; [reflexivity|]).
          rewrite !ep_set_error; apply grow_max; exact G'.
    Qed.

    Lemma parse_step_ind : pind (parse_step inp prules rp rs).
    Proof.
      intros e pos c1 stk1 l1 c2 stk2 l2 ns1 cp1 err1 c1' ns2 cp2 err2 c2' Hn H1 H2.
      destruct e; cbn [nomemo] in Hn; try discriminate.
      - (* PTerm *) cbn [parse_step] in H1, H2. destruct (term_parse inp t pos) as [res terr] eqn:E.
        inversion H1; inversion H2; subst. do 4 (split; [reflexivity|]).
        destruct ns2; [destruct err2|]; apply grow_refl.
      - (* PEmpty *) cbn [parse_step] in H1, H2. inversion H1; inversion H2; subst.
        do 4 (split; [reflexivity|]). apply grow_refl.
      - (* PEnd *) cbn [parse_step] in H1, H2. destruct (is_eof inp pos); inversion H1; inversion H2; subst;
          do 4 (split; [reflexivity|]); apply grow_refl.
      - (* PRef *) cbn [parse_step] in H1, H2. destruct (nth_N prules k) as [body|] eqn:E; [|discriminate].
        exact (Hp body pos _ _ _ _ _ _ _ _ _ _ _ _ _ _ (Hnm k body E) H1 H2).
      - (* PAny *) cbn [parse_step] in H1, H2.
        exact (any_loop_ind pos ps (ep c1) (ep c2) _ _ _ _ _ _ _ _ _ _ _ _ _ _ _ _ _ Hn (grow_refl _ _) H1 H2).
      - (* PChoice *) cbn [parse_step] in H1, H2.
        exact (choice_loop_ind pos ps (ep c1) (ep c2) _ _ _ _ _ _ _ _ _ _ _ _ _ _ _ _ Hn (grow_refl _ _) H1 H2).
      - (* POpt *) cbn [parse_step] in H1, H2.
        apply bind_ok in H1. destruct H1 as [[[[r1 q1] e1] d1] [H1 H1']].
        apply bind_ok in H2. destruct H2 as [[[[r2 q2] e2] d2] [H2 H2']].
        destruct (Hp e pos _ _ _ _ _ _ _ _ _ _ _ _ _ _ Hn H1 H2) as [E1 [E2 [E3 [E4 G]]]].
        inversion H1'; inversion H2'; subst. do 4 (split; [reflexivity|]). exact G.
      - (* PSeq *) rewrite parse_step_seq in H1, H2.
        apply bind_ok in H1. destruct H1 as [[[s1 t1] d1] [H1 H1']].
        apply bind_ok in H2. destruct H2 as [[[s2 t2] d2] [H2 H2']].
        destruct (Hs {| q_kind := k; q_ip := ip; q_single := single; q_ps := ps |} 0%nat pos true st0 _ _ _ _ _ _ _ _ _ _ _ _ Hn eq_refl H1 H2) as [_ [E2 [E3 G]]]. subst t2.
        unfold seq_out in H1', H2'. rewrite E3 in H1', H2'.
        destruct (s_res t1); inversion H1'; inversion H2'; subst; do 4 (split; [reflexivity|]); [exact G|].
        rewrite !ep_set_error. apply grow_max. exact G.
      - (* PName *) cbn [parse_step] in H1, H2.
        apply bind_ok in H1. destruct H1 as [[[[r1 q1] e1] d1] [H1 H1']].
        apply bind_ok in H2. destruct H2 as [[[[r2 q2] e2] d2] [H2 H2']].
        destruct (Hp e pos _ _ _ _ _ _ _ _ _ _ _ _ _ _ Hn H1 H2) as [E1 [E2 [E3 [E4 G]]]]. subst r2 e2 q1 q2.
        destruct e1 as [x|]; [|destruct r1]; inversion H1'; inversion H2'; subst; do 4 (split; [reflexivity|]); exact G.
      - (* PLeftTrim *) rewrite parse_step_ltrim in H1, H2.
        apply bind_ok in H1. destruct H1 as [[[[r1 q1] e1] d1] [H1 H1']].
        apply bind_ok in H2. destruct H2 as [[[[r2 q2] e2] d2] [H2 H2']].
        destruct (Hp e _ _ _ _ _ _ _ _ _ _ _ _ _ _ _ Hn H1 H2) as [E1 [E2 [E3 [E4 G]]]]. subst r2 e2 q1 q2.
        pose proof (skip_ws_ge inp pos m) as Hge.
        destruct (ltrim_out pos (fst (skip_ws inp pos m)) (snd (skip_ws inp pos m)) r1 [] e1) as [[a b] d] eqn:Eo.
        inversion H1'; inversion H2'; subst.
        destruct (ltrim_out_cases _ _ _ _ _ _ _ _ _ Eo) as [[A B]|[A B]]; subst;
          do 4 (split; [reflexivity|]); rewrite !ep_ltrim by exact Hge; exact G.
      - (* PRightTrim *) cbn [parse_step] in H1, H2.
        apply bind_ok in H1. destruct H1 as [[[[r1 q1] e1] d1] [H1 H1']].
        apply bind_ok in H2. destruct H2 as [[[[r2 q2] e2] d2] [H2 H2']].
        destruct (Hp e pos _ _ _ _ _ _ _ _ _ _ _ _ _ _ Hn H1 H2) as [E1 [E2 [E3 [E4 G]]]]. subst r2 e2 q1 q2.
        destruct e1 as [x|].
        + inversion H1'; inversion H2'; subst. do 4 (split; [reflexivity|]). exact G.
        + destruct (trim_nodes inp m r1 None) as [res' wserr]. destruct wserr; inversion H1'; inversion H2'; subst;
            do 4 (split; [reflexivity|]); exact G.
      - (* PSuppress *) cbn [parse_step] in H1, H2.
        apply bind_ok in H1. destruct H1 as [[[[r1 q1] e1] d1] [H1 H1']].
        apply bind_ok in H2. destruct H2 as [[[[r2 q2] e2] d2] [H2 H2']].
        destruct (Hp e pos _ _ _ _ _ _ _ _ _ _ _ _ _ _ Hn H1 H2) as [E1 [E2 [E3 [E4 G]]]].
        inversion H1'; inversion H2'; subst. do 4 (split; [reflexivity|]). exact G.
      - (* PSingle *) cbn [parse_step] in H1, H2.
        apply bind_ok in H1. destruct H1 as [[[[r1 q1] e1] d1] [H1 H1']].
        apply bind_ok in H2. destruct H2 as [[[[r2 q2] e2] d2] [H2 H2']].
        destruct (Hp e pos _ _ _ _ _ _ _ _ _ _ _ _ _ _ Hn H1 H2) as [E1 [E2 [E3 [E4 G]]]]. subst r2 e2 q1 q2.
        destruct e1 as [x|].
        + inversion H1'; inversion H2'; subst. do 4 (split; [reflexivity|]). exact G.
        + rewrite single_view in H1', H2'.
          inversion H1'; inversion H2'; subst. do 4 (split; [reflexivity|]). exact G.
    Qed.

    Lemma alts_loop_ind q d pos m prefix ns : forall a1 a2 st c1 stk1 l1 c2 stk2 l2 stop1 st1' c1' stop2 st2' c2',
      forallb nomemo (q_ps q) = true -> s_cp st = [] -> grow a1 (ep c1) a2 (ep c2) ->
      alts_loop rs q d stk1 l1 pos m prefix ns st c1 = Ok (stop1, st1', c1') ->
      alts_loop rs q d stk2 l2 pos m prefix ns st c2 = Ok (stop2, st2', c2') ->
      stop1 = stop2 /\ st1' = st2' /\ s_cp st1' = [] /\ grow a1 (ep c1') a2 (ep c2').
    Proof.
      induction ns as [|n ns IH]; intros a1 a2 st c1 stk1 l1 c2 stk2 l2 stop1 st1' c1' stop2 st2' c2' Hn Hcp Hg H1 H2;
        cbn [alts_loop] in H1, H2.
      - inversion H1; inversion H2; subst. do 2 (split; [reflexivity|]). split; assumption.
      - apply bind_ok in H1. destruct H1 as [[[s1 t1] d1] [H1 H1']].
        apply bind_ok in H2. destruct H2 as [[[s2 t2] d2] [H2 H2']].
        destruct (Hs q (S d) (node_rpos n) _ {| s_cp := s_cp st; s_res := s_res st; s_err := s_err st; s_nodes := n :: prefix |}
                    _ _ _ _ _ _ _ _ _ _ _ _ Hn Hcp H1 H2) as [E1 [E2 [E3 G]]]. subst s2 t2.
        assert (G' : grow a1 (ep d1) a2 (ep d2)) by (eapply grow_trans; [exact Hg|exact G]).
        destruct s1.
        + inversion H1'; inversion H2'; subst. do 2 (split; [reflexivity|]). split; assumption.
        + exact (IH a1 a2 t1 d1 stk1 l1 d2 stk2 l2 _ _ _ _ _ _ Hn E3 G' H1' H2').
    Qed.

    Lemma seq_step_ind : sind (seq_step rp rs).
    Proof.
      intros q d pos m st c1 stk1 l1 c2 stk2 l2 stop1 st1' c1' stop2 st2' c2' Hn Hcp H1 H2.
      rewrite seq_step_view in H1, H2.
      apply bind_ok in H1. destruct H1 as [[[[r1 q1] e1] d1] [H1 H1']].
      apply bind_ok in H2. destruct H2 as [[[[r2 q2] e2] d2] [H2 H2']].
      assert (Hsub : r1 = r2 /\ e1 = e2 /\ q1 = [] /\ q2 = [] /\ grow (ep c1) (ep d1) (ep c2) (ep d2)).
      { unfold seq_sub in H1, H2. destruct (seq_lookup (q_kind q) (q_ps q) d) as [p|] eqn:El.
        - assert (Hnp : nomemo p = true).
          { rewrite forallb_forall in Hn. apply Hn. eapply seq_lookup_in; exact El. }
          destruct (Hp p pos _ _ _ _ _ _ _ _ _ _ _ _ _ _ Hnp H1 H2) as [E1 [E2 [E3 [E4 G]]]].
          do 4 (split; [assumption|]). exact G.
        - inversion H1; inversion H2; subst. do 4 (split; [reflexivity|]). apply grow_refl. }
      destruct Hsub as [E1 [E2 [E3 [E4 G]]]]. subst r2 e2 q1 q2.
      assert (Hcp1 : s_cp (st_after st m [] e1) = []).
      { unfold st_after. cbn [s_cp]. rewrite Hcp. destruct m; reflexivity. }
      destruct r1 as [|n r1].
      - destruct (emit q d pos (st_after st m [] e1)) as [stop st2] eqn:Ee.
        inversion H1'; inversion H2'; subst. do 2 (split; [reflexivity|]). split; [|exact G].
        unfold emit in Ee. destruct (seq_lencheck (q_kind q) (length (q_ps q)) d).
        + destruct (s_nodes (st_after st m [] e1)); inversion Ee; subst; cbn [s_cp]; exact Hcp1.
        + inversion Ee; subst. exact Hcp1.
      - exact (alts_loop_ind q d pos m _ (n :: r1) (ep c1) (ep c2) _ d1 stk1 l1 d2 stk2 l2 _ _ _ _ _ _ Hn Hcp1 G H1' H2').
    Qed.
  End Step.

  Theorem plain_ind_fuel : forall f, pind (parse inp prules f) /\ sind (seqp inp prules f).
  Proof.
    induction f as [|f [IHp IHs]].
    - split; intros until c2'; intros; discriminate.
    - split.
      + intros e pos c1 stk1 l1 c2 stk2 l2. rewrite !parse_S. apply parse_step_ind; assumption.
      + intros q d pos m st c1 stk1 l1 c2 stk2 l2. rewrite !seqp_S. apply seq_step_ind; assumption.
  Qed.

  (* THE INDEPENDENCE LEMMA: results and returned error of a plain run are a function of the
     expression and the position; its furthest error advances by an amount that depends on
     nothing else; it never reports a curtailing parser. *)
  Theorem plain_indep f1 f2 e pos c1 stk1 l1 c2 stk2 l2 ns1 cp1 err1 c1' ns2 cp2 err2 c2' :
    nomemo e = true ->
    parse inp prules f1 e c1 stk1 l1 pos = Ok (ns1, cp1, err1, c1') ->
    parse inp prules f2 e c2 stk2 l2 pos = Ok (ns2, cp2, err2, c2') ->
    ns1 = ns2 /\ err1 = err2 /\ cp1 = [] /\ cp2 = [] /\ grow (ep c1) (ep c1') (ep c2) (ep c2').
  Proof.
    intros Hn H1 H2.
    destruct (fuel_mono inp prules f1 (max f1 f2) (Nat.le_max_l _ _)) as [M1 _].
    destruct (fuel_mono inp prules f2 (max f1 f2) (Nat.le_max_r _ _)) as [M2 _].
    assert (H1' := M1 _ _ _ _ _ _ H1 ltac:(discriminate)).
    assert (H2' := M2 _ _ _ _ _ _ H2 ltac:(discriminate)).
    exact (proj1 (plain_ind_fuel (max f1 f2)) e pos _ _ _ _ _ _ _ _ _ _ _ _ _ _ Hn H1' H2').
  Qed.
End Plain.

(* ------------------------------------------------------------------------------------- *)
(* Part 2: ranks, bounds, spans                                                           *)
(* ------------------------------------------------------------------------------------- *)

Section Rank.
  Variable rk : N -> N.
  Variable rrk : N -> N.
  Variable cons : N -> bool.

  Lemma bound_at_0 k b ps : bound_at cons k b ps 0 = b.
  Proof. destruct ps; reflexivity. Qed.
  Lemma bound_at_nonlin k : linear k = false -> forall ps b d, bound_at cons k b ps d = b.
  Proof.
    intros Hk. induction ps as [|p ps IH]; intros b d; destruct d as [|d]; cbn [bound_at]; try reflexivity.
    rewrite Hk. cbn [andb]. apply IH.
  Qed.
  Lemma bound_at_step k : forall ps b d p, nth_error ps d = Some p ->
    bound_at cons k b ps (S d) = if linear k && consuming cons p then 0 else bound_at cons k b ps d.
  Proof.
    induction ps as [|x ps IH]; intros b d p H; [destruct d; discriminate|].
    destruct d as [|d].
    - cbn [nth_error] in H. inversion H; subst x. cbn [bound_at]. rewrite !bound_at_0. reflexivity.
    - cbn [nth_error] in H.
      change (bound_at cons k b (x :: ps) (S (S d))) with (bound_at cons k (if linear k && consuming cons x then 0 else b) ps (S d)).
      change (bound_at cons k b (x :: ps) (S d)) with (bound_at cons k (if linear k && consuming cons x then 0 else b) ps d).
      apply IH. exact H.
  Qed.

  Lemma seq_go_nth k : forall ps b d p, seq_go rk rrk cons k b ps = true -> nth_error ps d = Some p ->
    edge_ok rk rrk cons (bound_at cons k b ps d) p = true.
  Proof.
    induction ps as [|x ps IH]; intros b d p H Hn; [destruct d; discriminate|].
    cbn [seq_go] in H. apply andb_true_iff in H. destruct H as [H1 H2].
    destruct d as [|d]; cbn [nth_error] in Hn.
    - inversion Hn; subst x. exact H1.
    - cbn [bound_at]. apply IH; assumption.
  Qed.
  Lemma seq_go_lookup k b ps d p : seq_go rk rrk cons k b ps = true -> seq_lookup k ps d = Some p ->
    edge_ok rk rrk cons (bound_at cons k b ps d) p = true.
  Proof.
    intros H Hl. destruct k; cbn [seq_lookup] in Hl; try (apply seq_go_nth; assumption).
    - rewrite (bound_at_nonlin (SMany allowEmpty) eq_refl). rewrite <- (bound_at_nonlin (SMany allowEmpty) eq_refl ps b 0%nat).
      apply seq_go_nth; assumption.
    - rewrite (bound_at_nonlin (SSepBy allowEmpty) eq_refl).
      rewrite <- (bound_at_nonlin (SSepBy allowEmpty) eq_refl ps b (Nat.modulo d 2)).
      apply seq_go_nth; assumption.
  Qed.

  (* every index counted in the left-recursion context has a rank below [b] *)
  Definition lrc_below (b : N) (lrc : intmap) : Prop := forall i, map_get i lrc <> 0 -> rk i < b.
  Lemma lrc_below_nil b : lrc_below b [].
  Proof. intros i H. cbn [map_get] in H. congruence. Qed.
  Lemma lrc_below_le b b' lrc : b <= b' -> lrc_below b lrc -> lrc_below b' lrc.
  Proof. intros Hle H i Hi. specialize (H i Hi). lia. Qed.
  Lemma lrc_below_zero idx b lrc : b <= rk idx -> lrc_below b lrc -> map_get idx lrc = 0.
  Proof.
    intros Hle H. destruct (N.eq_dec (map_get idx lrc) 0) as [E|E]; [exact E|]. specialize (H idx E). lia.
  Qed.
  Lemma lrc_below_inc idx b lrc : b <= rk idx -> lrc_below b lrc -> lrc_below (rk idx + 1) (map_inc idx lrc).
  Proof.
    intros Hle H i Hi. rewrite map_get_inc in Hi. destruct (i =? idx) eqn:E.
    - apply N.eqb_eq in E. subst i. lia.
    - specialize (H i Hi). lia.
  Qed.
  Lemma lrc_next k b ps d p pos n lrc :
    seq_lookup k ps d = Some p -> (consuming cons p = true -> pos < node_rpos n) ->
    lrc_below (bound_at cons k b ps d) lrc ->
    lrc_below (bound_at cons k b ps (S d)) (if pos <? node_rpos n then [] else lrc).
  Proof.
    intros Hl Hc H. destruct (linear k) eqn:Ek.
    - assert (Hn : nth_error ps d = Some p) by (destruct k; try discriminate; exact Hl).
      rewrite (bound_at_step k ps b d p Hn). rewrite Ek. cbn [andb].
      destruct (consuming cons p).
      + apply N.ltb_lt in Hc; [|reflexivity]. rewrite Hc. apply lrc_below_nil.
      + destruct (pos <? node_rpos n); [apply lrc_below_nil|exact H].
    - rewrite (bound_at_nonlin k Ek) in *. destruct (pos <? node_rpos n); [apply lrc_below_nil|exact H].
  Qed.

  (* a consuming sequence has an element number [j] that is consuming and that every emitted
     result contains (no emission at a depth <= j) *)
  Lemma seq_cons_spec k ip s nm ps : consuming cons (PSeq k ip s nm ps) = true ->
    exists j p, seq_lookup k ps j = Some p /\ consuming cons p = true /\
                forall d, (d <= j)%nat -> seq_lencheck k (length ps) d = false.
  Proof.
    cbn [consuming]. destruct k.
    - (* SeqOf *) intros H. apply existsb_exists in H. destruct H as [p [Hin Hc]].
      destruct (In_nth_error ps p Hin) as [j Hj]. exists j, p. split; [exact Hj|]. split; [exact Hc|].
      intros d Hd. cbn [seq_lencheck]. apply Nat.eqb_neq.
      assert (j < length ps)%nat by (apply nth_error_Some; rewrite Hj; discriminate). lia.
    - (* SeqTry *) destruct ps as [|p t]; [discriminate|]. intros H. exists 0%nat, p. split; [reflexivity|]. split; [exact H|].
      intros d Hd. assert (d = 0%nat) by lia. subst d. reflexivity.
    - (* SeqFirstOrAll *) destruct ps as [|p t]; [discriminate|]. intros H. exists 0%nat, p. split; [reflexivity|]. split; [exact H|].
      intros d Hd. assert (d = 0%nat) by lia. subst d. reflexivity.
    - (* SMany *) destruct allowEmpty; [discriminate|]. destruct ps as [|p t]; [discriminate|]. cbn [negb andb].
      intros H. exists 0%nat, p. split; [reflexivity|]. split; [exact H|].
      intros d Hd. assert (d = 0%nat) by lia. subst d. reflexivity.
    - (* SSepBy *) destruct allowEmpty; [discriminate|]. destruct ps as [|p t]; [discriminate|]. cbn [negb andb].
      intros H. exists 0%nat, p. split; [reflexivity|]. split; [exact H|].
      intros d Hd. assert (d = 0%nat) by lia. subst d. reflexivity.
  Qed.
End Rank.

Lemma memos_in_list ps p : In p ps -> incl (memos p) (flat_map memos ps).
Proof. intros H x Hx. apply in_flat_map. exists p. split; assumption. Qed.

Definition strip_q (q : seqinfo) : seqinfo :=
  {| q_kind := q_kind q; q_ip := q_ip q; q_single := q_single q; q_ps := map strip_memo (q_ps q) |}.
Lemma emit_strip q d pos st : emit (strip_q q) d pos st = emit q d pos st.
Proof. unfold emit. cbn [strip_q q_kind q_ps]. rewrite map_length. reflexivity. Qed.

(* a node and all its descendants end at or after [lo] *)
Fixpoint deep_ge (lo : N) (n : node) : Prop :=
  lo <= node_rpos n /\
  match n with
  | NNonTerm _ _ cs _ _ =>
    (fix all (l : list node) : Prop := match l with [] => True | x :: t => deep_ge lo x /\ all t end) cs
  | _ => True
  end.
Definition deep_all (lo : N) : list node -> Prop :=
  fix all (l : list node) : Prop := match l with [] => True | x :: t => deep_ge lo x /\ all t end.

Lemma deep_all_in lo l : deep_all lo l <-> (forall n, In n l -> deep_ge lo n).
Proof.
  induction l as [|x t IH]; cbn [deep_all In].
  - split; [intros _ n []|intros _; exact I].
  - split.
    + intros [Hx Ht] n [E|Hn]; [subst; exact Hx|apply IH; assumption].
    + intros H. split; [apply H; left; reflexivity|apply IH; intros n Hn; apply H; right; exact Hn].
Qed.
Lemma deep_ge_rpos lo n : deep_ge lo n -> lo <= node_rpos n.
Proof. destruct n; intros [H _]; exact H. Qed.
Lemma deep_ge_le lo lo' : lo' <= lo -> forall n, deep_ge lo n -> deep_ge lo' n.
Proof.
  intros Hle. fix IH 1. intros n. destruct n; cbn [deep_ge node_rpos]; intros [H1 H2]; (split; [lia|]); try exact I.
  revert H2. generalize children. fix IHl 1. intros l. destruct l as [|x t]; intros H2; [exact I|].
  destruct H2 as [Hx Ht]. split; [apply IH; exact Hx|apply IHl; exact Ht].
Qed.
Lemma deep_ge_0 : forall n, deep_ge 0 n.
Proof.
  fix IH 1. intros n. destruct n; cbn [deep_ge node_rpos]; (split; [apply N.le_0_l|]); try exact I.
  generalize children. fix IHl 1. intros l. destruct l as [|x t]; [exact I|]. split; [apply IH|apply IHl].
Qed.
Lemma deep_ge_set_rpos lo n e : deep_ge lo n -> node_rpos n <= e -> deep_ge lo (set_rpos n e).
Proof.
  destruct n; cbn [deep_ge set_rpos node_rpos]; intros [H1 H2] Hle; (split; [lia|exact H2]).
Qed.
Lemma rpos_set_rpos n e : node_rpos n <= e -> node_rpos n <= node_rpos (set_rpos n e).
Proof. destruct n; cbn [set_rpos node_rpos]; lia. Qed.
Lemma deep_nonterm lo t i cs p r : deep_ge lo (NNonTerm t i cs p r) <-> (lo <= r /\ deep_all lo cs).
Proof. split; intros H; exact H. Qed.

Lemma last_in {A} (l : list A) x d : In (last (x :: l) d) (x :: l).
Proof.
  revert x. induction l as [|y l IH]; intros x; [left; reflexivity|].
  change (last (x :: y :: l) d) with (last (y :: l) d). right. apply IH.
Qed.
Lemma handle_result_deep lo q pos children :
  lo <= pos -> (forall n, In n children -> deep_ge lo n) -> deep_ge lo (handle_result q pos children).
Proof.
  intros Hle H. destruct children as [|n [|n2 t]]; cbn [handle_result].
  - apply deep_nonterm. split; [exact Hle|exact I].
  - assert (Hn : deep_ge lo n) by (apply H; left; reflexivity). destruct (q_single q); [exact Hn|].
    apply deep_nonterm. split; [apply deep_ge_rpos; exact Hn|]. apply deep_all_in. exact H.
  - apply deep_nonterm. split; [|apply deep_all_in; exact H].
    apply deep_ge_rpos. apply H. apply last_in.
Qed.
(* the node built from a non-empty reversed prefix ends where its newest element ends *)
Lemma handle_result_rpos q pos x l : node_rpos (handle_result q pos (rev (x :: l))) = node_rpos x.
Proof.
  cbn [rev]. destruct (rev l) as [|a t] eqn:E; cbn [app].
  - cbn [handle_result]. destruct (q_single q); reflexivity.
  - destruct (t ++ [x]) as [|b t'] eqn:E2; [destruct t; discriminate|].
    cbn [handle_result node_rpos]. rewrite <- E2.
    change (a :: t ++ [x]) with ((a :: t) ++ [x]). rewrite last_last. reflexivity.
Qed.
(* RightTrim's node update preserves every property that survives moving the end forward *)
Lemma trim_nodes_pres inp (P : node -> Prop) m ns :
  (forall n e, P n -> node_rpos n <= e -> P (set_rpos n e)) ->
  forall w ns' w', (forall n, In n ns -> P n) -> trim_nodes inp m ns w = (ns', w') -> forall n, In n ns' -> P n.
Proof.
  intros HP. induction ns as [|x t IH]; intros w ns' w' H Ht n Hn.
  - cbn [trim_nodes] in Ht. inversion Ht; subst. destruct Hn.
  - assert (Hx : P x) by (apply H; left; reflexivity).
    assert (Hgen : forall e w1 t' w2, node_rpos x <= e -> trim_nodes inp m t w1 = (t', w2) ->
                   ns' = set_rpos x e :: t' -> P n).
    { intros e w1 t' w2 Hle Ht' E. subst ns'. destruct Hn as [E|Hn'].
      - subst n. apply HP; assumption.
      - eapply IH; [|exact Ht'|exact Hn']. intros n' Hn''. apply H. right. exact Hn''. }
    destruct x; cbn [trim_nodes] in Ht;
      try (match type of Ht with context [skip_ws inp ?p m] =>
             pose proof (skip_ws_ge inp p m) as Hge; destruct (skip_ws inp p m) as [e w1] end;
           cbn [fst] in Hge;
           match type of Ht with context [trim_nodes inp m t ?w] => destruct (trim_nodes inp m t w) as [t' w2] eqn:Et end;
           inversion Ht; subst ns' w'; eapply Hgen; [exact Hge|exact Et|reflexivity]).
    destruct (trim_nodes inp m t w) as [t' w2] eqn:Et. inversion Ht; subst ns' w'.
    destruct Hn as [E|Hn']; [subst n; exact Hx|].
    eapply IH; [|exact Et|exact Hn']. intros n' Hn''. apply H. right. exact Hn''.
Qed.

Lemma map_filter_nil l : map_filter [] l = [].
Proof. unfold map_filter. induction l as [|x l IH]; cbn [filter set_mem]; [reflexivity|exact IH]. Qed.

(* ------------------------------------------------------------------------------------- *)
(* Part 3: memo-side invariants ("at most once"), then the simulation of the plain run     *)
(* ------------------------------------------------------------------------------------- *)
Section Memo.
  Variable inp : input.
  Variable rules : list pexpr.
  Variable rk : N -> N.
  Variable rrk : N -> N.
  Variable cons : N -> bool.
  Variable M : list (N * pexpr).
  Hypothesis HM : memo_fun M.
  Hypothesis Hrm : forall k body, nth_N rules k = Some body -> incl (memos body) M.
  Hypothesis Hro : forall k body, nth_N rules k = Some body -> edge_ok rk rrk cons (rrk k) body = true.
  Hypothesis Hco : forall k body, nth_N rules k = Some body -> cons k = true -> consuming cons body = true.
  Notation below := (lrc_below rk).
  Notation eok := (edge_ok rk rrk cons).
  Notation bat := (bound_at cons).

  (* every reachable cache entry was stored with an empty context and no curtailing parser
     (so [cache_get] accepts it whatever the current context is), and its nodes are spanned *)
  Definition cinv (c : ctx) : Prop :=
    forall idx pos r, cache_find (idx, pos) (cache c) = Some r ->
      r_lrc r = [] /\ r_cp r = [] /\ (forall n, In n (r_nodes r) -> deep_ge pos n) /\
      (forall p, In (idx, p) M -> consuming cons p = true -> forall n, In n (r_nodes r) -> pos < node_rpos n).
  (* active Memoize bodies started at or before the current position; those started AT the
     current position are still counted in the left-recursion context *)
  Definition stk_ok (stk : stack) (lrc : intmap) (pos : N) : Prop :=
    forall i p', In (i, p') stk -> p' <= pos /\ (p' = pos -> map_get i lrc <> 0).
  (* the body log has no repetition; a logged pair is either finished (cached) or active;
     every logged execution was the only active one of its pair *)
  Definition log_ok (c : ctx) (stk : stack) : Prop :=
    NoDup (map fst (g_bodies c)) /\
    (forall i p, In (i, p) (map fst (g_bodies c)) -> cache_find (i, p) (cache c) <> None \/ In (i, p) stk) /\
    (forall x, In x (g_bodies c) -> snd x = 1).

  Lemma cinv_same c c2 : cache c2 = cache c -> cinv c -> cinv c2.
  Proof. intros E H idx pos r Hf. rewrite E in Hf. exact (H idx pos r Hf). Qed.
  Lemma log_ok_same c c2 stk : cache c2 = cache c -> g_bodies c2 = g_bodies c -> log_ok c stk -> log_ok c2 stk.
  Proof. intros E1 E2 [H1 [H2 H3]]. unfold log_ok. rewrite E1, E2. split; [exact H1|]. split; assumption. Qed.

  Lemma cinv_miss c idx pos lrc : cinv c -> cache_get c idx pos lrc = None -> cache_find (idx, pos) (cache c) = None.
  Proof.
    intros Hc H. unfold cache_get in H. destruct (cache_find (idx, pos) (cache c)) as [r|] eqn:E; [|reflexivity].
    destruct (Hc idx pos r E) as [El _]. rewrite El in H. cbn [reusable forallb] in H. discriminate.
  Qed.

  Lemma stk_ok_next stk lrc pos n : stk_ok stk lrc pos -> pos <= node_rpos n ->
    stk_ok stk (if pos <? node_rpos n then [] else lrc) (node_rpos n).
  Proof.
    intros H Hle i p' Hin. destruct (H i p' Hin) as [H1 H2].
    destruct (pos <? node_rpos n) eqn:E.
    - apply N.ltb_lt in E. split; [lia|]. intros E'. lia.
    - apply N.ltb_ge in E. assert (E' : node_rpos n = pos) by lia. rewrite E'. split; assumption.
  Qed.
  Lemma stk_ok_ge stk lrc pos pos1 : stk_ok stk lrc pos -> pos <= pos1 -> stk_ok stk lrc pos1.
  Proof.
    intros H Hle i p' Hin. destruct (H i p' Hin) as [H1 H2]. split; [lia|].
    intros E. apply H2. lia.
  Qed.
  Lemma stk_ok_enter stk lrc pos idx : stk_ok stk lrc pos -> stk_ok ((idx, pos) :: stk) (map_inc idx lrc) pos.
  Proof.
    intros H i p' [E|Hin].
    - inversion E; subst. split; [lia|]. intros _. rewrite map_get_inc, N.eqb_refl. lia.
    - destruct (H i p' Hin) as [H1 H2]. split; [exact H1|]. intros E. specialize (H2 E).
      rewrite map_get_inc. destruct (i =? idx); lia.
  Qed.
  Lemma count_active_zero idx pos stk : ~ In (idx, pos) stk -> count_active idx pos stk = 0.
  Proof.
    intros H. unfold count_active. induction stk as [|[i p] t IH]; [reflexivity|]. cbn [filter fst snd].
    destruct ((i =? idx) && (p =? pos)) eqn:E.
    - apply andb_true_iff in E. destruct E as [E1 E2]. apply N.eqb_eq in E1, E2. subst. exfalso. apply H. left. reflexivity.
    - apply IH. intros Hin. apply H. right. exact Hin.
  Qed.
  Lemma log_ok_enter c stk idx pos lrc :
    log_ok c stk -> stk_ok stk lrc pos -> map_get idx lrc = 0 -> cache_find (idx, pos) (cache c) = None ->
    log_ok (log_body c idx pos (1 + count_active idx pos stk)) ((idx, pos) :: stk).
  Proof.
    intros [H1 [H2 H3]] Hk Hz Hf.
    assert (Hns : ~ In (idx, pos) stk).
    { intros A. destruct (Hk idx pos A) as [_ B]. apply B; [reflexivity|exact Hz]. }
    unfold log_ok. cbn [log_body g_bodies cache map fst]. split; [|split].
    - constructor; [|exact H1]. intros Hin. destruct (H2 idx pos Hin) as [A|A]; [congruence|]. exact (Hns A).
    - intros i p [E|Hin].
      + inversion E; subst. right. left. reflexivity.
      + destruct (H2 i p Hin) as [A|A]; [left; exact A|right; right; exact A].
    - intros x [E|Hin]; [|exact (H3 x Hin)]. subst x. cbn [snd]. rewrite (count_active_zero idx pos stk Hns). reflexivity.
  Qed.
  Lemma log_ok_save c' stk idx pos r : log_ok c' ((idx, pos) :: stk) -> log_ok (cache_save c' idx pos r) stk.
  Proof.
    intros [H1 [H2 H3]]. unfold log_ok. cbn [cache_save g_bodies cache]. split; [exact H1|]. split; [|exact H3].
    intros i p Hin. cbn [cache_find fst snd].
    destruct ((i =? idx) && (p =? pos)) eqn:E; [left; discriminate|].
    destruct (H2 i p Hin) as [A|[A|A]]; [left; exact A| |right; exact A].
    inversion A; subst. rewrite !N.eqb_refl in E. discriminate.
  Qed.
  Lemma cinv_save c' idx pos p ns err :
    cinv c' -> In (idx, p) M -> (forall n, In n ns -> deep_ge pos n) ->
    (consuming cons p = true -> forall n, In n ns -> pos < node_rpos n) ->
    cinv (cache_save c' idx pos {| r_lrc := []; r_cp := []; r_err := err; r_nodes := ns |}).
  Proof.
    intros Hc Hin Hd Hcons idx' pos' r' Hf. cbn [cache_save cache cache_find fst snd] in Hf.
    destruct ((idx' =? idx) && (pos' =? pos)) eqn:E; [|exact (Hc idx' pos' r' Hf)].
    apply andb_true_iff in E. destruct E as [E1 E2]. apply N.eqb_eq in E1, E2. subst idx' pos'.
    inversion Hf; subst r'. cbn [r_lrc r_cp r_nodes]. do 2 (split; [reflexivity|]). split; [exact Hd|].
    intros p' Hin' Hc'. rewrite (HM idx p' p Hin' Hin) in Hc'. exact (Hcons Hc').
  Qed.
  Lemma single_out_deep lo res : (forall n, In n res -> deep_ge lo n) -> forall n, In n (single_out res) -> deep_ge lo n.
  Proof.
    intros H. destruct res as [|x t]; [exact H|]. destruct x; try exact H.
    destruct children as [|ch [|]]; try exact H. destruct t; [|exact H].
    cbn [single_out]. intros n [E|[]]. subst n.
    assert (X : deep_ge lo (NNonTerm tok ip [ch] pos rpos)) by (apply H; left; reflexivity).
    apply deep_nonterm in X. destruct X as [_ [X _]]. exact X.
  Qed.

  (* element [j] of the sequence is consuming and no result is emitted at a depth <= j *)
  Definition sc_elem (q : seqinfo) (j : nat) : Prop :=
    exists p, seq_lookup (q_kind q) (q_ps q) j = Some p /\ consuming cons p = true /\
              forall d, (d <= j)%nat -> seq_lencheck (q_kind q) (length (q_ps q)) d = false.
  (* once past it, the search is strictly after the sequence start, and so is the newest element *)
  Definition sc_pre (j d : nat) (pos0 pos : N) (st : seqst) : Prop :=
    (j < d)%nat -> pos0 < pos /\ exists x l, s_nodes st = x :: l /\ pos0 < node_rpos x.

  Definition pminv (rp : ptype) : Prop :=
    forall e b c stk lrc pos ns cp err c',
      eok b e = true -> incl (memos e) M -> below b lrc ->
      cinv c -> stk_ok stk lrc pos -> log_ok c stk ->
      rp e c stk lrc pos = Ok (ns, cp, err, c') ->
      cp = [] /\ cinv c' /\ log_ok c' stk /\ (forall n, In n ns -> deep_ge pos n) /\
      (consuming cons e = true -> forall n, In n ns -> pos < node_rpos n).
  Definition sminv (rs : stype) : Prop :=
    forall q b d c stk lrc pos pos0 m st stop st' c',
      seq_go rk rrk cons (q_kind q) b (q_ps q) = true -> (forall p, In p (q_ps q) -> incl (memos p) M) ->
      below (bat (q_kind q) b (q_ps q) d) lrc ->
      cinv c -> stk_ok stk lrc pos -> log_ok c stk -> s_cp st = [] -> pos0 <= pos ->
      (forall n, In n (s_nodes st) -> deep_ge pos0 n) -> (forall n, In n (s_res st) -> deep_ge pos0 n) ->
      rs q d c stk lrc pos m st = Ok (stop, st', c') ->
      s_cp st' = [] /\ cinv c' /\ log_ok c' stk /\ (forall n, In n (s_res st') -> deep_ge pos0 n) /\
      (forall j, sc_elem q j -> sc_pre j d pos0 pos st -> (forall n, In n (s_res st) -> pos0 < node_rpos n) ->
                 forall n, In n (s_res st') -> pos0 < node_rpos n).

  Ltac noc := let H := fresh in intros H; cbn [consuming] in H; discriminate H.
  Ltac triv := first [assumption|reflexivity].

  Section StepM.
    Variable rp : ptype.
    Variable rs : stype.
    Hypothesis Hp : pminv rp.
    Hypothesis Hs : sminv rs.

    Lemma any_loop_minv b stk lrc pos ps : forall c res err nf ns cp1 err1 c',
      forallb (eok b) ps = true -> (forall p, In p ps -> incl (memos p) M) -> below b lrc ->
      cinv c -> stk_ok stk lrc pos -> log_ok c stk -> (forall n, In n res -> deep_ge pos n) ->
      any_loop rp stk lrc pos ps c [] res err nf = Ok (ns, cp1, err1, c') ->
      cp1 = [] /\ cinv c' /\ log_ok c' stk /\ (forall n, In n ns -> deep_ge pos n) /\
      (forallb (consuming cons) ps = true -> (forall n, In n res -> pos < node_rpos n) -> forall n, In n ns -> pos < node_rpos n).
    Proof.
      induction ps as [|p ps IH]; intros c res err nf ns cp1 err1 c' Hok Hm Hb Hc Hk Hl Hres H; cbn [any_loop] in H.
      - destruct res; inversion H; subst; (split; [reflexivity|]).
        + split; [exact Hc|]. split; [exact Hl|]. split; [intros n []|intros _ _ n []].
        + split; [apply (cinv_same c); [reflexivity|exact Hc]|].
          split; [apply (log_ok_same c); [reflexivity|reflexivity|exact Hl]|]. split; [exact Hres|]. intros _ X; exact X.
      - cbn [forallb] in Hok. apply andb_true_iff in Hok. destruct Hok as [Hok1 Hok2].
        apply bind_ok in H. destruct H as [[[[r1 q1] e1] d1] [H H']].
        destruct (Hp p b (reg_call c) stk lrc pos _ _ _ _ Hok1 (Hm p (or_introl eq_refl)) Hb
                     (cinv_same c _ eq_refl Hc) Hk (log_ok_same c _ stk eq_refl eq_refl Hl) H)
          as [E1 [Hc' [Hl' [Hd Hcons]]]]. subst q1.
        destruct (alt_err pos err nf e1) as [err' nf']. cbn [set_union fold_left] in H'.
        assert (Hres' : forall n, In n (append_node res r1) -> deep_ge pos n).
        { intros n Hn. apply append_node_in_inv in Hn. destruct Hn as [Hn|Hn]; [apply Hres|apply Hd]; exact Hn. }
        destruct (IH d1 _ _ _ _ _ _ _ Hok2 (fun p' Hp' => Hm p' (or_intror Hp')) Hb Hc' Hk Hl' Hres' H') as [F1 [F2 [F3 [F4 F5]]]].
        do 4 (split; [assumption|]). intros Hcs Hr. cbn [forallb] in Hcs. apply andb_true_iff in Hcs. destruct Hcs as [Hc1 Hc2].
        apply (F5 Hc2). intros n Hn. apply append_node_in_inv in Hn. destruct Hn as [Hn|Hn]; [apply Hr|apply (Hcons Hc1)]; exact Hn.
    Qed.

    Lemma choice_loop_minv b stk lrc pos ps : forall c err nf ns cp1 err1 c',
      forallb (eok b) ps = true -> (forall p, In p ps -> incl (memos p) M) -> below b lrc ->
      cinv c -> stk_ok stk lrc pos -> log_ok c stk ->
      choice_loop rp stk lrc pos ps c [] err nf = Ok (ns, cp1, err1, c') ->
      cp1 = [] /\ cinv c' /\ log_ok c' stk /\ (forall n, In n ns -> deep_ge pos n) /\
      (forallb (consuming cons) ps = true -> forall n, In n ns -> pos < node_rpos n).
    Proof.
      induction ps as [|p ps IH]; intros c err nf ns cp1 err1 c' Hok Hm Hb Hc Hk Hl H; cbn [choice_loop] in H.
      - inversion H; subst. split; [reflexivity|]. split; [exact Hc|]. split; [exact Hl|]. split; [intros n []|intros _ n []].
      - cbn [forallb] in Hok. apply andb_true_iff in Hok. destruct Hok as [Hok1 Hok2].
        apply bind_ok in H. destruct H as [[[[r1 q1] e1] d1] [H H']].
        destruct (Hp p b (reg_call c) stk lrc pos _ _ _ _ Hok1 (Hm p (or_introl eq_refl)) Hb
                     (cinv_same c _ eq_refl Hc) Hk (log_ok_same c _ stk eq_refl eq_refl Hl) H)
          as [E1 [Hc' [Hl' [Hd Hcons]]]]. subst q1.
        destruct (alt_err pos err nf e1) as [err' nf']. cbn [set_union fold_left] in H'.
        destruct r1 as [|n1 r1].
        + destruct (IH d1 _ _ _ _ _ _ Hok2 (fun p' Hp' => Hm p' (or_intror Hp')) Hb Hc' Hk Hl' H') as [F1 [F2 [F3 [F4 F5]]]].
          do 4 (split; [assumption|]). intros Hcs. cbn [forallb] in Hcs. apply andb_true_iff in Hcs. apply F5, Hcs.
        + inversion H'; subst. split; [reflexivity|].
          split; [apply (cinv_same d1); [reflexivity|exact Hc']|].
          split; [apply (log_ok_same d1); [reflexivity|reflexivity|exact Hl']|]. split; [exact Hd|].
          intros Hcs. cbn [forallb] in Hcs. apply andb_true_iff in Hcs. apply Hcons, Hcs.
    Qed.

    Lemma parse_step_minv : pminv (parse_step inp rules rp rs).
    Proof.
      intros e b c stk lrc pos ns cp err c' Hok Hm Hb Hc Hk Hl H.
      destruct e.
      - (* PTerm *) cbn [parse_step] in H. destruct (term_parse inp t pos) as [res terr] eqn:E. inversion H; subst.
        split; [reflexivity|].
        split; [destruct ns; [destruct err|]; try exact Hc; (apply (cinv_same c); [reflexivity|exact Hc])|].
        split; [destruct ns; [destruct err|]; try exact Hl; (apply (log_ok_same c); [reflexivity|reflexivity|exact Hl])|].
        split; [|cbn [consuming]; intros Hcs n Hn; exact (term_parse_consuming inp t pos ns err n Hcs E Hn)].
        intros n Hn. destruct (term_parse_rpos_ge inp t pos ns err n E Hn) as (tok & v & r & -> & Hle).
        cbn [deep_ge node_rpos]. split; [exact Hle|exact I].
      - (* PEmpty *) cbn [parse_step] in H. inversion H; subst. split; [reflexivity|]. split; [exact Hc|]. split; [exact Hl|].
        split; [|noc]. intros n [E|[]]. subst n. cbn [deep_ge node_rpos]. split; [lia|exact I].
      - (* PEnd *) cbn [parse_step] in H. destruct (is_eof inp pos); inversion H; subst; (split; [reflexivity|]).
        + split; [exact Hc|]. split; [exact Hl|]. split; [|noc]. intros n [E|[]]. subst n. cbn [deep_ge node_rpos]. split; [lia|exact I].
        + split; [apply (cinv_same c); [reflexivity|exact Hc]|].
          split; [apply (log_ok_same c); [reflexivity|reflexivity|exact Hl]|]. split; [intros n []|noc].
      - (* PRef *) cbn [parse_step] in H. destruct (nth_N rules k) as [body|] eqn:E; [|discriminate].
        cbn [edge_ok] in Hok. apply N.leb_le in Hok.
        destruct (Hp body (rrk k) c stk lrc pos _ _ _ _ (Hro k body E) (Hrm k body E)
                     (lrc_below_le rk b (rrk k) lrc Hok Hb) Hc Hk Hl H) as [E1 [Hc' [Hl' [Hd Hcons]]]].
        do 4 (split; [assumption|]). cbn [consuming]. intros Hck. exact (Hcons (Hco k body E Hck)).
      - (* PMemo *) cbn [edge_ok] in Hok. apply andb_true_iff in Hok. destruct Hok as [Hle Hok]. apply N.leb_le in Hle.
        assert (Hin : In (idx, e) M) by (apply Hm; cbn [memos]; left; reflexivity).
        assert (Hm' : incl (memos e) M) by (intros x Hx; apply Hm; cbn [memos]; right; exact Hx).
        pose proof (lrc_below_zero rk idx b lrc Hle Hb) as Hz.
        cbn [parse_step] in H. cbn [consuming].
        destruct (cache_get c idx pos lrc) as [r|] eqn:Eg.
        + inversion H; subst. unfold cache_get in Eg.
          destruct (cache_find (idx, pos) (cache c')) as [r0|] eqn:Ef; [|discriminate].
          destruct (reusable (r_lrc r0) lrc); [|discriminate]. inversion Eg; subst r0.
          destruct (Hc idx pos r Ef) as [_ [A2 [A3 A4]]].
          split; [exact A2|]. split; [exact Hc|]. split; [exact Hl|]. split; [exact A3|]. exact (A4 e Hin).
        + destruct (remaining inp pos + 1 <? map_get idx lrc) eqn:Ec.
          { apply N.ltb_lt in Ec. rewrite Hz in Ec. lia. }
          apply bind_ok in H. destruct H as [[[[r1 q1] e1] d1] [H H']].
          pose proof (cinv_miss c idx pos lrc Hc Eg) as Hf.
          destruct (Hp e (rk idx + 1) _ _ _ pos _ _ _ _ Hok Hm' (lrc_below_inc rk idx b lrc Hle Hb)
                       (cinv_same c (log_body c idx pos (1 + count_active idx pos stk)) eq_refl Hc)
                       (stk_ok_enter stk lrc pos idx Hk)
                       (log_ok_enter c stk idx pos lrc Hl Hk Hz Hf) H)
            as [E1 [Hc' [Hl' [Hd Hcons]]]]. subst q1.
          rewrite map_filter_nil in H'. inversion H'; subst.
          split; [reflexivity|]. split; [apply (cinv_save d1 idx pos e); assumption|].
          split; [apply log_ok_save; exact Hl'|]. split; assumption.
      - (* PAny *) cbn [parse_step] in H. cbn [edge_ok] in Hok. cbn [memos] in Hm.
        destruct (any_loop_minv b stk lrc pos ps c [] None None _ _ _ _ Hok
                     (fun p Hp' => incl_tran (memos_in_list ps p Hp') Hm) Hb Hc Hk Hl (fun n (F : In n []) => match F with end) H)
          as [F1 [F2 [F3 [F4 F5]]]].
        do 4 (split; [assumption|]). cbn [consuming]. intros Hcs. apply (F5 Hcs). intros n [].
      - (* PChoice *) cbn [parse_step] in H. cbn [edge_ok] in Hok. cbn [memos] in Hm.
        exact (choice_loop_minv b stk lrc pos ps c None None _ _ _ _ Hok
                     (fun p Hp' => incl_tran (memos_in_list ps p Hp') Hm) Hb Hc Hk Hl H).
      - (* POpt *) cbn [parse_step] in H. cbn [edge_ok] in Hok. cbn [memos] in Hm.
        apply bind_ok in H. destruct H as [[[[r1 q1] e1] d1] [H H']].
        destruct (Hp e b _ _ _ pos _ _ _ _ Hok Hm Hb Hc Hk Hl H) as [E1 [Hc' [Hl' [Hd _]]]].
        inversion H'; subst. do 3 (split; [triv|]). split; [|noc].
        intros n Hn. apply append_node_in_inv in Hn. destruct Hn as [Hn|[Hn|[]]]; [apply Hd; exact Hn|].
        subst n. cbn [deep_ge node_rpos]. split; [lia|exact I].
      - (* PSeq *) rewrite parse_step_seq in H. pose proof Hok as Hok0. rewrite edge_ok_seq in Hok. cbn [memos] in Hm.
        apply bind_ok in H. destruct H as [[[s1 t1] d1] [H H']].
        assert (X : below (bat k b ps 0) lrc) by (rewrite bound_at_0; exact Hb).
        destruct (Hs {| q_kind := k; q_ip := ip; q_single := single; q_ps := ps |} b 0%nat c stk lrc pos pos true st0
                     _ _ _ Hok (fun p Hp' => incl_tran (memos_in_list ps p Hp') Hm) X Hc Hk Hl eq_refl (N.le_refl pos)
                     (fun n (F : In n []) => match F with end) (fun n (F : In n []) => match F with end) H)
          as [E1 [Hc' [Hl' [Hd Hsc]]]].
        assert (Hcons : consuming cons (PSeq k ip single name ps) = true -> forall n, In n (s_res t1) -> pos < node_rpos n).
        { intros Hcs. destruct (seq_cons_spec cons k ip single name ps Hcs) as [j [p [A1 [A2 A3]]]].
          apply (Hsc j).
          - exists p. cbn [q_kind q_ps]. split; [exact A1|]. split; [exact A2|exact A3].
          - intros Hj. inversion Hj.
          - intros n []. }
        unfold seq_out in H'. rewrite E1 in H'.
        destruct (s_res t1) eqn:Er; inversion H'; subst; (split; [reflexivity|]).
        + split; [exact Hc'|]. split; [exact Hl'|]. split; [intros n []|intros _ n []].
        + split; [apply (cinv_same d1); [reflexivity|exact Hc']|].
          split; [apply (log_ok_same d1); [reflexivity|reflexivity|exact Hl']|]. split; [exact Hd|exact Hcons].
      - (* PName *) cbn [parse_step] in H. cbn [edge_ok] in Hok. cbn [memos] in Hm.
        apply bind_ok in H. destruct H as [[[[r1 q1] e1] d1] [H H']].
        destruct (Hp e b _ _ _ pos _ _ _ _ Hok Hm Hb Hc Hk Hl H) as [E1 [Hc' [Hl' [Hd Hcons]]]].
        cbn [consuming].
        destruct e1 as [x|]; [|destruct r1]; inversion H'; subst; do 3 (split; [triv|]);
          try (split; [intros n []|intros _ n []]). split; assumption.
      - (* PLeftTrim *) rewrite parse_step_ltrim in H. cbn [edge_ok] in Hok. cbn [memos] in Hm.
        apply bind_ok in H. destruct H as [[[[r1 q1] e1] d1] [H H']].
        pose proof (skip_ws_ge inp pos m) as Hge.
        destruct (Hp e b _ _ _ _ _ _ _ _ Hok Hm Hb Hc (stk_ok_ge stk lrc pos _ Hk Hge) Hl H) as [E1 [Hc' [Hl' [Hd Hcons]]]].
        subst q1. cbn [consuming].
        destruct (ltrim_out pos (fst (skip_ws inp pos m)) (snd (skip_ws inp pos m)) r1 [] e1) as [[a b'] d] eqn:Eo.
        inversion H'; subst.
        split; [destruct (ltrim_out_cases _ _ _ _ _ _ _ _ _ Eo) as [[A B]|[A B]]; assumption|].
        split; [apply (cinv_same d1); [apply cache_ltrim|exact Hc']|].
        split; [apply (log_ok_same d1); [apply cache_ltrim|apply bodies_ltrim|exact Hl']|].
        destruct (ltrim_out_cases _ _ _ _ _ _ _ _ _ Eo) as [[A B]|[A B]]; subst.
        + split; [intros n []|intros _ n []].
        + split.
          * intros n Hn. apply (deep_ge_le _ pos Hge). apply Hd. exact Hn.
          * intros Hcs n Hn. specialize (Hcons Hcs n Hn). lia.
      - (* PRightTrim *) cbn [parse_step] in H. cbn [edge_ok] in Hok. cbn [memos] in Hm.
        apply bind_ok in H. destruct H as [[[[r1 q1] e1] d1] [H H']].
        destruct (Hp e b _ _ _ pos _ _ _ _ Hok Hm Hb Hc Hk Hl H) as [E1 [Hc' [Hl' [Hd Hcons]]]]. subst q1.
        cbn [consuming].
        destruct e1 as [x|].
        + inversion H'; subst. do 4 (split; [triv|]). exact Hcons.
        + destruct (trim_nodes inp m r1 None) as [res' wserr] eqn:Et. destruct wserr; inversion H'; subst;
            do 3 (split; [triv|]); [split; [intros n []|intros _ n []]|]. split.
          * apply (trim_nodes_pres inp (deep_ge pos) m r1 (fun n e => deep_ge_set_rpos pos n e) None ns None Hd Et).
          * intros Hcs.
            apply (trim_nodes_pres inp (fun n => pos < node_rpos n) m r1
                     (fun n e Hn Hle => N.lt_le_trans _ _ _ Hn (rpos_set_rpos n e Hle)) None ns None (Hcons Hcs) Et).
      - (* PSuppress *) cbn [parse_step] in H. cbn [edge_ok] in Hok. cbn [memos] in Hm.
        apply bind_ok in H. destruct H as [[[[r1 q1] e1] d1] [H H']].
        destruct (Hp e b _ _ _ pos _ _ _ _ Hok Hm Hb Hc Hk Hl H) as [E1 [Hc' [Hl' [Hd Hcons]]]].
        inversion H'; subst. do 4 (split; [triv|]). exact Hcons.
      - (* PSingle *) cbn [parse_step] in H. cbn [edge_ok] in Hok. cbn [memos] in Hm.
        apply bind_ok in H. destruct H as [[[[r1 q1] e1] d1] [H H']].
        destruct (Hp e b _ _ _ pos _ _ _ _ Hok Hm Hb Hc Hk Hl H) as [E1 [Hc' [Hl' [Hd _]]]]. subst q1.
        destruct e1 as [x|].
        + inversion H'; subst. do 3 (split; [triv|]). split; [intros n []|noc].
        + rewrite single_view in H'. inversion H'; subst. do 3 (split; [triv|]). split; [|noc].
          apply single_out_deep. exact Hd.
    Qed.

    Lemma alts_loop_minv q b d pos pos0 m prefix p lrc stk ns : forall st c stop st' c',
      seq_go rk rrk cons (q_kind q) b (q_ps q) = true -> (forall p, In p (q_ps q) -> incl (memos p) M) ->
      seq_lookup (q_kind q) (q_ps q) d = Some p ->
      (forall n, In n ns -> deep_ge pos n /\ (consuming cons p = true -> pos < node_rpos n)) ->
      below (bat (q_kind q) b (q_ps q) d) lrc -> cinv c -> stk_ok stk lrc pos -> log_ok c stk ->
      s_cp st = [] -> pos0 <= pos -> (forall n, In n prefix -> deep_ge pos0 n) -> (forall n, In n (s_res st) -> deep_ge pos0 n) ->
      alts_loop rs q d stk lrc pos m prefix ns st c = Ok (stop, st', c') ->
      s_cp st' = [] /\ cinv c' /\ log_ok c' stk /\ (forall n, In n (s_res st') -> deep_ge pos0 n) /\
      (forall j, sc_elem q j -> ((j < d)%nat -> pos0 < pos) -> (forall n, In n (s_res st) -> pos0 < node_rpos n) ->
                 forall n, In n (s_res st') -> pos0 < node_rpos n).
    Proof.
      induction ns as [|n ns IH]; intros st c stop st' c' Hgo Hm Hlk Hns Hb Hc Hk Hl Hcp Hle Hpre Hres H; cbn [alts_loop] in H.
      - inversion H; subst. split; [exact Hcp|]. split; [exact Hc|]. split; [exact Hl|]. split; [exact Hres|].
        intros j _ _ X. exact X.
      - apply bind_ok in H. destruct H as [[[s1 t1] d1] [H H']].
        destruct (Hns n (or_introl eq_refl)) as [Hdn Hcn]. pose proof (deep_ge_rpos pos n Hdn) as Hrn.
        assert (Hb' : below (bat (q_kind q) b (q_ps q) (S d)) (if pos <? node_rpos n then [] else lrc)).
        { exact (lrc_next rk cons (q_kind q) b (q_ps q) d p pos n lrc Hlk Hcn Hb). }
        assert (Hpre' : forall x, In x (n :: prefix) -> deep_ge pos0 x).
        { intros x [E|Hx]; [subst x; exact (deep_ge_le pos pos0 Hle n Hdn)|apply Hpre; exact Hx]. }
        destruct (Hs q b (S d) c stk _ (node_rpos n) pos0 _
                     {| s_cp := s_cp st; s_res := s_res st; s_err := s_err st; s_nodes := n :: prefix |}
                     _ _ _ Hgo Hm Hb' Hc (stk_ok_next stk lrc pos n Hk Hrn) Hl Hcp (N.le_trans _ _ _ Hle Hrn) Hpre' Hres H)
          as [E1 [Hc' [Hl' [Hres' Hsc']]]].
        assert (Hsc1 : forall j, sc_elem q j -> ((j < d)%nat -> pos0 < pos) -> (forall x, In x (s_res st) -> pos0 < node_rpos x) ->
                                 forall x, In x (s_res t1) -> pos0 < node_rpos x).
        { intros j Hj Hjd Hr. apply (Hsc' j Hj); [|exact Hr].
          intros Hlt. assert (Hgt : pos0 < node_rpos n).
          { destruct (Nat.eq_dec j d) as [Ejd|Ejd].
            - subst j. destruct Hj as [p' [A1 [A2 _]]]. rewrite Hlk in A1. inversion A1; subst p'. specialize (Hcn A2). lia.
            - assert (Hjd' : (j < d)%nat) by lia. specialize (Hjd Hjd'). lia. }
          split; [exact Hgt|]. exists n, prefix. split; [reflexivity|exact Hgt]. }
        destruct s1.
        + inversion H'; subst. split; [exact E1|]. split; [exact Hc'|]. split; [exact Hl'|]. split; [exact Hres'|exact Hsc1].
        + destruct (IH t1 d1 stop st' c' Hgo Hm Hlk (fun n' Hn' => Hns n' (or_intror Hn')) Hb Hc' Hk Hl' E1 Hle Hpre Hres' H')
            as [F1 [F2 [F3 [F4 F5]]]].
          do 4 (split; [assumption|]). intros j Hj Hjd Hr. apply (F5 j Hj Hjd). apply (Hsc1 j Hj Hjd Hr).
    Qed.

    Lemma seq_step_minv : sminv (seq_step rp rs).
    Proof.
      intros q b d c stk lrc pos pos0 m st stop st' c' Hgo Hm Hb Hc Hk Hl Hcp Hle Hpre Hres H.
      rewrite seq_step_view in H. apply bind_ok in H. destruct H as [[[[r1 q1] e1] d1] [H H']].
      unfold seq_sub in H.
      assert (Hsub : q1 = [] /\ cinv d1 /\ log_ok d1 stk /\
                     (forall p, seq_lookup (q_kind q) (q_ps q) d = Some p ->
                                forall n, In n r1 -> deep_ge pos n /\ (consuming cons p = true -> pos < node_rpos n))).
      { destruct (seq_lookup (q_kind q) (q_ps q) d) as [p|] eqn:El.
        - destruct (Hp p _ (reg_call c) stk lrc pos _ _ _ _ (seq_go_lookup rk rrk cons _ b _ d p Hgo El)
                       (Hm p (seq_lookup_in _ _ _ _ El)) Hb (cinv_same c _ eq_refl Hc) Hk
                       (log_ok_same c _ stk eq_refl eq_refl Hl) H) as [E1 [Hc' [Hl' [Hd Hcons]]]].
          do 3 (split; [assumption|]). intros p' Ep' n Hn. inversion Ep'; subst p'.
          split; [apply Hd; exact Hn|]. intros Hcs. apply Hcons; assumption.
        - inversion H; subst. split; [reflexivity|]. split; [exact Hc|]. split; [exact Hl|]. intros p' Ep'. discriminate. }
      destruct Hsub as [E1 [Hc' [Hl' Hns]]]. subst q1.
      assert (Hcp1 : s_cp (st_after st m [] e1) = []).
      { unfold st_after. cbn [s_cp]. rewrite Hcp. destruct m; reflexivity. }
      destruct r1 as [|n r1].
      - destruct (emit q d pos (st_after st m [] e1)) as [stop1 st2] eqn:Ee. inversion H'; subst.
        unfold emit in Ee. destruct (seq_lencheck (q_kind q) (length (q_ps q)) d) eqn:Elen.
        + assert (Hnew : forall n, In n (append_node (s_res (st_after st m [] e1))
                                                    [handle_result q pos (rev (s_nodes (st_after st m [] e1)))]) -> deep_ge pos0 n).
          { intros n Hn. apply append_node_in_inv in Hn. destruct Hn as [Hn|[Hn|[]]]; [apply Hres; exact Hn|].
            subst n. apply handle_result_deep; [exact Hle|]. intros x Hx. apply in_rev in Hx. apply Hpre. exact Hx. }
          assert (Hsc : forall j, sc_elem q j -> sc_pre j d pos0 pos st -> (forall x, In x (s_res st) -> pos0 < node_rpos x) ->
                                  forall x, In x (append_node (s_res (st_after st m [] e1))
                                                              [handle_result q pos (rev (s_nodes (st_after st m [] e1)))]) ->
                                            pos0 < node_rpos x).
          { intros j [pj [_ [_ A3]]] Hpj Hr x Hx. apply append_node_in_inv in Hx. destruct Hx as [Hx|[Hx|[]]]; [apply Hr; exact Hx|].
            assert (Hjd : (j < d)%nat).
            { destruct (Nat.lt_ge_cases j d) as [A|A]; [exact A|]. rewrite (A3 d A) in Elen. discriminate. }
            destruct (Hpj Hjd) as [_ [y [l [Ey Hy]]]]. subst x. cbn [st_after s_nodes]. rewrite Ey.
            rewrite handle_result_rpos. exact Hy. }
          destruct (s_nodes (st_after st m [] e1)) eqn:Esn; inversion Ee; subst; cbn [s_cp s_res];
            (split; [exact Hcp1|]); (split; [exact Hc'|]); (split; [exact Hl'|]); (split; [exact Hnew|exact Hsc]).
        + inversion Ee; subst. split; [exact Hcp1|]. split; [exact Hc'|]. split; [exact Hl'|]. split; [exact Hres|].
          intros j _ _ X. exact X.
      - destruct (seq_lookup (q_kind q) (q_ps q) d) as [p|] eqn:El; [|inversion H].
        destruct (alts_loop_minv q b d pos pos0 m _ p lrc stk (n :: r1) _ d1 _ _ _ Hgo Hm El (Hns p eq_refl) Hb Hc' Hk Hl'
                    Hcp1 Hle Hpre Hres H') as [F1 [F2 [F3 [F4 F5]]]].
        do 4 (split; [assumption|]). intros j Hj Hpj Hr. apply (F5 j Hj); [|exact Hr].
        intros Hjd. destruct (Hpj Hjd) as [A _]. exact A.
    Qed.
  End StepM.

  Theorem minv_fuel : forall f, pminv (parse inp rules f) /\ sminv (seqp inp rules f).
  Proof.
    induction f as [|f [IHp IHs]].
    - split; intros until c'; intros; discriminate.
    - split.
      + intros e b c stk lrc pos. rewrite parse_S. apply parse_step_minv; assumption.
      + intros q b d c stk lrc pos pos0 m st. rewrite seqp_S. apply seq_step_minv; assumption.
  Qed.

  Lemma cinv_ctx0 : cinv ctx0.
  Proof. intros idx pos r H. discriminate. Qed.
  Lemma log_ok_ctx0 : log_ok ctx0 [].
  Proof. split; [constructor|]. split; [intros i p []|intros x []]. Qed.
  Lemma stk_ok_nil lrc pos : stk_ok [] lrc pos.
  Proof. intros i p' []. Qed.

  (* ---------------- the simulation of the plain run ---------------- *)
  Notation prules := (map strip_memo rules).

  Lemma prules_nth k body0 : nth_N prules k = Some body0 -> exists body, nth_N rules k = Some body /\ body0 = strip_memo body.
  Proof.
    unfold nth_N. rewrite nth_error_map. destruct (nth_error rules (N.to_nat k)) as [body|]; cbn [option_map]; [|discriminate].
    intros H. inversion H. exists body. split; reflexivity.
  Qed.
  Lemma prules_nomemo k body : nth_N prules k = Some body -> nomemo body = true.
  Proof. intros H. destruct (prules_nth k body H) as [b [_ E]]. subst. apply nomemo_strip. Qed.

  (* every reachable cache entry holds what the plain evaluation of its site returns, has no
     curtailing parser, and the context's furthest error is at least as far as anything that
     evaluation would record *)
  Definition tinv (c : ctx) : Prop :=
    forall idx pos r, cache_find (idx, pos) (cache c) = Some r ->
    forall p, In (idx, p) M ->
    forall f0 c0 stk0 l0 ns0 cp0 err0 c0',
      parse inp prules f0 (strip_memo p) c0 stk0 l0 pos = Ok (ns0, cp0, err0, c0') ->
      ns0 = r_nodes r /\ err0 = r_err r /\ r_cp r = [] /\ ep c0' <= N.max (ep c0) (ep c).

  Lemma tinv_same c c2 : cache c2 = cache c -> ep c <= ep c2 -> tinv c -> tinv c2.
  Proof.
    intros Hc Hle H idx pos r Hf p Hin f0 c0 stk0 l0 ns0 cp0 err0 c0' H0. rewrite Hc in Hf.
    destruct (H idx pos r Hf p Hin _ _ _ _ _ _ _ _ H0) as [A1 [A2 [A3 A4]]].
    split; [exact A1|]. split; [exact A2|]. split; [exact A3|lia].
  Qed.
  Lemma tinv_set_error c e : tinv c -> tinv (set_error c e).
  Proof. apply tinv_same; [reflexivity|rewrite ep_set_error; lia]. Qed.

  Lemma tinv_save c1 idx pos r p f0 c0 stk0 l0 cp0 c0' :
    tinv c1 -> In (idx, p) M -> r_cp r = [] ->
    parse inp prules f0 (strip_memo p) c0 stk0 l0 pos = Ok (r_nodes r, cp0, r_err r, c0') ->
    ep c0' <= ep c1 ->
    tinv (cache_save c1 idx pos r).
  Proof.
    intros Hc Hin Hcp Ha Hle idx' pos' r' Hf p' Hin' f2 c2 stk2 l2 ns2 cp2 err2 c2' H2.
    cbn [cache_save cache cache_find fst snd] in Hf.
    destruct ((idx' =? idx) && (pos' =? pos)) eqn:E.
    - apply andb_true_iff in E. destruct E as [E1 E2]. apply N.eqb_eq in E1, E2. subst idx' pos'.
      inversion Hf; subst r'. rewrite (HM idx p' p Hin' Hin) in H2.
      destruct (plain_indep inp prules prules_nomemo _ _ _ _ _ _ _ _ _ _ _ _ _ _ _ _ _ _ (nomemo_strip p) Ha H2)
        as [B1 [B2 [_ [_ [dd [G1 G2]]]]]].
      split; [symmetry; exact B1|]. split; [symmetry; exact B2|]. split; [exact Hcp|].
      change (ep (cache_save c1 idx pos r)) with (ep c1). lia.
    - destruct (Hc idx' pos' r' Hf p' Hin' _ _ _ _ _ _ _ _ H2) as [A1 [A2 [A3 A4]]].
      split; [exact A1|]. split; [exact A2|]. split; [exact A3|exact A4].
  Qed.

  Definition ptrans (rp : ptype) : Prop :=
    forall e b c stk lrc pos ns cp err c' f0 c0 stk0 l0 ns0 cp0 err0 c0',
      eok b e = true -> incl (memos e) M -> below b lrc -> tinv c -> ep c = ep c0 ->
      cinv c -> stk_ok stk lrc pos -> log_ok c stk ->
      rp e c stk lrc pos = Ok (ns, cp, err, c') ->
      parse inp prules f0 (strip_memo e) c0 stk0 l0 pos = Ok (ns0, cp0, err0, c0') ->
      ns = ns0 /\ err = err0 /\ cp = [] /\ tinv c' /\ ep c' = ep c0'.

  Definition strans (rs : stype) : Prop :=
    forall q b d c stk lrc pos m st stop st' c' f0 c0 stk0 l0 stop0 st0' c0',
      seq_go rk rrk cons (q_kind q) b (q_ps q) = true -> (forall p, In p (q_ps q) -> incl (memos p) M) ->
      below (bat (q_kind q) b (q_ps q) d) lrc -> tinv c -> ep c = ep c0 -> s_cp st = [] ->
      cinv c -> stk_ok stk lrc pos -> log_ok c stk ->
      rs q d c stk lrc pos m st = Ok (stop, st', c') ->
      seqp inp prules f0 (strip_q q) d c0 stk0 l0 pos m st = Ok (stop0, st0', c0') ->
      stop = stop0 /\ st' = st0' /\ s_cp st' = [] /\ tinv c' /\ ep c' = ep c0'.

  Section StepT.
    Variable rp : ptype.
    Variable rs : stype.
    Hypothesis Hpm : pminv rp.
    Hypothesis Hsm : sminv rs.
    Hypothesis Hp : ptrans rp.
    Hypothesis Hs : strans rs.

    Lemma any_loop_trans b stk lrc pos f0 ps : forall c res err nf ns cp1 err1 c' c0 stk0 l0 cpx ns0 cp0 err0 c0',
      forallb (eok b) ps = true -> (forall p, In p ps -> incl (memos p) M) -> below b lrc ->
      tinv c -> ep c = ep c0 -> cinv c -> stk_ok stk lrc pos -> log_ok c stk ->
      any_loop rp stk lrc pos ps c [] res err nf = Ok (ns, cp1, err1, c') ->
      any_loop (fun e c stk l p => parse inp prules f0 e c stk l p) stk0 l0 pos (map strip_memo ps) c0 cpx res err nf
        = Ok (ns0, cp0, err0, c0') ->
      ns = ns0 /\ err1 = err0 /\ cp1 = [] /\ tinv c' /\ ep c' = ep c0'.
    Proof.
      induction ps as [|p ps IH]; intros c res err nf ns cp1 err1 c' c0 stk0 l0 cpx ns0 cp0 err0 c0' Hok Hm Hb Hc He Hci Hk Hl H H0;
        cbn [map any_loop] in H, H0.
      - destruct res; inversion H; inversion H0; subst; do 3 (split; [reflexivity|]).
        + split; assumption.
        + split; [apply tinv_set_error; exact Hc|]. rewrite !ep_set_error. lia.
      - cbn [forallb] in Hok. apply andb_true_iff in Hok. destruct Hok as [Hok1 Hok2].
        apply bind_ok in H. destruct H as [[[[r1 q1] e1] d1] [H H']].
        apply bind_ok in H0. destruct H0 as [[[[r2 q2] e2] d2] [H0 H0']].
        assert (Hc1 : tinv (reg_call c)) by (apply (tinv_same c); [reflexivity|apply N.le_refl|exact Hc]).
        pose proof (cinv_same c (reg_call c) eq_refl Hci) as Hci1.
        pose proof (log_ok_same c (reg_call c) stk eq_refl eq_refl Hl) as Hl1.
        destruct (Hp p b (reg_call c) stk lrc pos _ _ _ _ f0 (reg_call c0) stk0 l0 _ _ _ _ Hok1 (Hm p (or_introl eq_refl)) Hb Hc1 He
                     Hci1 Hk Hl1 H H0) as [E1 [E2 [E3 [Hc' He']]]]. subst r2 e2 q1.
        destruct (Hpm p b (reg_call c) stk lrc pos _ _ _ _ Hok1 (Hm p (or_introl eq_refl)) Hb Hci1 Hk Hl1 H) as [_ [Hci' [Hl' _]]].
        destruct (alt_err pos err nf e1) as [err' nf']. cbn [set_union fold_left] in H'.
        eapply IH; [exact Hok2| |exact Hb|exact Hc'|exact He'|exact Hci'|exact Hk|exact Hl'|exact H'|exact H0'].
        intros p' Hp'. apply Hm. right. exact Hp'.
    Qed.

    Lemma choice_loop_trans b stk lrc pos f0 ps : forall c err nf ns cp1 err1 c' c0 stk0 l0 cpx ns0 cp0 err0 c0',
      forallb (eok b) ps = true -> (forall p, In p ps -> incl (memos p) M) -> below b lrc ->
      tinv c -> ep c = ep c0 -> cinv c -> stk_ok stk lrc pos -> log_ok c stk ->
      choice_loop rp stk lrc pos ps c [] err nf = Ok (ns, cp1, err1, c') ->
      choice_loop (fun e c stk l p => parse inp prules f0 e c stk l p) stk0 l0 pos (map strip_memo ps) c0 cpx err nf
        = Ok (ns0, cp0, err0, c0') ->
      ns = ns0 /\ err1 = err0 /\ cp1 = [] /\ tinv c' /\ ep c' = ep c0'.
    Proof.
      induction ps as [|p ps IH]; intros c err nf ns cp1 err1 c' c0 stk0 l0 cpx ns0 cp0 err0 c0' Hok Hm Hb Hc He Hci Hk Hl H H0;
        cbn [map choice_loop] in H, H0.
      - inversion H; inversion H0; subst. do 3 (split; [reflexivity|]). split; assumption.
      - cbn [forallb] in Hok. apply andb_true_iff in Hok. destruct Hok as [Hok1 Hok2].
        apply bind_ok in H. destruct H as [[[[r1 q1] e1] d1] [H H']].
        apply bind_ok in H0. destruct H0 as [[[[r2 q2] e2] d2] [H0 H0']].
        assert (Hc1 : tinv (reg_call c)) by (apply (tinv_same c); [reflexivity|apply N.le_refl|exact Hc]).
        pose proof (cinv_same c (reg_call c) eq_refl Hci) as Hci1.
        pose proof (log_ok_same c (reg_call c) stk eq_refl eq_refl Hl) as Hl1.
        destruct (Hp p b (reg_call c) stk lrc pos _ _ _ _ f0 (reg_call c0) stk0 l0 _ _ _ _ Hok1 (Hm p (or_introl eq_refl)) Hb Hc1 He
                     Hci1 Hk Hl1 H H0) as [E1 [E2 [E3 [Hc' He']]]]. subst r2 e2 q1.
        destruct (Hpm p b (reg_call c) stk lrc pos _ _ _ _ Hok1 (Hm p (or_introl eq_refl)) Hb Hci1 Hk Hl1 H) as [_ [Hci' [Hl' _]]].
        destruct (alt_err pos err nf e1) as [err' nf']. cbn [set_union fold_left] in H'.
        destruct r1 as [|n1 r1].
        + eapply IH; [exact Hok2| |exact Hb|exact Hc'|exact He'|exact Hci'|exact Hk|exact Hl'|exact H'|exact H0'].
          intros p' Hp'. apply Hm. right. exact Hp'.
        + inversion H'; inversion H0'; subst. do 3 (split; [reflexivity|]).
          split; [apply tinv_set_error; exact Hc'|]. rewrite !ep_set_error. lia.
    Qed.

    Ltac plain_step H0 := cbn [strip_memo] in H0; rewrite parse_S in H0.

    Lemma parse_step_trans : ptrans (parse_step inp rules rp rs).
    Proof.
      intros e b c stk lrc pos ns cp err c' f0 c0 stk0 l0 ns0 cp0 err0 c0' Hok Hm Hb Hc He Hci Hk Hl H H0.
      destruct f0 as [|f0]; [discriminate|].
      destruct e.
      - (* PTerm *) plain_step H0. cbn [parse_step] in H, H0.
        destruct (term_parse inp t pos) as [res terr]. inversion H; inversion H0; subst.
        do 3 (split; [reflexivity|]).
        destruct ns0; [destruct err0|]; (split; [|exact He]); try exact Hc;
          (apply (tinv_same c); [reflexivity|apply N.le_refl|exact Hc]).
      - (* PEmpty *) plain_step H0. cbn [parse_step] in H, H0. inversion H; inversion H0; subst.
        do 3 (split; [reflexivity|]). split; assumption.
      - (* PEnd *) plain_step H0. cbn [parse_step] in H, H0.
        destruct (is_eof inp pos); inversion H; inversion H0; subst; do 3 (split; [reflexivity|]); (split; [|exact He]);
          [exact Hc|apply (tinv_same c); [reflexivity|apply N.le_refl|exact Hc]].
      - (* PRef *) plain_step H0. cbn [parse_step] in H, H0.
        destruct (nth_N rules k) as [body|] eqn:E; [|discriminate].
        assert (E0 : nth_N prules k = Some (strip_memo body)).
        { unfold nth_N in *. rewrite nth_error_map, E. reflexivity. }
        rewrite E0 in H0. cbn [edge_ok] in Hok. apply N.leb_le in Hok.
        exact (Hp body (rrk k) c stk lrc pos _ _ _ _ f0 c0 stk0 l0 _ _ _ _ (Hro k body E) (Hrm k body E)
                  (lrc_below_le rk b (rrk k) lrc Hok Hb) Hc He Hci Hk Hl H H0).
      - (* PMemo *) cbn [edge_ok] in Hok. apply andb_true_iff in Hok. destruct Hok as [Hle Hok]. apply N.leb_le in Hle.
        assert (Hin : In (idx, e) M) by (apply Hm; cbn [memos]; left; reflexivity).
        assert (Hm' : incl (memos e) M) by (intros x Hx; apply Hm; cbn [memos]; right; exact Hx).
        pose proof (lrc_below_zero rk idx b lrc Hle Hb) as Hz.
        cbn [strip_memo] in H0. cbn [parse_step] in H.
        destruct (plain_indep inp prules prules_nomemo _ _ _ _ _ _ _ _ _ _ _ _ _ _ _ _ _ _ (nomemo_strip e) H0 H0)
          as [_ [_ [_ [_ G]]]]. apply grow_le in G. destruct G as [G _].
        destruct (cache_get c idx pos lrc) as [r|] eqn:Eg.
        + inversion H; subst. unfold cache_get in Eg.
          destruct (cache_find (idx, pos) (cache c')) as [r0|] eqn:Ef; [|discriminate].
          destruct (reusable (r_lrc r0) lrc); [|discriminate]. inversion Eg; subst r0.
          destruct (Hc idx pos r Ef e Hin _ _ _ _ _ _ _ _ H0) as [A1 [A2 [A3 A4]]].
          split; [symmetry; exact A1|]. split; [symmetry; exact A2|]. split; [exact A3|]. split; [exact Hc|lia].
        + destruct (remaining inp pos + 1 <? map_get idx lrc) eqn:Ec.
          { apply N.ltb_lt in Ec. rewrite Hz in Ec. lia. }
          apply bind_ok in H. destruct H as [[[[r1 q1] e1] d1] [H H']].
          assert (Hc1 : tinv (log_body c idx pos (1 + count_active idx pos stk))).
          { apply (tinv_same c); [reflexivity|apply N.le_refl|exact Hc]. }
          pose proof (cinv_miss c idx pos lrc Hci Eg) as Hf.
          destruct (Hp e (rk idx + 1) _ _ _ pos _ _ _ _ _ c0 stk0 l0 _ _ _ _ Hok Hm' (lrc_below_inc rk idx b lrc Hle Hb) Hc1 He
                       (cinv_same c (log_body c idx pos (1 + count_active idx pos stk)) eq_refl Hci)
                       (stk_ok_enter stk lrc pos idx Hk) (log_ok_enter c stk idx pos lrc Hl Hk Hz Hf) H H0)
            as [E1 [E2 [E3 [Hc' He']]]]. subst r1 e1 q1.
          inversion H'; subst. do 3 (split; [reflexivity|]). split; [|exact He'].
          eapply tinv_save with (p := e); [exact Hc'|exact Hin|reflexivity|exact H0|lia].
      - (* PAny *) plain_step H0. cbn [parse_step] in H, H0. cbn [edge_ok] in Hok. cbn [memos] in Hm.
        exact (any_loop_trans b stk lrc pos f0 ps c [] None None _ _ _ _ c0 stk0 l0 [] _ _ _ _ Hok
                  (fun p Hp' => incl_tran (memos_in_list ps p Hp') Hm) Hb Hc He Hci Hk Hl H H0).
      - (* PChoice *) plain_step H0. cbn [parse_step] in H, H0. cbn [edge_ok] in Hok. cbn [memos] in Hm.
        exact (choice_loop_trans b stk lrc pos f0 ps c None None _ _ _ _ c0 stk0 l0 [] _ _ _ _ Hok
                  (fun p Hp' => incl_tran (memos_in_list ps p Hp') Hm) Hb Hc He Hci Hk Hl H H0).
      - (* POpt *) plain_step H0. cbn [parse_step] in H, H0. cbn [edge_ok] in Hok. cbn [memos] in Hm.
        apply bind_ok in H. destruct H as [[[[r1 q1] e1] d1] [H H']].
        apply bind_ok in H0. destruct H0 as [[[[r2 q2] e2] d2] [H0 H0']].
        destruct (Hp e b _ _ _ pos _ _ _ _ _ _ _ _ _ _ _ _ Hok Hm Hb Hc He Hci Hk Hl H H0) as [E1 [E2 [E3 [Hc' He']]]].
        inversion H'; inversion H0'; subst. do 3 (split; [reflexivity|]). split; assumption.
      - (* PSeq *) plain_step H0. rewrite parse_step_seq in H, H0. rewrite edge_ok_seq in Hok. cbn [memos] in Hm.
        apply bind_ok in H. destruct H as [[[s1 t1] d1] [H H']].
        apply bind_ok in H0. destruct H0 as [[[s2 t2] d2] [H0 H0']].
        assert (X : below (bat k b ps 0) lrc) by (rewrite bound_at_0; exact Hb).
        destruct (Hs {| q_kind := k; q_ip := ip; q_single := single; q_ps := ps |} b 0%nat c stk lrc pos true st0
                     _ _ _ f0 c0 stk0 l0 _ _ _ Hok (fun p Hp' => incl_tran (memos_in_list ps p Hp') Hm) X Hc He eq_refl
                     Hci Hk Hl H H0)
          as [_ [E2 [E3 [Hc' He']]]].
        subst t2. unfold seq_out in H', H0'. rewrite E3 in H', H0'.
        destruct (s_res t1); inversion H'; inversion H0'; subst; do 3 (split; [reflexivity|]).
        + split; assumption.
        + split; [apply tinv_set_error; exact Hc'|]. rewrite !ep_set_error. lia.
      - (* PName *) plain_step H0. cbn [parse_step] in H, H0. cbn [edge_ok] in Hok. cbn [memos] in Hm.
        apply bind_ok in H. destruct H as [[[[r1 q1] e1] d1] [H H']].
        apply bind_ok in H0. destruct H0 as [[[[r2 q2] e2] d2] [H0 H0']].
        destruct (Hp e b _ _ _ pos _ _ _ _ _ _ _ _ _ _ _ _ Hok Hm Hb Hc He Hci Hk Hl H H0) as [E1 [E2 [E3 [Hc' He']]]]. subst r2 e2 q1.
        destruct e1 as [x|]; [|destruct r1]; inversion H'; inversion H0'; subst; do 3 (split; [reflexivity|]); split; assumption.
      - (* PLeftTrim *) plain_step H0. rewrite parse_step_ltrim in H, H0. cbn [edge_ok] in Hok. cbn [memos] in Hm.
        apply bind_ok in H. destruct H as [[[[r1 q1] e1] d1] [H H']].
        apply bind_ok in H0. destruct H0 as [[[[r2 q2] e2] d2] [H0 H0']].
        pose proof (skip_ws_ge inp pos m) as Hge.
        destruct (Hp e b _ _ _ _ _ _ _ _ _ _ _ _ _ _ _ _ Hok Hm Hb Hc He Hci (stk_ok_ge stk lrc pos _ Hk Hge) Hl H H0)
          as [E1 [E2 [E3 [Hc' He']]]]. subst r2 e2 q1.
        destruct (plain_indep inp prules prules_nomemo _ _ _ _ _ _ _ _ _ _ _ _ _ _ _ _ _ _ (nomemo_strip e) H0 H0)
          as [_ [_ [E4 _]]]. subst q2.
        destruct (ltrim_out pos (fst (skip_ws inp pos m)) (snd (skip_ws inp pos m)) r1 [] e1) as [[a b'] d] eqn:Eo.
        inversion H'; inversion H0'; subst.
        split; [reflexivity|]. split; [reflexivity|].
        split; [destruct (ltrim_out_cases _ _ _ _ _ _ _ _ _ Eo) as [[A B]|[A B]]; assumption|].
        split; [|rewrite !ep_ltrim by exact Hge; exact He'].
        apply (tinv_same d1); [apply cache_ltrim|rewrite ep_ltrim by exact Hge; lia|exact Hc'].
      - (* PRightTrim *) plain_step H0. cbn [parse_step] in H, H0. cbn [edge_ok] in Hok. cbn [memos] in Hm.
        apply bind_ok in H. destruct H as [[[[r1 q1] e1] d1] [H H']].
        apply bind_ok in H0. destruct H0 as [[[[r2 q2] e2] d2] [H0 H0']].
        destruct (Hp e b _ _ _ pos _ _ _ _ _ _ _ _ _ _ _ _ Hok Hm Hb Hc He Hci Hk Hl H H0) as [E1 [E2 [E3 [Hc' He']]]]. subst r2 e2 q1.
        destruct e1 as [x|].
        + inversion H'; inversion H0'; subst. do 3 (split; [reflexivity|]). split; assumption.
        + destruct (trim_nodes inp m r1 None) as [res' wserr]. destruct wserr; inversion H'; inversion H0'; subst;
            do 3 (split; [reflexivity|]); split; assumption.
      - (* PSuppress *) plain_step H0. cbn [parse_step] in H, H0. cbn [edge_ok] in Hok. cbn [memos] in Hm.
        apply bind_ok in H. destruct H as [[[[r1 q1] e1] d1] [H H']].
        apply bind_ok in H0. destruct H0 as [[[[r2 q2] e2] d2] [H0 H0']].
        destruct (Hp e b _ _ _ pos _ _ _ _ _ _ _ _ _ _ _ _ Hok Hm Hb Hc He Hci Hk Hl H H0) as [E1 [E2 [E3 [Hc' He']]]].
        inversion H'; inversion H0'; subst. do 3 (split; [reflexivity|]). split; assumption.
      - (* PSingle *) plain_step H0. cbn [parse_step] in H, H0. cbn [edge_ok] in Hok. cbn [memos] in Hm.
        apply bind_ok in H. destruct H as [[[[r1 q1] e1] d1] [H H']].
        apply bind_ok in H0. destruct H0 as [[[[r2 q2] e2] d2] [H0 H0']].
        destruct (Hp e b _ _ _ pos _ _ _ _ _ _ _ _ _ _ _ _ Hok Hm Hb Hc He Hci Hk Hl H H0) as [E1 [E2 [E3 [Hc' He']]]]. subst r2 e2 q1.
        destruct e1 as [x|].
        + inversion H'; inversion H0'; subst. do 3 (split; [reflexivity|]). split; assumption.
        + rewrite single_view in H', H0'. inversion H'; inversion H0'; subst.
          do 3 (split; [reflexivity|]). split; assumption.
    Qed.

    Lemma alts_loop_trans q b d pos m prefix f0 p lrc stk ns : forall st c c0 stk0 l0 stop st' c' stop0 st0' c0',
      seq_go rk rrk cons (q_kind q) b (q_ps q) = true -> (forall p, In p (q_ps q) -> incl (memos p) M) ->
      seq_lookup (q_kind q) (q_ps q) d = Some p ->
      (forall n, In n ns -> deep_ge pos n /\ (consuming cons p = true -> pos < node_rpos n)) ->
      below (bat (q_kind q) b (q_ps q) d) lrc -> tinv c -> ep c = ep c0 -> s_cp st = [] ->
      cinv c -> stk_ok stk lrc pos -> log_ok c stk ->
      alts_loop rs q d stk lrc pos m prefix ns st c = Ok (stop, st', c') ->
      alts_loop (fun q d c stk l p m st => seqp inp prules f0 q d c stk l p m st) (strip_q q) d stk0 l0 pos m prefix ns st c0
        = Ok (stop0, st0', c0') ->
      stop = stop0 /\ st' = st0' /\ s_cp st' = [] /\ tinv c' /\ ep c' = ep c0'.
    Proof.
      induction ns as [|n ns IH]; intros st c c0 stk0 l0 stop st' c' stop0 st0' c0' Hgo Hm Hlk Hns Hb Hc He Hcp Hci Hk Hl H H0;
        cbn [alts_loop] in H, H0.
      - inversion H; inversion H0; subst. do 2 (split; [reflexivity|]). split; [exact Hcp|]. split; assumption.
      - apply bind_ok in H. destruct H as [[[s1 t1] d1] [H H']].
        apply bind_ok in H0. destruct H0 as [[[s2 t2] d2] [H0 H0']].
        destruct (Hns n (or_introl eq_refl)) as [Hdn Hcn]. pose proof (deep_ge_rpos pos n Hdn) as Hrn.
        assert (Hb' : below (bat (q_kind q) b (q_ps q) (S d)) (if pos <? node_rpos n then [] else lrc)).
        { exact (lrc_next rk cons (q_kind q) b (q_ps q) d p pos n lrc Hlk Hcn Hb). }
        pose proof (stk_ok_next stk lrc pos n Hk Hrn) as Hk'.
        destruct (Hs q b (S d) c stk _ (node_rpos n) _
                     {| s_cp := s_cp st; s_res := s_res st; s_err := s_err st; s_nodes := n :: prefix |}
                     _ _ _ f0 c0 stk0 _ _ _ _ Hgo Hm Hb' Hc He Hcp Hci Hk' Hl H H0) as [E1 [E2 [E3 [Hc' He']]]]. subst s2 t2.
        destruct (Hsm q b (S d) c stk _ (node_rpos n) 0 _
                     {| s_cp := s_cp st; s_res := s_res st; s_err := s_err st; s_nodes := n :: prefix |}
                     _ _ _ Hgo Hm Hb' Hci Hk' Hl Hcp (N.le_0_l _) (fun x _ => deep_ge_0 x) (fun x _ => deep_ge_0 x) H)
          as [_ [Hci' [Hl' _]]].
        destruct s1.
        + inversion H'; inversion H0'; subst. do 2 (split; [reflexivity|]). split; [exact E3|]. split; assumption.
        + eapply IH; [exact Hgo|exact Hm|exact Hlk| |exact Hb|exact Hc'|exact He'|exact E3|exact Hci'|exact Hk|exact Hl'|exact H'|exact H0'].
          intros n' Hn'. apply Hns. right. exact Hn'.
    Qed.

    Lemma seq_step_trans : strans (seq_step rp rs).
    Proof.
      intros q b d c stk lrc pos m st stop st' c' f0 c0 stk0 l0 stop0 st0' c0' Hgo Hm Hb Hc He Hcp Hci Hk Hl H H0.
      destruct f0 as [|f0]; [discriminate|]. rewrite seqp_S in H0. rewrite seq_step_view in H, H0.
      apply bind_ok in H. destruct H as [[[[r1 q1] e1] d1] [H H']].
      apply bind_ok in H0. destruct H0 as [[[[r2 q2] e2] d2] [H0 H0']].
      unfold seq_sub in H, H0. cbn [strip_q q_kind q_ps] in H0. rewrite seq_lookup_map in H0.
      assert (Hsub : r1 = r2 /\ e1 = e2 /\ q1 = [] /\ q2 = [] /\ tinv d1 /\ ep d1 = ep d2 /\ cinv d1 /\ log_ok d1 stk /\
                     (forall p, seq_lookup (q_kind q) (q_ps q) d = Some p ->
                                forall n, In n r1 -> deep_ge pos n /\ (consuming cons p = true -> pos < node_rpos n))).
      { destruct (seq_lookup (q_kind q) (q_ps q) d) as [p|] eqn:El; cbn [option_map] in H0.
        - assert (Hc1 : tinv (reg_call c)) by (apply (tinv_same c); [reflexivity|apply N.le_refl|exact Hc]).
          pose proof (cinv_same c (reg_call c) eq_refl Hci) as Hci1.
          pose proof (log_ok_same c (reg_call c) stk eq_refl eq_refl Hl) as Hl1.
          pose proof (seq_go_lookup rk rrk cons _ b _ d p Hgo El) as Hokp.
          pose proof (Hm p (seq_lookup_in _ _ _ _ El)) as Hmp.
          destruct (Hp p _ (reg_call c) stk lrc pos _ _ _ _ f0 (reg_call c0) stk0 l0 _ _ _ _ Hokp Hmp Hb Hc1 He Hci1 Hk Hl1 H H0)
            as [E1 [E2 [E3 [Hc' He']]]].
          destruct (Hpm p _ (reg_call c) stk lrc pos _ _ _ _ Hokp Hmp Hb Hci1 Hk Hl1 H) as [_ [Hci' [Hl' [Hd Hcons]]]].
          destruct (plain_indep inp prules prules_nomemo _ _ _ _ _ _ _ _ _ _ _ _ _ _ _ _ _ _ (nomemo_strip p) H0 H0)
            as [_ [_ [E4 _]]].
          do 4 (split; [assumption|]). split; [exact Hc'|]. split; [exact He'|]. split; [exact Hci'|]. split; [exact Hl'|].
          intros p' Ep' n Hn. inversion Ep'; subst p'. split; [apply Hd; exact Hn|]. intros Hcs. apply Hcons; assumption.
        - inversion H; inversion H0; subst. do 4 (split; [reflexivity|]). split; [exact Hc|]. split; [exact He|].
          split; [exact Hci|]. split; [exact Hl|]. intros p' Ep'. discriminate. }
      destruct Hsub as [E1 [E2 [E3 [E4 [Hc' [He' [Hci' [Hl' Hns]]]]]]]]. subst r2 e2 q1 q2.
      assert (Hcp1 : s_cp (st_after st m [] e1) = []).
      { unfold st_after. cbn [s_cp]. rewrite Hcp. destruct m; reflexivity. }
      destruct r1 as [|n r1].
      - rewrite emit_strip in H0'. destruct (emit q d pos (st_after st m [] e1)) as [stop1 st2] eqn:Ee.
        inversion H'; inversion H0'; subst. do 2 (split; [reflexivity|]). split; [|split; assumption].
        unfold emit in Ee. destruct (seq_lencheck (q_kind q) (length (q_ps q)) d).
        + destruct (s_nodes (st_after st m [] e1)); inversion Ee; subst; cbn [s_cp]; exact Hcp1.
        + inversion Ee; subst. exact Hcp1.
      - destruct (seq_lookup (q_kind q) (q_ps q) d) as [p|] eqn:El; [|inversion H].
        exact (alts_loop_trans q b d pos m _ f0 p lrc stk (n :: r1) _ d1 d2 stk0 l0 _ _ _ _ _ _ Hgo Hm El
                  (Hns p eq_refl) Hb Hc' He' Hcp1 Hci' Hk Hl' H' H0').
    Qed.
  End StepT.

  Theorem trans_fuel : forall f, ptrans (parse inp rules f) /\ strans (seqp inp rules f).
  Proof.
    induction f as [|f [IHp IHs]].
    - split; intros until c0'; intros; discriminate.
    - destruct (minv_fuel f) as [Mp Ms]. split.
      + intros e b c stk lrc pos. rewrite parse_S. apply parse_step_trans; assumption.
      + intros q b d c stk lrc pos m st. rewrite seqp_S. apply seq_step_trans; assumption.
  Qed.

  Lemma tinv_ctx0 : tinv ctx0.
  Proof. intros idx pos r H. discriminate. Qed.
End Memo.

(* ------------------------------------------------------------------------------------- *)
(* Part 4: the theorems                                                                   *)
(* ------------------------------------------------------------------------------------- *)

Lemma rules_ok_nth rk rrk cons : forall rules k0, rules_ok rk rrk cons k0 rules = true ->
  forall i body, nth_error rules i = Some body -> edge_ok rk rrk cons (rrk (k0 + N.of_nat i)) body = true.
Proof.
  induction rules as [|x rules IH]; intros k0 H i body Hn; [destruct i; discriminate|].
  cbn [rules_ok] in H. apply andb_true_iff in H. destruct H as [H1 H2].
  destruct i as [|i]; cbn [nth_error] in Hn.
  - inversion Hn; subst x. cbn [N.of_nat]. rewrite N.add_0_r. exact H1.
  - specialize (IH (k0 + 1) H2 i body Hn). replace (k0 + N.of_nat (S i)) with (k0 + 1 + N.of_nat i) by lia. exact IH.
Qed.
Lemma rules_ok_nthN rk rrk cons rules : rules_ok rk rrk cons 0 rules = true ->
  forall k body, nth_N rules k = Some body -> edge_ok rk rrk cons (rrk k) body = true.
Proof.
  intros H k body Hn. unfold nth_N in Hn. pose proof (rules_ok_nth rk rrk cons rules 0 H _ body Hn) as X.
  rewrite N2Nat.id, N.add_0_l in X. exact X.
Qed.
Lemma cons_ok_nth cons : forall rules k0, cons_ok cons k0 rules = true ->
  forall i body, nth_error rules i = Some body -> cons (k0 + N.of_nat i) = true -> consuming cons body = true.
Proof.
  induction rules as [|x rules IH]; intros k0 H i body Hn Hc; [destruct i; discriminate|].
  cbn [cons_ok] in H. apply andb_true_iff in H. destruct H as [H1 H2].
  destruct i as [|i]; cbn [nth_error] in Hn.
  - inversion Hn; subst x. cbn [N.of_nat] in Hc. rewrite N.add_0_r in Hc. rewrite Hc in H1. exact H1.
  - apply (IH (k0 + 1) H2 i body Hn). replace (k0 + 1 + N.of_nat i) with (k0 + N.of_nat (S i)) by lia. exact Hc.
Qed.
Lemma cons_ok_nthN cons rules : cons_ok cons 0 rules = true ->
  forall k body, nth_N rules k = Some body -> cons k = true -> consuming cons body = true.
Proof.
  intros H k body Hn Hc. unfold nth_N in Hn. apply (cons_ok_nth cons rules 0 H _ body Hn).
  rewrite N2Nat.id, N.add_0_l. exact Hc.
Qed.
Lemma all_memos_rule rules root k body : nth_N rules k = Some body -> incl (memos body) (all_memos rules root).
Proof.
  intros Hn x Hx. unfold all_memos. apply in_flat_map. exists body. split; [|exact Hx].
  right. unfold nth_N in Hn. eapply nth_error_In; exact Hn.
Qed.
Lemma all_memos_root rules root : incl (memos root) (all_memos rules root).
Proof. intros x Hx. unfold all_memos. apply in_flat_map. exists root. split; [left; reflexivity|exact Hx]. Qed.

(* THEOREM 2.  In a left-recursion-free grammar the body of a Memoize runs at most once per
   input position: the ghost log of body executions of a run has no repeated (index, position).
   Also: every logged execution is the only active one of its (index, position) (activation
   count 1 — the observable form of "never re-entered"), the run reports no curtailing parser,
   every cache entry it leaves was stored with an empty left-recursion context (so a later
   lookup always accepts it), and every returned node ends at or after the start position. *)
Theorem C03_once inp rules root f ns cp err c :
  lr_free rules root ->
  run inp rules f root = Ok (ns, cp, err, c) ->
  NoDup (map fst (g_bodies c)) /\ (forall x, In x (g_bodies c) -> snd x = 1) /\ cp = [] /\
  (forall idx pos r, cache_find (idx, pos) (cache c) = Some r -> r_lrc r = [] /\ r_cp r = []) /\
  (forall n, In n ns -> i_offset inp <= node_rpos n).
Proof.
  intros [HM [rk [rrk [cons [Hr Hco]]]]] H. unfold lr_rank_ok in Hr. apply andb_true_iff in Hr. destruct Hr as [Hroot Hrules].
  unfold run in H.
  destruct (proj1 (minv_fuel inp rules rk rrk cons (all_memos rules root) HM (all_memos_rule rules root)
                     (rules_ok_nthN rk rrk cons rules Hrules) (cons_ok_nthN cons rules Hco) f)
              root 0 ctx0 [] [] (i_offset inp) ns cp err c
              Hroot (all_memos_root rules root) (lrc_below_nil rk 0)
              (cinv_ctx0 cons (all_memos rules root)) (stk_ok_nil [] (i_offset inp)) log_ok_ctx0 H) as [E1 [Hc [[Hl [_ Ha]] [Hd _]]]].
  split; [exact Hl|]. split; [exact Ha|]. split; [exact E1|]. split.
  - intros idx pos r Hf. destruct (Hc idx pos r Hf) as [A [B _]]. split; assumption.
  - intros n Hn. apply deep_ge_rpos. apply Hd. exact Hn.
Qed.

(* THEOREM 1.  For a left-recursion-free grammar, the memoised run and the run of the grammar
   with every Memoize wrapper removed return the same ordered result list and the same error,
   and leave the furthest recorded error at the same position. *)
Theorem C03_transparent inp rules root f f' ns cp err c ns' cp' err' c' :
  lr_free rules root ->
  run inp rules f root = Ok (ns, cp, err, c) ->
  run inp (map strip_memo rules) f' (strip_memo root) = Ok (ns', cp', err', c') ->
  ns = ns' /\ err = err' /\ option_map epos (cerr c) = option_map epos (cerr c').
Proof.
  intros [HM [rk [rrk [cons [Hr Hco]]]]] H H0. unfold lr_rank_ok in Hr. apply andb_true_iff in Hr. destruct Hr as [Hroot Hrules].
  unfold run in H, H0.
  destruct (proj1 (trans_fuel inp rules rk rrk cons (all_memos rules root) HM (all_memos_rule rules root)
                     (rules_ok_nthN rk rrk cons rules Hrules) (cons_ok_nthN cons rules Hco) f)
              root 0 ctx0 [] [] (i_offset inp) ns cp err c f' ctx0 [] [] ns' cp' err' c'
              Hroot (all_memos_root rules root) (lrc_below_nil rk 0)
              (tinv_ctx0 inp rules (all_memos rules root)) eq_refl
              (cinv_ctx0 cons (all_memos rules root)) (stk_ok_nil [] (i_offset inp)) log_ok_ctx0 H H0) as [E1 [E2 [_ [_ E3]]]].
  split; [exact E1|]. split; [exact E2|]. apply epn_option_map. exact E3.
Qed.

(* "any subset of the wrappers": two memoisations of the same plain grammar agree *)
Corollary C03_transparent_subset inp rules1 root1 rules2 root2 f1 f2 f0 ns1 cp1 err1 c1 ns2 cp2 err2 c2 r0 :
  lr_free rules1 root1 -> lr_free rules2 root2 ->
  map strip_memo rules1 = map strip_memo rules2 -> strip_memo root1 = strip_memo root2 ->
  run inp rules1 f1 root1 = Ok (ns1, cp1, err1, c1) ->
  run inp rules2 f2 root2 = Ok (ns2, cp2, err2, c2) ->
  run inp (map strip_memo rules1) f0 (strip_memo root1) = Ok r0 ->
  ns1 = ns2 /\ err1 = err2 /\ option_map epos (cerr c1) = option_map epos (cerr c2).
Proof.
  intros L1 L2 Er Eo H1 H2 H0. destruct r0 as [[[ns0 cp0] err0] c0].
  destruct (C03_transparent inp rules1 root1 f1 f0 _ _ _ _ _ _ _ _ L1 H1 H0) as [A1 [A2 A3]].
  rewrite Er, Eo in H0.
  destruct (C03_transparent inp rules2 root2 f2 f0 _ _ _ _ _ _ _ _ L2 H2 H0) as [B1 [B2 B3]].
  split; [congruence|]. split; congruence.
Qed.

(* the cache test is a conjunction over the stored counters: the order in which Go's map
   iteration (IntMap.Keys) enumerates them is irrelevant, and so is the representation of the
   current context *)
Lemma reusable_perm stored stored' cur cur' :
  Permutation stored stored' -> (forall k, map_get k cur = map_get k cur') ->
  reusable stored cur = reusable stored' cur'.
Proof.
  intros HP Hext. unfold reusable.
  induction HP as [|x l l' _ IH|x y l|l l' l'' _ IH1 _ IH2]; cbn [forallb].
  - reflexivity.
  - rewrite IH, Hext. reflexivity.
  - rewrite !Hext.
    assert (E : forallb (fun kv => snd kv <=? map_get (fst kv) cur) l = forallb (fun kv => snd kv <=? map_get (fst kv) cur') l).
    { apply forallb_Forall_ext. apply Forall_forall. intros kv _. rewrite Hext. reflexivity. }
    rewrite E. destruct (snd y <=? map_get (fst y) cur'), (snd x <=? map_get (fst x) cur'); reflexivity.
  - rewrite IH1. rewrite <- IH2.
    apply forallb_Forall_ext. apply Forall_forall. intros kv _. rewrite Hext. reflexivity.
Qed.
Lemma cache_get_ext c idx pos cur cur' :
  (forall k, map_get k cur = map_get k cur') -> cache_get c idx pos cur = cache_get c idx pos cur'.
Proof.
  intros Hext. unfold cache_get. destruct (cache_find (idx, pos) (cache c)) as [r|]; [|reflexivity].
  rewrite (reusable_perm (r_lrc r) (r_lrc r) cur cur' (Permutation_refl _) Hext). reflexivity.
Qed.

(* THEOREM 3.  The model is a function: two runs of the same grammar on the same input from a
   fresh context, with whatever (sufficient) fuel, have the same outcome — results, returned
   error, furthest error, call count, body log.  And the only place where the Go code consults
   an unordered container, the cache test, is invariant under permutation of the stored context. *)
Theorem C03_deterministic :
  (forall inp rules root f1 f2 x y,
      run inp rules f1 root = x -> x <> OutOfFuel -> run inp rules f2 root = y -> y <> OutOfFuel -> x = y) /\
  (forall stored stored' cur cur', Permutation stored stored' -> (forall k, map_get k cur = map_get k cur') ->
                                   reusable stored cur = reusable stored' cur').
Proof.
  split; [|exact reusable_perm].
  intros inp rules root f1 f2 x y Hx Hnx Hy Hny. unfold run in *.
  exact (parse_fuel_indep inp rules f1 f2 root ctx0 [] [] (i_offset inp) x y Hx Hnx Hy Hny).
Qed.
Corollary C03_deterministic_calls inp rules root f1 f2 ns1 cp1 err1 c1 ns2 cp2 err2 c2 :
  run inp rules f1 root = Ok (ns1, cp1, err1, c1) -> run inp rules f2 root = Ok (ns2, cp2, err2, c2) ->
  ns1 = ns2 /\ err1 = err2 /\ cerr c1 = cerr c2 /\ calls c1 = calls c2 /\ g_bodies c1 = g_bodies c2.
Proof.
  intros H1 H2.
  assert (E : Ok (ns1, cp1, err1, c1) = Ok (ns2, cp2, err2, c2)).
  { apply (proj1 C03_deterministic inp rules root f1 f2); [exact H1|discriminate|exact H2|discriminate]. }
  inversion E; subst. repeat split; reflexivity.
Qed.

(* ------------------------------------------------------------------------------------- *)
(* Part 5: decidable checks and examples                                                  *)
(* ------------------------------------------------------------------------------------- *)

Lemma nodup_N_sound l : nodup_N l = true -> NoDup l.
Proof.
  induction l as [|x t IH]; cbn [nodup_N]; intros H; [constructor|].
  apply andb_true_iff in H. destruct H as [H1 H2]. constructor; [|apply IH; exact H2].
  intros Hin. apply negb_true_iff in H1.
  assert (E : existsb (N.eqb x) t = true) by (apply existsb_exists; exists x; split; [exact Hin|apply N.eqb_refl]).
  congruence.
Qed.
Lemma nodup_fst_fun (L : list (N * pexpr)) : NoDup (map fst L) -> memo_fun L.
Proof.
  induction L as [|[j q] t IH]; intros H idx p p' H1 H2; [destruct H1|].
  cbn [map fst] in H. inversion H as [|? ? Hnot Hnd]; subst.
  destruct H1 as [E1|H1], H2 as [E2|H2].
  - inversion E1; inversion E2; subst. reflexivity.
  - inversion E1; subst. exfalso. apply Hnot. change idx with (fst (idx, p')). apply in_map. exact H2.
  - inversion E2; subst. exfalso. apply Hnot. change idx with (fst (idx, p)). apply in_map. exact H1.
  - exact (IH Hnd idx p p' H1 H2).
Qed.
Theorem lr_free_check_sound rk rrk cons rules root : lr_free_check rk rrk cons rules root = true -> lr_free rules root.
Proof.
  unfold lr_free_check. intros H. apply andb_true_iff in H. destruct H as [H H3].
  apply andb_true_iff in H. destruct H as [H1 H2]. split.
  - apply nodup_fst_fun. apply nodup_N_sound. exact H1.
  - exists rk, rrk, cons. split; assumption.
Qed.

(* ---- a complete certificate generator: [lr_free_auto] decides whether a labelling and a
   ranking exist (greatest consuming labelling; rank = H - height in the left-successor graph,
   which exists iff that graph is acyclic).  Soundness comes from the final check alone. ---- *)
Inductive lnode := LRule (k : N) | LMemo (idx : N).
(* what is entered from [e] before input is certainly consumed, not looking inside Memoize bodies *)
Fixpoint lsucc (cons : N -> bool) (e : pexpr) : list lnode :=
  match e with
  | PTerm _ | PEmpty | PEnd => []
  | PRef k => [LRule k]
  | PMemo idx _ => [LMemo idx]
  | PAny ps | PChoice ps => flat_map (lsucc cons) ps
  | POpt p | PName _ p | PLeftTrim _ p | PRightTrim _ p | PSuppress p | PSingle p => lsucc cons p
  | PSeq k _ _ _ ps =>
    if linear k then
      (fix go (l : list pexpr) : list lnode :=
         match l with [] => [] | p :: t => lsucc cons p ++ (if consuming cons p then [] else go t) end) ps
    else flat_map (lsucc cons) ps
  end.
Definition cons_of (tab : list bool) (k : N) : bool := nth (N.to_nat k) tab false.
Fixpoint cons_iter (n : nat) (rules : list pexpr) (tab : list bool) : list bool :=
  match n with O => tab | S n' => cons_iter n' rules (map (consuming (cons_of tab)) rules) end.
Definition auto_cons (rules : list pexpr) : N -> bool :=
  cons_of (cons_iter (S (length rules)) rules (map (fun _ => true) rules)).
Fixpoint lookup_N (i : N) (l : list (N * N)) : N :=
  match l with [] => 0 | (k, v) :: t => if i =? k then v else lookup_N i t end.
Definition hnode (tabR : list N) (tabM : list (N * N)) (x : lnode) : N :=
  match x with LRule k => nth (N.to_nat k) tabR 0 | LMemo i => lookup_N i tabM end.
Definition hmax (l : list N) : N := fold_right N.max 0 l.
Fixpoint h_iter (n : nat) (cons : N -> bool) (rules : list pexpr) (Ms : list (N * pexpr))
         (tabR : list N) (tabM : list (N * N)) : list N * list (N * N) :=
  match n with
  | O => (tabR, tabM)
  | S n' =>
    h_iter n' cons rules Ms
           (map (fun body => 1 + hmax (map (hnode tabR tabM) (lsucc cons body))) rules)
           (map (fun ip => (fst ip, 1 + hmax (map (hnode tabR tabM) (lsucc cons (snd ip))))) Ms)
  end.
Definition auto_tabs (rules : list pexpr) (root : pexpr) : list N * list (N * N) :=
  let Ms := all_memos rules root in
  h_iter (S (length rules + length Ms)) (auto_cons rules) rules Ms (map (fun _ => 0) rules) (map (fun ip => (fst ip, 0)) Ms).
Definition auto_H (rules : list pexpr) (root : pexpr) : N := N.of_nat (length rules + length (all_memos rules root)) + 2.
Definition lr_free_auto (rules : list pexpr) (root : pexpr) : bool :=
  let cons := auto_cons rules in
  let tabs := auto_tabs rules root in
  let H := auto_H rules root in
  let tabR := fst tabs in
  let tabM := snd tabs in
  lr_free_check (fun i => H - lookup_N i tabM) (fun k => H - nth (N.to_nat k) tabR 0) cons rules root.
Theorem lr_free_auto_sound rules root : lr_free_auto rules root = true -> lr_free rules root.
Proof. unfold lr_free_auto. cbv zeta. apply lr_free_check_sound. Qed.

Definition ch_a : N := 97.  Definition ch_b : N := 98.  Definition ch_d : N := 100.
Definition ch_plus : N := 43.  Definition ch_lp : N := 40.  Definition ch_rp : N := 41.
Definition sq (ps : list pexpr) : pexpr := PSeq SeqOf INone false None ps.

(* (1) right recursion: P -> a P | b *)
Definition ex1_rules : list pexpr := [PMemo 1 (PAny [sq [PTerm (TRune ch_a); PRef 0]; PTerm (TRune ch_b)])].
Definition ex1_inp : input := mk_input [97; 97; 97; 98] 1.
Example ex1_lr_free : lr_free ex1_rules (PRef 0).
Proof. apply (lr_free_check_sound (fun _ => 0) (fun _ => 0) (fun _ => false)). vm_compute. reflexivity. Qed.
Example ex1_auto : lr_free_auto ex1_rules (PRef 0) = true.  Proof. vm_compute. reflexivity. Qed.
Example ex1_runs : exists n c c',
  run ex1_inp ex1_rules 100 (PRef 0) = Ok ([n], [], None, c) /\
  run ex1_inp (map strip_memo ex1_rules) 100 (strip_memo (PRef 0)) = Ok ([n], [], None, c') /\
  node_rpos n = 5 /\ length (g_bodies c) = 4%nat /\ calls c' = calls c.
Proof. do 3 eexists. vm_compute. repeat split; reflexivity. Qed.

(* (2) Many / SepBy / Choice / Any with five memoised sub-parsers:
       E -> T (('+'|'-') T)*      (SepBy1; the separator is a memoised Choice)
       T -> '(' E ')' | D '!' | D (Any, memoised; D is asked twice at the same position)
       D -> d+                    (Many1 of a memoised terminal, itself memoised) *)
Definition ex2_E : pexpr :=
  PMemo 10 (PSeq (SSepBy false) IArray false None
                 [PRef 1; PMemo 11 (PChoice [PTerm (TRune ch_plus); PTerm (TRune 45)])]).
Definition ex2_T : pexpr :=
  PMemo 12 (PAny [sq [PTerm (TRune ch_lp); PRef 0; PTerm (TRune ch_rp)]; sq [PRef 2; PTerm (TRune 33)]; PRef 2]).
Definition ex2_D : pexpr := PMemo 13 (PSeq (SMany false) IArray false None [PMemo 14 (PTerm (TRune ch_d))]).
Definition ex2_rules : list pexpr := [ex2_E; ex2_T; ex2_D].
Definition ex2_rk (i : N) : N := if i =? 10 then 0 else if i =? 11 then 1 else if i =? 12 then 1 else if i =? 13 then 2 else 3.
Definition ex2_inp : input := mk_input [100; 43; 40; 100; 100; 45; 100; 41; 43; 100] 1.   (* d+(dd-d)+d *)
Example ex2_lr_free : lr_free ex2_rules (sentence (PRef 0)).
Proof. apply (lr_free_check_sound ex2_rk (fun k => k) (fun _ => false)). vm_compute. reflexivity. Qed.
Example ex2_auto : lr_free_auto ex2_rules (sentence (PRef 0)) = true.  Proof. vm_compute. reflexivity. Qed.
Example ex2_runs : exists n c c',
  run ex2_inp ex2_rules 200 (sentence (PRef 0)) = Ok ([n], [], None, c) /\
  run ex2_inp (map strip_memo ex2_rules) 200 (strip_memo (sentence (PRef 0))) = Ok ([n], [], None, c') /\
  node_rpos n = 11 /\ (calls c <? calls c') = true.
Proof. do 3 eexists. vm_compute. repeat split; reflexivity. Qed.

(* (3) left recursion is rejected: P -> P b | a *)
Definition ex3_rules : list pexpr := [PMemo 1 (PAny [sq [PRef 0; PTerm (TRune ch_b)]; PTerm (TRune ch_a)])].
Example ex3_not_lr_free : ~ lr_free ex3_rules (PRef 0).
Proof.
  intros [_ [rk [rrk [cons [H _]]]]]. unfold lr_rank_ok, ex3_rules, sq in H.
  cbn [edge_ok rules_ok forallb linear andb] in H.
  repeat match goal with X : _ && _ = true |- _ => apply andb_true_iff in X; destruct X end.
  repeat match goal with X : (_ <=? _) = true |- _ => apply N.leb_le in X end. lia.
Qed.
Example ex3_auto : lr_free_auto ex3_rules (PRef 0) = false.  Proof. vm_compute. reflexivity. Qed.
(* ... and it must be: on "abb" the memoised body of P runs several times at position 1 *)
Definition ex3_inp : input := mk_input [97; 98; 98] 1.
Fixpoint nodup_NN (l : list (N * N)) : bool :=
  match l with
  | [] => true
  | x :: t => negb (existsb (fun y => (fst x =? fst y) && (snd x =? snd y)) t) && nodup_NN t
  end.
Lemma NoDup_nodup_NN l : NoDup l -> nodup_NN l = true.
Proof.
  induction 1 as [|x t Hnot _ IH]; cbn [nodup_NN]; [reflexivity|]. rewrite IH, andb_true_r.
  apply negb_true_iff. destruct (existsb (fun y => (fst x =? fst y) && (snd x =? snd y)) t) eqn:E; [|reflexivity].
  apply existsb_exists in E. destruct E as [y [Hy E]]. apply andb_true_iff in E. destruct E as [E1 E2].
  apply N.eqb_eq in E1, E2. destruct x, y; cbn [fst snd] in *; subst. contradiction.
Qed.
Example ex3_runs : exists r, run ex3_inp ex3_rules 200 (PRef 0) = Ok r.
Proof. eexists. vm_compute. reflexivity. Qed.
Example ex3_not_once ns cp err c :
  run ex3_inp ex3_rules 200 (PRef 0) = Ok (ns, cp, err, c) -> ~ NoDup (map fst (g_bodies c)).
Proof.
  intros H Hnd. apply NoDup_nodup_NN in Hnd.
  assert (X : match run ex3_inp ex3_rules 200 (PRef 0) with
              | Ok (_, _, _, c) => nodup_NN (map fst (g_bodies c))
              | _ => true
              end = false) by (vm_compute; reflexivity).
  rewrite H in X. congruence.
Qed.

(* (4) why only the POSITION of the furthest recorded error is claimed: a cache hit does not
   replay SetError and ties keep the later error.  R = Memoize(a b | a); on "ac" the root
   (R q | X q | R q) with X = (a x | a) leaves "was expecting x" in the memoised context and
   "was expecting b" in the plain one — both at position 2. *)
Definition ex4_rules : list pexpr := [PMemo 1 (PAny [sq [PTerm (TRune ch_a); PTerm (TRune ch_b)]; PTerm (TRune ch_a)])].
Definition ex4_X : pexpr := PAny [sq [PTerm (TRune ch_a); PTerm (TRune 120)]; PTerm (TRune ch_a)].
Definition ex4_root : pexpr :=
  PAny [sq [PRef 0; PTerm (TRune 113)]; sq [ex4_X; PTerm (TRune 113)]; sq [PRef 0; PTerm (TRune 113)]].
Definition ex4_inp : input := mk_input [97; 99] 1.
Example ex4_lr_free : lr_free ex4_rules ex4_root.
Proof. apply lr_free_auto_sound. vm_compute. reflexivity. Qed.
Example ex4_message_differs : exists ns cp err c ns' cp' err' c',
  run ex4_inp ex4_rules 100 ex4_root = Ok (ns, cp, err, c) /\
  run ex4_inp (map strip_memo ex4_rules) 100 (strip_memo ex4_root) = Ok (ns', cp', err', c') /\
  option_map epos (cerr c) = Some 2 /\ option_map epos (cerr c') = Some 2 /\
  option_map ecause (cerr c) <> option_map ecause (cerr c').
Proof.
  do 8 eexists. split; [vm_compute; reflexivity|]. split; [vm_compute; reflexivity|].
  split; [reflexivity|]. split; [reflexivity|]. cbn [cerr option_map ecause]. discriminate.
Qed.

(* (5) references at the left edge, rules in "wrong" order, consuming decided through the
   rule labelling:  List -> Item List | Item ;  Item -> a | '(' List ')'.
   (rule 0 = List refers to rule 1 = Item at its left edge; List again only after Item, which
   is consuming because both its alternatives are) *)
Definition ex5_rules : list pexpr :=
  [PMemo 1 (PAny [sq [PRef 1; PRef 0]; PRef 1]);
   PMemo 2 (PAny [PTerm (TRune ch_a); sq [PTerm (TRune ch_lp); PRef 0; PTerm (TRune ch_rp)]])].
Definition ex5_inp : input := mk_input [97; 40; 97; 97; 41; 97] 1.      (* a(aa)a *)
Example ex5_auto : lr_free_auto ex5_rules (sentence (PRef 0)) = true.  Proof. vm_compute. reflexivity. Qed.
Example ex5_lr_free : lr_free ex5_rules (sentence (PRef 0)).
Proof. apply lr_free_auto_sound. exact ex5_auto. Qed.
Example ex5_runs : exists n c c',
  run ex5_inp ex5_rules 300 (sentence (PRef 0)) = Ok ([n], [], None, c) /\
  run ex5_inp (map strip_memo ex5_rules) 300 (strip_memo (sentence (PRef 0))) = Ok ([n], [], None, c') /\
  node_rpos n = 7 /\ (calls c <? calls c') = true.
Proof. do 3 eexists. vm_compute. repeat split; reflexivity. Qed.
(* the same grammar with the rules swapped is accepted as well (no ordering requirement) *)
Definition ex5b_rules : list pexpr :=
  [PMemo 2 (PAny [PTerm (TRune ch_a); sq [PTerm (TRune ch_lp); PRef 1; PTerm (TRune ch_rp)]]);
   PMemo 1 (PAny [sq [PRef 0; PRef 1]; PRef 0])].
Example ex5b_auto : lr_free_auto ex5b_rules (sentence (PRef 1)) = true.  Proof. vm_compute. reflexivity. Qed.
(* indirect left recursion through a nullable prefix is rejected:  A -> Opt(b) B c ; B -> A | d *)
Definition ex6_rules : list pexpr :=
  [PMemo 1 (sq [POpt (PTerm (TRune ch_b)); PRef 1; PTerm (TRune 99)]); PMemo 2 (PAny [PRef 0; PTerm (TRune ch_d)])].
Example ex6_auto : lr_free_auto ex6_rules (PRef 0) = false.  Proof. vm_compute. reflexivity. Qed.

(* (7) literal terminals and trimming:  V -> Integer | '[' V ']'   with Spaces skipped before each element
   (the brackets are terminal.Rune literals, not [TRune]); a literal counts as consuming because it is
   [term_strict].  On "[ [42 ] ]" the memoised and the stripped run return the same single node. *)
Definition ex7_lt (p : pexpr) : pexpr := PLeftTrim WsSpaces p.
Definition ex7_rules : list pexpr :=
  [PMemo 1 (PChoice [PTerm (TLit LInteger);
                     PSeq SeqOf IArray false None
                          [ex7_lt (PTerm (TLit (LRune 91))); ex7_lt (PRef 0); ex7_lt (PTerm (TLit (LRune 93)))]])].
Definition ex7_inp : input := mk_input [91; 32; 91; 52; 50; 32; 93; 32; 93] 1.      (* [ [42 ] ] *)
Example ex7_auto : lr_free_auto ex7_rules (PRef 0) = true.  Proof. vm_compute. reflexivity. Qed.
Example ex7_lr_free : lr_free ex7_rules (PRef 0).
Proof. apply lr_free_auto_sound. exact ex7_auto. Qed.
Example ex7_runs : exists n c c',
  run ex7_inp ex7_rules 100 (PRef 0) = Ok ([n], [], None, c) /\
  run ex7_inp (map strip_memo ex7_rules) 100 (strip_memo (PRef 0)) = Ok ([n], [], None, c') /\
  node_pos n = 1 /\ node_rpos n = 10 /\ length (g_bodies c) = 3%nat /\
  n = NNonTerm [83; 69; 81] IArray
        [NTerm [91] (VChar 91) 1 2;
         NNonTerm [83; 69; 81] IArray
           [NTerm [91] (VChar 91) 3 4; NTerm [73; 78; 84; 69; 71; 69; 82] (VInt 42) 4 6; NTerm [93] (VChar 93) 7 8] 3 8;
         NTerm [93] (VChar 93) 9 10] 1 10.
Proof. do 3 eexists. vm_compute. repeat split; reflexivity. Qed.
(* the theorem applied to this grammar (its hypotheses are the two runs above) *)
Example ex7_transparent ns cp err c ns' cp' err' c' :
  run ex7_inp ex7_rules 100 (PRef 0) = Ok (ns, cp, err, c) ->
  run ex7_inp (map strip_memo ex7_rules) 100 (strip_memo (PRef 0)) = Ok (ns', cp', err', c') ->
  ns = ns' /\ err = err' /\ option_map epos (cerr c) = option_map epos (cerr c').
Proof. apply C03_transparent. exact ex7_lr_free. Qed.
(* a user expression that can match the empty string is NOT consuming: P -> /a*/ P is rejected
   (with /a+/ it is accepted) *)
Definition ex8_rules (re : Regex.regex) : list pexpr := [PMemo 1 (sq [PTerm (TLit (LRegexp re 0)); PRef 0])].
Example ex8_star_auto : lr_free_auto (ex8_rules (Regex.RStar (Regex.RClass false [(97, 97)]))) (PRef 0) = false.
Proof. vm_compute. reflexivity. Qed.
Example ex8_plus_auto : lr_free_auto (ex8_rules (Regex.RPlus (Regex.RClass false [(97, 97)]))) (PRef 0) = true.
Proof. vm_compute. reflexivity. Qed.

(* restore the [lia] preprocessing of TermFacts/ReaderProofs (see the top of the file) *)
Ltac Zify.zify_convert_to_euclidean_division_equations_flag ::= constr:(true).
Ltac Zify.zify_post_hook ::= Z.to_euclidean_division_equations.
