(* EngineOracles.v — the engine properties as executable checks on the IMPLEMENTATION's
   observation (H_oracle), using the specification (derivation validity, least-fixpoint
   end sets, the stated bounds) and not the engine model; plus the per-property
   projections (H_agree).  No proofs. *)
From Coq Require Import String List NArith ZArith Bool.
From Parsley Require Import Obs Base FileSet Grammar Engine Spec EngineHarness.
Import ListNotations.
Open Scope N_scope.

Definition tag_is (o : obs) (t : string) : bool := match o with OT t' _ => String.eqb t t' | _ => false end.
Definition args (o : obs) : list obs := match o with OT _ l => l | OL l => l | _ => [] end.
Definition nums (o : obs) : list N := match o with OS l => l | _ => [] end.
Definition num (o : obs) : N := match o with ON n => n | _ => 0 end.

(* ---- decoding nodes printed by the driver ---- *)
Definition tok_of_code (c : N) : list N :=
  if c =? 0 then seq_token SeqOf else if c =? 1 then seq_token (SMany true) else if c =? 2 then seq_token (SSepBy true) else [63].
(* the value of a literal leaf: a float64 / time.Duration is printed by its lexeme only, the decoded
   node carries the dummy value 0 (the token tells which of the two it is); [lval_eqb] ignores it *)
Definition tok_DURATION : list N := [84;73;77;69;95;68;85;82;65;84;73;79;78].     (* "TIME_DURATION" *)
Definition lval_of_obs (tok : list N) (o : obs) : option lval :=
  match o with
  | OT t l =>
    if String.eqb t "r" then match l with [ON c] => Some (VChar c) | _ => None end
    else if String.eqb t "i" then match l with [OZ z] => Some (VInt z) | _ => None end
    else if String.eqb t "s" then match l with [OS s] => Some (VStr s) | _ => None end
    else if String.eqb t "b" then match l with [OB b] => Some (VBool b) | _ => None end
    else if String.eqb t "n" then match l with [] => Some VNil | _ => None end
    else if String.eqb t "lex" then
      match l with [OS _] => Some (if list_N_eqb tok tok_DURATION then VDur 0 else VFloat 0) | _ => None end
    else None
  | _ => None
  end.
Fixpoint node_of_obs (o : obs) : option node :=
  match o with
  | OT t l =>
    if String.eqb t "r" then match l with [OS [c; p; r]] => Some (NTerm [c] (VRune c) p r) | _ => None end
    else if String.eqb t "T" then
      match l with
      | [OS tok; v; OS [p; r]] => match lval_of_obs tok v with Some lv => Some (NTerm tok lv p r) | None => None end
      | _ => None
      end
    else if String.eqb t "E" then match l with [ON p] => Some (NEmpty p) | _ => None end
    else if String.eqb t "F" then match l with [ON p] => Some (NEnd p) | _ => None end
    else if String.eqb t "N" then
      match l with
      | [OS [tc; p; r]; OL cs] =>
        match (fix all (l : list obs) : option (list node) :=
                 match l with
                 | [] => Some []
                 | x :: t => match node_of_obs x, all t with Some n, Some ns => Some (n :: ns) | _, _ => None end
                 end) cs with
        | Some ns => Some (NNonTerm (tok_of_code tc) INone ns p r)
        | None => None
        end
      | _ => None
      end
    else None
  | _ => None
  end.
Fixpoint nodes_of_obs (l : list obs) : option (list node) :=
  match l with
  | [] => Some []
  | x :: t => match node_of_obs x, nodes_of_obs t with Some n, Some ns => Some (n :: ns) | _, _ => None end
  end.

(* equality of nodes up to the (unobservable) interpreter *)
(* values as far as the observation shows them: a rune is a rune whichever parser produced it; the numeric
   value of a float64 / time.Duration is not observed (rendered by lexeme, i.e. by the node's span) *)
Definition lval_eqb (a b : lval) : bool :=
  match a, b with
  | VRune c1, VRune c2 | VRune c1, VChar c2 | VChar c1, VRune c2 | VChar c1, VChar c2 => c1 =? c2
  | VInt z1, VInt z2 => Z.eqb z1 z2
  | VFloat _, VFloat _ => true
  | VStr s1, VStr s2 => list_N_eqb s1 s2
  | VBool b1, VBool b2 => Bool.eqb b1 b2
  | VNil, VNil => true
  | VDur _, VDur _ => true
  | _, _ => false
  end.
Fixpoint node_eqb (a b : node) : bool :=
  match a, b with
  | NTerm t1 v1 p1 r1, NTerm t2 v2 p2 r2 => list_N_eqb t1 t2 && lval_eqb v1 v2 && (p1 =? p2) && (r1 =? r2)
  | NEmpty p, NEmpty q => p =? q
  | NEnd p, NEnd q => p =? q
  | NNonTerm t1 _ cs1 p1 r1, NNonTerm t2 _ cs2 p2 r2 =>
    list_N_eqb t1 t2 && (p1 =? p2) && (r1 =? r2) &&
    (fix all2 (l1 l2 : list node) : bool :=
       match l1, l2 with
       | [], [] => true
       | x :: l1', y :: l2' => node_eqb x y && all2 l1' l2'
       | _, _ => false
       end) cs1 cs2
  | _, _ => false
  end.

Section Oracles.
  Variable inp : input.
  Variable rules : list pexpr.

  (* ---- is n the yield of a valid derivation of e at pos?  (Spec.valid, decided by recursion
     on the node; steps that stay on the same node (references, Memoize, alternatives, Optional,
     ReturnSingle) are bounded by EPS; out of steps or outside the fragment = unknown = true, so
     the oracle never alarms wrongly) ---- *)
  Definition EPS : nat := 10%nat.
  Fixpoint chk (n : node) {struct n} : nat -> pexpr -> N -> bool :=
    fix eps (f : nat) (e : pexpr) (pos : N) {struct f} : bool :=
      match f with
      | O => true
      | S f' =>
        match e with
        | PTerm t => match term_parse inp t pos with ([m], None) => node_eqb m n | _ => false end
        | PEmpty => node_eqb n (NEmpty pos)
        | PEnd => is_eof inp pos && node_eqb n (NEnd pos)
        | PRef k => match nth_N rules k with Some b => eps f' b pos | None => false end
        | PMemo _ p => eps f' p pos
        | PAny ps | PChoice ps => existsb (fun p => eps f' p pos) ps
        | POpt p => node_eqb n (NEmpty pos) || eps f' p pos
        | PSeq k _ single None ps =>
          (match n with
           | NNonTerm tok _ cs p r =>
             list_N_eqb tok (seq_token k) && (p =? pos) &&
             (r =? match cs with [] => pos | c :: _ => node_rpos (last cs c) end) &&
             (fix sq (cs : list node) (depth : nat) (pos : N) {struct cs} : bool :=
                match cs with
                | [] => true
                | c :: t => match seq_lookup k ps depth with
                            | Some e' => (node_pos c =? pos) && chk c EPS e' pos && sq t (S depth) (node_rpos c)
                            | None => false
                            end
                end) cs 0%nat pos &&
             seq_lencheck k (length ps) (length cs) &&
             (if single then negb (Nat.eqb (length cs) 1) else true)
           | _ => false
           end)
          || (single && seq_lencheck k (length ps) 1 &&
              match seq_lookup k ps 0 with Some e' => eps f' e' pos | None => false end)
        | _ => true
        end
      end.

  (* ---- least-fixpoint end sets of a monotone grammar: T k pos = ends of rule k from pos ---- *)
  Definition positions : list N := map (fun i => i_offset inp + N.of_nat i) (seq 0 (S (length (i_data inp)))).
  Definition table := list (list (N * list N)).          (* rule -> position -> sorted ends *)
  Definition tab_get (T : table) (k pos : N) : list N :=
    match nth_N T k with
    | Some row => match find (fun pe => fst pe =? pos) row with Some pe => snd pe | None => [] end
    | None => []
    end.
  Fixpoint ends (T : table) (e : pexpr) (pos : N) : list N :=
    match e with
    | PTerm t => match term_parse inp t pos with ([m], None) => [node_rpos m] | _ => [] end
    | PEmpty => [pos]
    | PEnd => if is_eof inp pos then [pos] else []
    | PRef k => tab_get T k pos
    | PMemo _ p => ends T p pos
    | PAny ps => fold_left (fun acc p => set_union acc (ends T p pos)) ps []
    | POpt p => set_insert pos (ends T p pos)
    | PSeq SeqOf _ _ _ ps =>
      fold_left (fun cur p => fold_left (fun acc q => set_union acc (ends T p q)) cur []) ps [pos]
    | _ => []
    end.
  Definition tab_step (T : table) : table :=
    map (fun body => map (fun pos => (pos, ends T body pos)) positions) rules.
  Fixpoint tab_size (T : table) : nat :=
    match T with [] => O | row :: t => (fold_left (fun a pe => a + length (snd pe))%nat row 0 + tab_size t)%nat end.
  Fixpoint tab_fix (fuel : nat) (T : table) : table :=
    match fuel with
    | O => T
    | S f => let T' := tab_step T in if Nat.eqb (tab_size T') (tab_size T) then T else tab_fix f T'
    end.
  Definition ref_table : table :=
    tab_fix (S (length rules * length positions * length positions)) (map (fun _ => []) rules).
  Definition ref_ends (root : pexpr) : list N := ends ref_table root (i_offset inp).
End Oracles.

Definition all_mono (rules : list pexpr) (root : pexpr) : bool := forallb mono rules && mono root.
Definition all_frag (rules : list pexpr) (root : pexpr) : bool := forallb frag rules && frag root.

Definition ends_of_nodes (ns : list node) : list N := fold_left (fun acc n => set_insert (node_rpos n) acc) ns [].

(* ---- C01: every returned tree is a valid derivation; for monotone grammars the set of end
   positions is exactly the grammar's (least fixpoint) ---- *)
Definition c01_oracle (c : eng_case) (o : obs) : bool :=
  match c with
  | Eng rules root data offset _ =>
    let inp := eng_input data offset in
    if negb (is_raw o) then true       (* crash/timeout/panic: judged by C02/C04 *)
    else match nodes_of_obs (raw_nodes o) with
         | None => false
         | Some ns =>
           (if all_frag rules root then forallb (fun n => chk inp rules n EPS root (i_offset inp)) ns else true) &&
           (if all_mono rules root then list_N_eqb (ends_of_nodes ns) (ref_ends inp rules root) else true)
         end
  end.
Definition c01_agree (e o : obs) : bool :=
  if is_raw e && is_raw o then obs_same_set (raw_nodes e) (raw_nodes o)
  else obs_eqb (eng_part e 0) (eng_part o 0).
Definition c01_harness : harness :=
  {| H_case := eng_case; H_expected := eng_expected; H_agree := c01_agree; H_oracle := c01_oracle |}.

(* ---- C02: every run terminates normally and no Memoize body is active more than
   remaining + 2 times at a position ---- *)
Definition part_ok (o : obs) : bool := tag_is o "Raw" || tag_is o "Top".
Fixpoint triples_ok (inp : input) (l : list N) : bool :=
  match l with
  | _ :: pos :: act :: t => (act <=? remaining inp pos + 2) && triples_ok inp t
  | _ => true
  end.
Definition c02_oracle (c : eng_case) (o : obs) : bool :=
  match c with
  | Eng rules root data offset _ =>
    let inp := eng_input data offset in
    tag_is o "Eng" && forallb part_ok (args o) && triples_ok inp (nums (raw_field o 4))
  end.
Definition c02_agree (e o : obs) : bool :=
  tag_is o "Eng" && forallb part_ok (args o) && obs_eqb (raw_field e 4) (raw_field o 4).
Definition c02_harness : harness :=
  {| H_case := eng_case; H_expected := eng_expected; H_agree := c02_agree; H_oracle := c02_oracle |}.

(* ---- C03: memoised and plain builds agree on results, returned error and the position of
   the furthest error; at most one body execution per (parser, position) ---- *)
Definition err_pos (o : obs) : obs := match o with OT _ [OL (p :: _)] => p | _ => o end.
Fixpoint pairs_nodup (l : list N) (seen : list (N * N)) : bool :=
  match l with
  | idx :: pos :: _ :: t => negb (existsb (fun k => (fst k =? idx) && (snd k =? pos)) seen) && pairs_nodup t ((idx, pos) :: seen)
  | _ => true
  end.
Definition c03_oracle (c : eng_case) (o : obs) : bool :=
  match c with
  | Eng _ _ _ _ flags =>
    if N.testbit flags 0 then
      let m := eng_part o 0 in let p := eng_part o 3 in
      if tag_is m "Raw" && tag_is p "Raw" then
        obs_eqb (eng_part m 0) (eng_part p 0) && obs_eqb (eng_part m 1) (eng_part p 1) &&
        obs_eqb (err_pos (eng_part m 2)) (err_pos (eng_part p 2)) && pairs_nodup (nums (eng_part m 4)) []
      else false
    else true
  end.
Definition c03_agree (e o : obs) : bool :=
  obs_eqb (eng_part e 0) (eng_part o 0) && obs_eqb (eng_part e 3) (eng_part o 3).
Definition c03_harness : harness :=
  {| H_case := eng_case; H_expected := eng_expected; H_agree := c03_agree; H_oracle := c03_oracle |}.

(* ---- C04: exactly one of node / error; a Sentence success spans the whole file and, for
   monotone grammars, happens exactly when some derivation consumes the whole input ---- *)
Definition top_kind (t : obs) : obs := match t with OT _ (k :: _) => k | _ => t end.
Definition top_xor (t : obs) : bool := tag_is t "Top" && (tag_is (top_kind t) "Node" || tag_is (top_kind t) "Err").
(* C04, Evaluate clause (flags bit 2): "given an interpreter for every non-terminal, Evaluate returns a value or an
   error instead of panicking".  [interp_ok_expr] is the decidable reading of "an interpreter for every non-terminal"
   that TopProofs.C04_evaluate_total proves sufficient: every sequence carries Nil, Array, a user interpreter, or
   Select(i) with i below the least number of children the sequence kind can return ([min_children]: SeqOf all its
   operands, SeqTry / Many1 / SepBy1 one, SeqFirstOrAll one unless it has no operand, Many / SepBy none); a
   ReturnSingle SeqOf of one operand never builds a node of its own, its interpreter does not matter.  No
   interpreter (INone), Object (needs key-value children) and Select out of that range are outside: there a panic
   is the documented behaviour and the oracle says nothing. *)
Definition min_children (k : seqkind) (n : nat) : nat :=
  match k with
  | SeqOf => n
  | SeqTry => 1
  | SeqFirstOrAll => Nat.min 1 n
  | SMany allowEmpty | SSepBy allowEmpty => if allowEmpty then 0 else 1
  end.
Definition ip_ok (k : seqkind) (n : nat) (ip : interp) : bool :=
  match ip with
  | INil | IArray | IUser _ => true
  | ISelect i => i <? N.of_nat (min_children k n)
  | INone | IObject => false
  end.
Definition never_own_node (k : seqkind) (single : bool) (n : nat) : bool :=
  single && match k with SeqOf => Nat.eqb n 1 | _ => false end.
Fixpoint interp_ok_expr (e : pexpr) : bool :=
  match e with
  | PTerm _ | PEmpty | PEnd | PRef _ => true
  | PMemo _ p | POpt p | PName _ p | PLeftTrim _ p | PRightTrim _ p | PSuppress p | PSingle p => interp_ok_expr p
  | PAny ps | PChoice ps => forallb interp_ok_expr ps
  | PSeq k ip single _ ps => (ip_ok k (length ps) ip || never_own_node k single (length ps)) && forallb interp_ok_expr ps
  end.
Definition interp_ok_case (rules : list pexpr) (root : pexpr) : bool := forallb interp_ok_expr rules && interp_ok_expr root.
Definition ev_part (o : obs) : option obs := find (fun p => tag_is p "Ev") (args o).
Definition ev_shape (x : obs) : bool := tag_is x "Val" || tag_is x "PErr" || tag_is x "EErr".
Definition c04_eval_oracle (rules : list pexpr) (root : pexpr) (flags : N) (o : obs) : bool :=
  if N.testbit flags 2 then
    match ev_part o with
    | Some ev => if interp_ok_case rules root then forallb ev_shape (args ev) && Nat.eqb (length (args ev)) 2 else true
    | None => false            (* the driver did not evaluate *)
    end
  else true.
Definition c04_oracle (c : eng_case) (o : obs) : bool :=
  match c with
  | Eng rules root data offset flags =>
    let inp := eng_input data offset in
    let s := eng_part o 1 in let b := eng_part o 2 in
    c04_eval_oracle rules root flags o &&
    top_xor s && top_xor b &&
    (if tag_is (top_kind s) "Node" then
       match nodes_of_obs (args (top_kind s)) with
       | Some [n] => (node_pos n =? i_offset inp) && (node_rpos n =? i_offset inp + i_len inp)
       | _ => false
       end
     else true) &&
    (if all_mono rules root then
       Bool.eqb (tag_is (top_kind s) "Node") (set_mem (i_offset inp + i_len inp) (ref_ends inp rules root))
     else true)
  end.
Definition c04_agree (e o : obs) : bool :=
  obs_eqb (top_kind (eng_part e 1)) (top_kind (eng_part o 1)) && obs_eqb (top_kind (eng_part e 2)) (top_kind (eng_part o 2)) &&
  match ev_part e, ev_part o with            (* the Evaluate part, when the case asks for it (flags bit 2) *)
  | Some a, Some b => obs_eqb a b
  | None, None => true
  | _, _ => false
  end.
Definition c04_harness : harness :=
  {| H_case := eng_case; H_expected := eng_expected; H_agree := c04_agree; H_oracle := c04_oracle |}.

(* ---- C06: a failing Sentence parse reports "failed to parse the input: <expectation> at
   f:<line>:<col>" for a position not beyond the furthest failed attempt, with an expectation
   that failed there or the name of a named parser; flag bit 1 (every alternative named, every
   rule productive): the position equals the furthest failed attempt ---- *)
Fixpoint names_of (e : pexpr) : list (list N) :=
  match e with
  | PMemo _ p | POpt p | PLeftTrim _ p | PRightTrim _ p | PSuppress p | PSingle p => names_of p
  | PName nm p => nm :: names_of p
  | PAny ps | PChoice ps => flat_map names_of ps
  | PSeq _ _ _ nm ps => (match nm with Some n => [n] | None => [] end) ++ flat_map names_of ps
  | _ => []
  end.
Definition cause_of_obs (o : obs) : option cause :=
  match o with
  | OT t l =>
    if String.eqb t "NF" then match l with [OS nm] => Some (CNotFound nm) | _ => None end
    else if String.eqb t "End" then Some (COther msg_end)
    else if String.eqb t "O" then match l with [OS m] => Some (COther m) | _ => None end
    else None
  | _ => None
  end.
Definition fails_of_obs (o : obs) : list (N * cause) :=
  flat_map (fun f => match f with
                     | OL [ON p; k] => match cause_of_obs k with Some c => [(p, c)] | None => [] end
                     | _ => []
                     end) (args o).
Definition max_pos (l : list (N * cause)) : N := fold_left (fun m f => N.max m (fst f)) l 0.
Definition c06_oracle (c : eng_case) (o : obs) : bool :=
  match c with
  | Eng rules root data offset flags =>
    let inp := eng_input data offset in
    let fs := new_fileset (eng_files data offset) in
    let s := eng_part o 1 in
    if tag_is s "Top" && tag_is (top_kind s) "Err" then
      let text := match top_kind s with OT _ [OS t] => t | _ => [] end in
      let F := fails_of_obs (eng_part s 3) in
      let limit := match F with [] => i_offset inp | _ => max_pos F end in
      let named := map (fun nm => CNotFound nm) (name_valid_input :: flat_map names_of (root :: rules)) in
      let cands := F ++ flat_map (fun p => map (fun k => (p, k)) named) (positions inp) in
      existsb (fun pk =>
                 (if N.testbit flags 1 then fst pk =? limit else fst pk <=? limit) &&
                 match top_text fs (mk_err (fst pk) (snd pk)) with
                 | Ok t => list_N_eqb t text
                 | _ => false
                 end) cands
    else true
  end.
Definition c06_agree (e o : obs) : bool := obs_eqb (eng_part e 1) (eng_part o 1).
Definition c06_harness : harness :=
  {| H_case := eng_case; H_expected := eng_expected; H_agree := c06_agree; H_oracle := c06_oracle |}.

(* ---- C17: the call count is the model's ---- *)
Definition c17_calls_agree (e o : obs) : bool :=
  obs_eqb (raw_field e 3) (raw_field o 3) && obs_eqb (eng_part (eng_part e 1) 2) (eng_part (eng_part o 1) 2).

(* ---- C12: the same case at base offset 1 and at another offset: the second observation is the
   first with every position shifted by the difference; rendered texts are identical ---- *)
Definition sh_err (d : N) (o : obs) : obs :=
  match o with
  | OT t [OL [ON p; k]] => OT t [OL [ON (p + d); k]]
  | _ => o
  end.
Fixpoint sh_triples (d : N) (l : list N) : list N :=
  match l with i :: p :: a :: t => i :: (p + d) :: a :: sh_triples d t | _ => l end.
Definition sh_fail (d : N) (o : obs) : obs := match o with OL [ON p; k] => OL [ON (p + d); k] | _ => o end.
Fixpoint sh_node (d : N) (o : obs) : obs :=
  match o with
  | OT t l =>
    if String.eqb t "r" then match l with [OS [c; p; r]] => OT t [OS [c; p + d; r + d]] | _ => o end
    else if String.eqb t "E" || String.eqb t "F" then match l with [ON p] => OT t [ON (p + d)] | _ => o end
    else if String.eqb t "N" then match l with [OS [tc; p; r]; OL cs] => OT t [OS [tc; p + d; r + d]; OL (map (sh_node d) cs)] | _ => o end
    else if String.eqb t "T" then match l with [tok; v; OS [p; r]] => OT t [tok; v; OS [p + d; r + d]] | _ => o end
    else o
  | _ => o
  end.
Definition sh_part (d : N) (o : obs) : obs :=
  match o with
  | OT t l =>
    if String.eqb t "Raw" then
      match l with
      | [OL ns; e; ce; c; OS b; OL f] => OT t [OL (map (sh_node d) ns); sh_err d e; sh_err d ce; c; OS (sh_triples d b); OL (map (sh_fail d) f)]
      | _ => o
      end
    else if String.eqb t "Top" then
      match l with
      | OT k ns :: ce :: c :: rest =>
        OT t ((if String.eqb k "Node" then OT k (map (sh_node d) ns) else OT k ns) :: sh_err d ce :: c ::
              map (fun f => match f with OL fl => OL (map (sh_fail d) fl) | _ => f end) rest)
      | _ => o
      end
    else o
  | _ => o
  end.
Definition sh_eng (d : N) (o : obs) : obs := match o with OT t l => OT t (map (sh_part d) l) | _ => o end.

Definition c12_expected (c : eng_case) : obs :=
  match c with
  | Eng rules root data offset flags =>
    let e1 := eng_expected (Eng rules root data 1 flags) in
    (* far placements (megabytes of preceding files): the model's answer is the shift of its answer for the file
       alone — that is theorem C12_eng_placement — instead of building the filler file in the model *)
    OT "C12" [e1; if 4096 <? offset then sh_eng (offset - 1) e1 else eng_expected c]
  end.
Definition c12_oracle (c : eng_case) (o : obs) : bool :=
  match c, o with
  | Eng _ _ _ offset _, OT _ [o1; o2] => obs_eqb (sh_eng (offset - 1) o1) o2
  | _, _ => false
  end.
Definition c12_harness : harness :=
  {| H_case := eng_case; H_expected := c12_expected; H_agree := obs_eqb; H_oracle := c12_oracle |}.

(* ---- C17: call counts of the six families at sizes n and 2n ---- *)
From Parsley Require Import Cost.
Inductive c17_case := C17 (k n : N) (small big : eng_case).
Definition c17_expected (c : c17_case) : obs :=
  match c with
  | C17 k n _ _ =>
    match nth_N families k with
    | Some f =>
      if existsb (Nat.eqb (N.to_nat n)) (fm_domain f) then
        let a := obs_of_option ON (calls_of f (N.to_nat n)) in
        OT "C17" [a; obs_of_option ON (calls_of f (2 * N.to_nat n)); a]
      else OT "BeyondModelDomain" []      (* sizes the kernel does not evaluate: only the oracle below applies *)
    | None => OT "BeyondModelDomain" []       (* further families run by the check: oracle only *)
    end
  end.
Definition c17_agree (e o : obs) : bool := tag_is e "BeyondModelDomain" || obs_eqb e o.
(* the property on the implementation: same count on a repeated run, calls(2n) <= 16 calls(n), calls(n) <= 4 (n+1)^4 *)
Definition c17_oracle (c : c17_case) (o : obs) : bool :=
  match c, o with
  | C17 _ n _ _, OT _ [OT _ [ON a]; OT _ [ON b]; OT _ [ON a']] =>
    (a =? a') && (b <=? 16 * a) && (a <=? COST_C * (n + 1) ^ 4)
  | _, _ => false
  end.
Definition c17_harness : harness :=
  {| H_case := c17_case; H_expected := c17_expected; H_agree := c17_agree; H_oracle := c17_oracle |}.
