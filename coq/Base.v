(* Base.v — outcomes (explicit Panic / OutOfFuel), small list helpers, decimal printing. *)
From Coq Require Import String List NArith Bool.
From Parsley Require Import Obs.
Import ListNotations.
Open Scope N_scope.

Inductive outcome (A : Type) := Ok (a : A) | Panic | OutOfFuel.
Arguments Ok {A}. Arguments Panic {A}. Arguments OutOfFuel {A}.
Definition bind {A B} (o : outcome A) (f : A -> outcome B) : outcome B :=
  match o with Ok a => f a | Panic => Panic | OutOfFuel => OutOfFuel end.

Definition obs_outcome {A} (f : A -> obs) (o : outcome A) : obs :=
  match o with Ok a => f a | Panic => opanic | OutOfFuel => OT "OutOfFuel" [] end.

Definition nth_N {A} (l : list A) (i : N) : option A := nth_error l (N.to_nat i).

(* s, s+1, ..., s+k-1 (map N.of_nat (seq ..)) costs a quadratic number of steps) *)
Fixpoint N_range (s : N) (k : nat) : list N :=
  match k with O => [] | S k' => s :: N_range (N.succ s) k' end.

(* big contents of case files, written as a formula (a literal list of 70 000 numbers takes the elaborator minutes):
   n bytes; byte i is CR if i is in crs, LF if i-1 is in crs, else LF if i = lf0 + k*lfstep, else the pattern repeated.
   harness/term.go (Term.List) and lib/core.py (big_bytes) compute the same list. *)
Definition big_bytes (n : N) (pat : list N) (lf0 lfstep : N) (crs : list N) : list N :=
  map (fun i => if existsb (N.eqb i) crs then 13
                else if existsb (fun j => i =? j + 1) crs then 10
                else if (lf0 <=? i) && ((i - lf0) mod lfstep =? 0) then 10
                else nth (N.to_nat (i mod N.of_nat (length pat))) pat 0)
      (N_range 0 (N.to_nat n)).
Definition len_N {A} (l : list A) : N := N.of_nat (length l).

(* decimal rendering of a number, as bytes *)
Fixpoint show_fuel (fuel : nat) (n : N) (acc : list N) : list N :=
  match fuel with
  | O => acc
  | S k => let acc' := (48 + n mod 10) :: acc in
           if n / 10 =? 0 then acc' else show_fuel k (n / 10) acc'
  end.
Definition show_N (n : N) : list N := show_fuel (S (N.to_nat (N.log2 n))) n [].
