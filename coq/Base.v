(* Base.v — outcomes (explicit Panic / OutOfFuel), small list helpers, decimal printing. *)
From Coq Require Import String List NArith Bool.
From Parsley Require Import Obs.
Import ListNotations.
Open Scope N_scope.

Inductive outcome (A : Type) := Ok (a : A) | Panic | OutOfFuel.
Arguments Ok {A}. Arguments Panic {A}. Arguments OutOfFuel {A}.
Definition bind {A B} (o : outcome A) (f : A -> outcome B) : outcome B :=
  match o with Ok a => f a | Panic => Panic | OutOfFuel => OutOfFuel end.

Definition obs_outcome {A} (f : A -> obs) (o : outcome A) : obs :=
  match o with Ok a => f a | Panic => opanic | OutOfFuel => OT "OutOfFuel" [] end.

Definition nth_N {A} (l : list A) (i : N) : option A := nth_error l (N.to_nat i).
Definition len_N {A} (l : list A) : N := N.of_nat (length l).

(* decimal rendering of a number, as bytes *)
Fixpoint show_fuel (fuel : nat) (n : N) (acc : list N) : list N :=
  match fuel with
  | O => acc
  | S k => let acc' := (48 + n mod 10) :: acc in
           if n / 10 =? 0 then acc' else show_fuel k (n / 10) acc'
  end.
Definition show_N (n : N) : list N := show_fuel (S (N.to_nat (N.log2 n))) n [].
