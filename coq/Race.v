(* C14 — data-race freedom of concurrent parses over effect summaries.

   This file holds the generic definitions (no proofs):

   * the type [prog] of effect summaries that /verif/tools/effects GENERATES from the Go
     source on every run (work/C14/Effects.v : [program : prog]);
   * the classification table of object types ([local_types], [shared_types]);
   * the executable check [conflicts : prog -> list conflict];
   * an abstract interleaving semantics: events, traces permitted by a program, data races,
     memory consistency, projection of a trace to one thread, deterministic thread code and
     its solo execution.

   The theorems are in RaceProofs.v, their statements in Props/C14.v.

   What a summary means (the contract the extractor is trusted to satisfy): every memory
   access a goroutine performs while it runs a function [f] of the module is an instance of
   one of the sites of [f] (same abstract location, atomic iff the site is atomic, a write
   only if the site is a write), and every function it runs is a root of its kind or is
   called from a function it runs along an edge of [f_calls]. *)
From Coq Require Import String Ascii List Bool Arith NArith.
Import ListNotations.
Open Scope string_scope.
Open Scope list_scope.

(* ------------------------------------------------------------------------------------- *)
(* Summaries *)

(* What the root variable of the access path is (x in x.f.g[i]). *)
Inductive base := BGlobal | BRecv | BParam | BCaptured | BLocal | BOther.

(* Abstract locations: all instances of a type are merged. *)
Inductive aloc :=
| LGlobal (v : string)            (* package-level variable "pkg.name" (also pseudo locations "<go statement>") *)
| LField (ty fld : string)        (* field [fld] ("f", "f[]" = elements reached through f, "*" = whole object,
                                     "[]" = elements) of an object whose static type is [ty] *)
| LCaptured (fn v : string).      (* variable [v] of function [fn], accessed from a nested function literal *)

(* What a sync/atomic access does: Load, Store, or a read-modify-write that is ONE atomic operation
   (Add, Swap, CompareAndSwap, And, Or).  ANone for ordinary accesses. *)
Inductive aop := ANone | ALoad | AStore | ARMW.

Record site := mkSite {
  s_loc : aloc;
  s_write : bool;      (* assignment, ++/--, op=, address taken, reference handed to a callee outside the module *)
  s_atomic : bool;     (* the access is performed by a sync/atomic function *)
  s_aop : aop;
  s_base : base;
  s_own : bool;        (* captured variables only: the accessing literal cannot outlive the invocation that
                          created the variable, so the instance accessed was created by the accessing thread *)
  s_pos : string }.    (* file:line:col and what kind of statement, for reports *)

Record func := mkFunc { f_name : string; f_sites : list site; f_calls : list string }.

Record prog := {
  p_globals : list (string * list string);   (* package-level variables: name, its type followed by the types it is
                                             built from through pointer / slice / array / map constructors *)
  p_holders : list (string * string * list string);
                                          (* what can hold a reference: (struct or named composite type, field, types of
                                             the field as above) and ("closure of f", captured variable, types) for every
                                             variable captured by a literal that can outlive f's invocation *)
  p_funcs : list func;
  p_parse_roots : list string;          (* parsley.Parse, parsley.Evaluate *)
  p_ctor_roots : list string }.         (* every function and method of the module *)

(* Two kinds of goroutine.
   KParse: runs parsley.Parse / parsley.Evaluate on a parser graph that was built before and is
           shared with every other thread, with its own Context, Reader and File (a FileSet may be shared).
   KCtor:  any other client of the API working on objects it created itself (in particular:
           constructing parsers); it shares only package-level state with the other threads. *)
Inductive kind := KParse | KCtor.

(* ------------------------------------------------------------------------------------- *)
(* Classification of object types (trusted table; justification per entry in notes/C14.md).
   An object of a LOCAL type is created during a parse, or belongs to exactly one goroutine by
   the premise of the property (own context, reader, input).  Every other type — listed in
   [shared_types] or not listed at all — is treated as SHARED between all parse threads. *)
Definition local_types : list string := [
  (* the premise: each parse has its own context (with its result cache and error), reader and file (input).
     parsley.FileSet is NOT here: one file set holding the files of a project may be shared by concurrent runs
     (round-3 seed C14_r3m2), so writes to FileSet fields reachable from Parse/Evaluate are conflicts; the
     text.File objects registered in it stay per-run (each run parses its own file). *)
  "parsley.Context"; "parsley.ResultCache"; "map[parsley.Pos]*parsley.Result"; "parsley.Result";
  "text.Reader"; "text.File";
  (* allocated per call of Sequence.Parse *)
  "combinator.sequence";
  (* AST nodes and node lists are created by the parse that returns them *)
  "ast.NodeList"; "[]parsley.Node"; "ast.NonTerminalNode"; "ast.TerminalNode";
  "text/terminal.BoolNode"; "text/terminal.CharNode"; "text/terminal.FloatNode";
  "text/terminal.IntegerNode"; "text/terminal.NilNode"; "text/terminal.OpNode";
  "text/terminal.StringNode"; "text/terminal.TimeDurationNode";
  (* IntMap / IntSet values are created during a parse; the two shared empty values
     data.EmptyIntMap / data.EmptyIntSet are never written through (property C15) *)
  "data.IntMap"; "data.IntSet";
  (* values computed by interpreters and variadic argument slices: allocated per call *)
  "[]interface{}";
  (* input bytes (own input) and scratch buffers *)
  "[]byte"; "[][]byte";
  (* compiled by and cached in the thread's own text.Reader; moreover documented by the regexp package
     as safe for concurrent use by multiple goroutines *)
  "regexp.Regexp" ].

Definition shared_types : list string := [ "combinator.Sequence"; "parser.FuncWrapper"; "parsley.FileSet"; "[]int" ].

(* Package-level variables of a local type that are known to be immutable (C15). *)
Definition immutable_globals : list string := [ "data.EmptyIntMap"; "data.EmptyIntSet" ].

Definition mem (x : string) (l : list string) : bool := existsb (String.eqb x) l.
Definition is_local_type (ty : string) : bool := mem ty local_types.

(* ------------------------------------------------------------------------------------- *)
(* Which sites touch memory that another thread can touch too *)

Definition sharedb (k : kind) (s : site) : bool :=
  if s_own s then false else
  match s_loc s with
  | LGlobal _ => true
  | LCaptured _ _ => match k with KParse => true | KCtor => false end
  | LField ty _ =>
      match s_base s with
      | BGlobal => true
      | b => match k with
             | KParse => negb (is_local_type ty)
             | KCtor => match b with BParam => negb (is_local_type ty) | _ => false end
             end
      end
  end.

(* ------------------------------------------------------------------------------------- *)
(* Call-graph closure *)

Definition roots (p : prog) (k : kind) : list string :=
  match k with KParse => p_parse_roots p | KCtor => p_ctor_roots p end.

Definition calls_of (p : prog) (f : string) : list string :=
  flat_map (fun fn => if String.eqb (f_name fn) f then f_calls fn else []) (p_funcs p).

Fixpoint closure (fuel : nat) (p : prog) (seen work : list string) : list string :=
  match fuel with
  | O => seen
  | S n => match work with
           | [] => seen
           | f :: w => if mem f seen then closure n p seen w
                       else closure n p (f :: seen) (calls_of p f ++ w)
           end
  end.

Definition total_edges (p : prog) : nat := fold_right (fun fn n => length (f_calls fn) + n)%nat O (p_funcs p).

Definition reach (p : prog) (k : kind) : list string :=
  closure (S (length (roots p k) + total_edges p + length (p_funcs p))) p [] (roots p k).

(* ------------------------------------------------------------------------------------- *)
(* The check *)

Definition aloc_eqb (a b : aloc) : bool :=
  match a, b with
  | LGlobal x, LGlobal y => String.eqb x y
  | LField t f, LField u g => String.eqb t u && String.eqb f g
  | LCaptured f v, LCaptured g w => String.eqb f g && String.eqb v w
  | _, _ => false
  end.

Inductive conflict :=
| CRace (k1 : kind) (f1 : string) (s1 : site) (k2 : kind) (f2 : string) (s2 : site)
| CUnclosed (k : kind) (f g : string)        (* the computed reach set is not closed (never happens with enough fuel) *)
| CRootMissing (k : kind) (r : string)       (* a root is not in the reach set or is not a function of the program *)
| CNoRoots (k : kind)                        (* vacuity guard: the entry points were not found *)
| CGlobalOfLocalType (g ty : string)         (* a package-level variable holds an object of a thread-local type *)
| CAtomicRMW (k : kind) (entry : string) (f1 : string) (s1 : site) (f2 : string) (s2 : site)
                                             (* one call of [entry] can atomically LOAD a shared location (s1) and separately
                                                atomically STORE it (s2): a read-modify-write that is not one atomic operation;
                                                two threads can both load before either stores (lost update) *)
| CLocalInShared (holder member ty : string). (* an object shared between parses (or a closure of the graph) holds an
                                                object of a thread-local type: the classification table cannot be right *)

Definition sites_of (p : prog) (k : kind) : list (string * site) :=
  let r := reach p k in
  flat_map (fun fn => if mem (f_name fn) r then map (pair (f_name fn)) (f_sites fn) else []) (p_funcs p).

Definition tagged := (kind * (string * site))%type.

Definition shared_sites (p : prog) : list tagged :=
  flat_map (fun k => map (pair k) (filter (fun fs => sharedb k (snd fs)) (sites_of p k))) [KParse; KCtor].

Definition conflictb (a b : site) : bool :=
  aloc_eqb (s_loc a) (s_loc b) && (s_write a || s_write b) && negb (s_atomic a && s_atomic b).

Definition race_conflicts (p : prog) : list conflict :=
  let all := shared_sites p in
  flat_map (fun w : tagged =>
    flat_map (fun a : tagged =>
      if conflictb (snd (snd w)) (snd (snd a))
      then [CRace (fst w) (fst (snd w)) (snd (snd w)) (fst a) (fst (snd a)) (snd (snd a))] else [])
      all)
    (filter (fun w : tagged => s_write (snd (snd w))) all).

Definition closure_defects (p : prog) : list conflict :=
  flat_map (fun k =>
    let r := reach p k in
    flat_map (fun f => if mem f r then [] else [CRootMissing k f]) (roots p k) ++
    flat_map (fun fn => if mem (f_name fn) r
                        then flat_map (fun g => if mem g r then [] else [CUnclosed k (f_name fn) g]) (f_calls fn)
                        else []) (p_funcs p)) [KParse; KCtor].

Definition first_local (tys : list string) : option string := find is_local_type tys.

Definition wf_defects (p : prog) : list conflict :=
  (match p_parse_roots p with [] => [CNoRoots KParse] | _ => [] end) ++
  flat_map (fun r => if mem r (map f_name (p_funcs p)) then [] else [CRootMissing KParse r]) (p_parse_roots p) ++
  flat_map (fun g : string * list string =>
              match first_local (snd g) with
              | Some ty => if mem (fst g) immutable_globals then [] else [CGlobalOfLocalType (fst g) ty]
              | None => []
              end) (p_globals p) ++
  flat_map (fun h : string * string * list string =>
              let '(holder, member, tys) := h in
              if is_local_type holder then [] else
              match first_local tys with
              | Some ty => [CLocalInShared holder member ty]
              | None => []
              end) (p_holders p).

Definition conflicts (p : prog) : list conflict := wf_defects p ++ closure_defects p ++ race_conflicts p.

(* ------------------------------------------------------------------------------------- *)
(* A second, separately named obligation: every update of a shared location is ONE atomic operation.

   Data-race freedom says nothing about a counter that is read with atomic.Load and written back with
   atomic.Store: every access is atomic, no data race, and yet two threads can both load the old value
   before either stores (the two Memoize calls then get the SAME parser index).  The check: for every
   entry point h of a kind of thread (one API call: for constructor threads every function), the functions
   call-reachable from h must not contain both an atomic Load site and an atomic Store site of the same
   shared location.  (Load + CompareAndSwap retry loops and single Add/Swap operations are fine.) *)

Definition reach_from (p : prog) (rs : list string) : list string :=
  closure (S (length rs + total_edges p + length (p_funcs p))) p [] rs.

Definition closedb (p : prog) (rs set : list string) : bool :=
  forallb (fun r => mem r set) rs &&
  forallb (fun fn => if mem (f_name fn) set then forallb (fun g => mem g set) (f_calls fn) else true) (p_funcs p).

Definition all_sites (p : prog) : list (string * site) :=
  flat_map (fun fn => map (pair (f_name fn)) (f_sites fn)) (p_funcs p).

Definition is_load (s : site) : bool := match s_aop s with ALoad => true | _ => false end.
Definition is_store (s : site) : bool := match s_aop s with AStore => true | _ => false end.

(* (load site, store site) on the same location, both shared for kind k, anywhere in the program *)
Definition split_pairs (p : prog) (k : kind) : list ((string * site) * (string * site)) :=
  let shared := filter (fun fs => sharedb k (snd fs)) (all_sites p) in
  flat_map (fun l => flat_map (fun st => if aloc_eqb (s_loc (snd l)) (s_loc (snd st)) then [(l, st)] else [])
                              (filter (fun fs => is_store (snd fs)) shared))
           (filter (fun fs => is_load (snd fs)) shared).

Definition atomic_update_defects (p : prog) : list conflict :=
  flat_map (fun k =>
    match split_pairs p k with
    | [] => []                      (* no location is both atomically loaded and atomically stored: nothing to do *)
    | prs =>
        flat_map (fun h =>
          let set := reach_from p [h] in
          (if closedb p [h] set then [] else [CUnclosed k h h]) ++
          flat_map (fun pr : (string * site) * (string * site) =>
                      if mem (fst (fst pr)) set && mem (fst (snd pr)) set
                      then [CAtomicRMW k h (fst (fst pr)) (snd (fst pr)) (fst (snd pr)) (snd (snd pr))] else [])
                   prs) (roots p k)
    end) [KParse; KCtor].

(* Diagnostics only (not part of the obligation): object types with an access that is reachable from
   the parse roots and that appear in neither table.  They are treated as shared. *)
Definition unclassified (p : prog) : list string :=
  nodup string_dec
    (flat_map (fun fs : string * site =>
       match s_loc (snd fs) with
       | LField ty _ => if is_local_type ty || mem ty shared_types then [] else [ty]
       | _ => []
       end) (sites_of p KParse)).

(* Sites through sync/atomic reachable by a kind of thread (the stronger solo theorem needs none). *)
Definition atomic_sites (p : prog) (k : kind) : list (string * site) :=
  filter (fun fs => s_atomic (snd fs)) (sites_of p k).

(* ------------------------------------------------------------------------------------- *)
(* Semantics *)

(* Concrete locations: a shared abstract location is ONE cell for all threads (coarser than
   reality: more conflicts, never fewer); a thread-local one is a cell per thread. *)
Inductive cloc := CShared (a : aloc) | CLocal (t : nat) (a : aloc).

Record event := mkEvent {
  e_tid : nat;
  e_loc : cloc;
  e_write : bool;
  e_atomic : bool;
  e_val : N }.        (* the value read, or the value written *)

Definition place (k : kind) (t : nat) (s : site) : cloc :=
  if sharedb k s then CShared (s_loc s) else CLocal t (s_loc s).

Inductive reachable (p : prog) (rs : list string) : string -> Prop :=
| reach_root : forall f, In f rs -> reachable p rs f
| reach_call : forall fn g, reachable p rs (f_name fn) -> In fn (p_funcs p) -> In g (f_calls fn) -> reachable p rs g.

(* Event [e] of a thread of kind [k] is permitted by the program: it is an instance of a site of a
   function that is call-reachable from the roots of that kind. *)
Definition permits (p : prog) (k : kind) (e : event) : Prop :=
  exists fn s, In fn (p_funcs p) /\ reachable p (roots p k) (f_name fn) /\ In s (f_sites fn) /\
               e_loc e = place k (e_tid e) s /\
               e_atomic e = s_atomic s /\
               (e_write e = true -> s_write s = true).

(* A trace is one interleaving: the global order of all accesses of all threads.  [kinds] says what
   each thread is doing.  Any number of threads, any lengths. *)
Definition permitted (p : prog) (kinds : nat -> kind) (tr : list event) : Prop :=
  Forall (fun e => permits p (kinds (e_tid e)) e) tr.

Definition conflicting (e1 e2 : event) : Prop :=
  e_tid e1 <> e_tid e2 /\ e_loc e1 = e_loc e2 /\
  (e_write e1 = true \/ e_write e2 = true) /\
  (e_atomic e1 = false \/ e_atomic e2 = false).

(* The model has no synchronisation between the threads (parsley uses none: no mutex, no channel, no go
   statement — the extractor turns any of these into a conflict), so two accesses of different threads
   are never ordered by happens-before: every conflicting pair is a data race.  RaceProofs.race_adjacent
   shows that such a pair can be made adjacent in another interleaving of the same threads. *)
Definition has_race (tr : list event) : Prop :=
  exists i j e1 e2, (i < j)%nat /\ nth_error tr i = Some e1 /\ nth_error tr j = Some e2 /\ conflicting e1 e2.

Definition adjacent_race (tr : list event) : Prop :=
  exists pre e1 e2 post, tr = pre ++ e1 :: e2 :: post /\ conflicting e1 e2.

Definition tid_eqb (t : nat) (e : event) : bool := Nat.eqb (e_tid e) t.
Definition proj (t : nat) (tr : list event) : list event := filter (tid_eqb t) tr.

(* tr is an interleaving of the per-thread sequences ths *)
Definition interleaving_of (ths : nat -> list event) (tr : list event) : Prop := forall t, proj t tr = ths t.

(* Memory *)
Definition cloc_eq_dec : forall a b : cloc, {a = b} + {a <> b}.
Proof. repeat decide equality. Defined.

Definition memory := cloc -> N.
Definition upd (m : memory) (l : cloc) (v : N) : memory := fun l' => if cloc_eq_dec l' l then v else m l'.
Definition step_mem (m : memory) (e : event) : memory := if e_write e then upd m (e_loc e) (e_val e) else m.

(* Sequentially consistent execution: every read returns the latest value written to its location. *)
Fixpoint consistent (m : memory) (tr : list event) : Prop :=
  match tr with
  | [] => True
  | e :: r => (e_write e = false -> e_val e = m (e_loc e)) /\ consistent (step_mem m e) r
  end.

(* The same, constraining only the non-atomic reads. *)
Fixpoint consistent_na (m : memory) (tr : list event) : Prop :=
  match tr with
  | [] => True
  | e :: r => (e_write e = false -> e_atomic e = false -> e_val e = m (e_loc e)) /\ consistent_na (step_mem m e) r
  end.

(* What the second obligation buys.  [increments l m tr]: every write to location l in the trace is an
   atomic increment of the value l holds at that moment (this is what atomic.AddInt32(&l, 1) does; a Load followed
   by a separate Store is NOT such an event, it is a read event and, later, a write event of a stale value + 1).
   [draws l tr]: the values the increments returned, in trace order. *)
Fixpoint increments (l : cloc) (m : memory) (tr : list event) : Prop :=
  match tr with
  | [] => True
  | e :: r => (e_write e = true -> e_loc e = l -> e_val e = (m l + 1)%N) /\ increments l (step_mem m e) r
  end.

Definition is_write_at (l : cloc) (e : event) : bool :=
  e_write e && (if cloc_eq_dec (e_loc e) l then true else false).

Definition draws (l : cloc) (tr : list event) : list N := map e_val (filter (is_write_at l) tr).

(* Deterministic thread code: the next access as a function of the values read so far (latest first);
   None = finished.  For a write the value written is given by the code. *)
Record action := mkAction { a_loc : cloc; a_write : bool; a_atomic : bool; a_val : N }.
Definition code := list N -> option action.

Fixpoint follows (c : code) (t : nat) (hist : list N) (evs : list event) : Prop :=
  match evs with
  | [] => True
  | e :: r => exists a, c hist = Some a /\ e_tid e = t /\ e_loc e = a_loc a /\ e_write e = a_write a /\
                        e_atomic e = a_atomic a /\ (a_write a = true -> e_val e = a_val a) /\
                        follows c t (if e_write e then hist else e_val e :: hist) r
  end.

(* The execution of the code alone, n steps, from memory m. *)
Fixpoint solo (c : code) (t : nat) (m : memory) (hist : list N) (n : nat) : list event :=
  match n with
  | O => []
  | S k => match c hist with
           | None => []
           | Some a =>
               if a_write a
               then mkEvent t (a_loc a) true (a_atomic a) (a_val a) :: solo c t (upd m (a_loc a) (a_val a)) hist k
               else mkEvent t (a_loc a) false (a_atomic a) (m (a_loc a)) :: solo c t m (m (a_loc a) :: hist) k
           end
  end.
