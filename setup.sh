#!/bin/sh
# Builds the framework from files on disk only (offline): the Coq development (full .vo
# build) and the Go driver against /repo.
set -e
cd "$(dirname "$0")"
mkdir -p work/bin evidence replays
./lib/coqproject.sh && ( cd coq && flock .lock timeout 3000 make -j16 $(python3 ../lib/setup_targets.py) )
export GOFLAGS=-mod=mod GOPROXY=off GOSUMDB=off GOTOOLCHAIN=local CGO_ENABLED=0
( cd harness && cp /repo/go.sum go.sum && go build -tags verif -o ../work/bin/impl_driver . )  # warms the Go build cache; checks rebuild per property
python3 -c "import sys; sys.path.insert(0, 'lib'); import core; ok, out = core.ocaml_build(); print(out[-2000:] if not ok else 'model driver built'); sys.exit(0 if ok else 1)"
echo setup done
