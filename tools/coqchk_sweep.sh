#!/bin/bash
# tools/coqchk_sweep.sh [limit seconds, default 3600] [jobs, default 6]
# Re-checks every compiled Props file (and everything it depends on) with coqchk, the independent checker, on a scratch
# copy of coq/ (coqchk never writes, the copy only keeps the build lock free) and writes notes/coqchk.md.
# rc 124 = not finished within the limit (files with vm_compute casts over the engine: coqchk re-checks them lazily).
limit=${1:-3600}; jobs=${2:-6}
set -u
V=$(cd "$(dirname "$0")/.." && pwd)
S=$(mktemp -d /tmp/coqchk_sweep.XXXXXX)
trap 'rm -rf "$S"' EXIT
flock -s "$V/coq/.lock" cp -r "$V/coq/." "$S/"
cd "$S" || exit 2
ls Props/*.vo | sed 's#Props/\(.*\)\.vo#\1#' | xargs -P "$jobs" -I{} sh -c \
  "s=\$(date +%s); timeout $limit coqchk -silent -o -Q . Parsley Parsley.Props.{} > {}.chk 2>&1; rc=\$?; echo \"\$rc \$((\$(date +%s)-s))\" > {}.rc"
{
  echo "# coqchk -silent -o on every Props file (limit ${limit}s, $(date -u +%F))"
  echo
  echo "| file | rc | seconds | axioms |"
  echo "|---|---|---|---|"
  for f in Props/*.vo; do
    n=$(basename "$f" .vo)
    read -r rc secs < "$n.rc"
    ax=$(awk '/\* Axioms:/{f=1} f' "$n.chk" | tr '\n' ' ' | sed 's/  */ /g' | cut -c1-200)
    [ "$rc" = 124 ] && ax="not finished within ${limit}s"
    echo "| Props/$n | $rc | $secs | ${ax:-?} |"
  done
} > "$V/notes/coqchk.md"
cat "$V/notes/coqchk.md"
