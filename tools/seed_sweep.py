#!/usr/bin/env python3
"""tools/seed_sweep.py [names...]: runs, for every stored seeded change (seeded/<name>/patch.diff), the check of the
property it was written against (meta.json "property") on a private copy of /repo with the change applied, and
writes seeded/SWEEP.json (name -> caught?, kind of replay).  /repo is never touched."""
import hashlib, json, os, re, shutil, subprocess, sys
from concurrent.futures import ThreadPoolExecutor
ROOT = "/verif"
names = sys.argv[1:] or sorted(d for d in os.listdir(os.path.join(ROOT, "seeded")) if os.path.isdir(os.path.join(ROOT, "seeded", d)))


def one(name):
    d = os.path.join(ROOT, "seeded", name)
    meta = json.load(open(os.path.join(d, "meta.json")))
    pid = meta.get("property") or name.split("_")[0]
    tag = hashlib.sha1(name.encode()).hexdigest()[:8]
    copy = "/tmp/sweeprepo_" + tag
    shutil.rmtree(copy, ignore_errors=True)
    subprocess.check_call(["cp", "-r", "/repo", copy])
    res = {"property": pid}
    try:
        p = subprocess.run(["git", "-C", copy, "apply", "--3way", os.path.join(d, "patch.diff")], capture_output=True, text=True)
        if p.returncode:
            p = subprocess.run(["git", "-C", copy, "apply", os.path.join(d, "patch.diff")], capture_output=True, text=True)
        if p.returncode:
            res["error"] = "patch does not apply: " + p.stderr[-300:]
            return name, res
        env = dict(os.environ, VERIF_REPO=copy, VERIF_WORKTAG="_sw" + tag)
        p = subprocess.run(["./check", pid], cwd=ROOT, env=env, capture_output=True, text=True)
        v = [l for l in p.stdout.split("\n") if l.startswith("VIOLATION")]
        res["exit"] = p.returncode
        res["caught"] = bool(v)
        res["concrete_input"] = bool(v) and "no-failing-input-found" not in v[0]
    finally:
        shutil.rmtree(copy, ignore_errors=True)
        shutil.rmtree(os.path.join(ROOT, "work_sw" + tag), ignore_errors=True)
    return name, res


with ThreadPoolExecutor(max_workers=2) as ex:
    out = dict(ex.map(one, names))
path = os.path.join(ROOT, "seeded", "SWEEP.json")
old = json.load(open(path)) if os.path.exists(path) else {}
old.update(out)
json.dump(old, open(path, "w"), indent=1, sort_keys=True)
for k, v in sorted(out.items()):
    print(k, v)
