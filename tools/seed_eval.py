#!/usr/bin/env python3
"""tools/seed_eval.py <seed dir (with patch.diff, demo_test.go|demo/, HOWTO.txt, meta.json)> <name> <ID> [<ID> ...]

Confirms a seeded change on a private copy of /repo (builds, the library's own suite passes, the demonstration
passes without the change and fails with it), runs the named checks against the changed copy (VERIF_REPO) and
stores everything under /verif/seeded/<name>/ (patch.diff, the demonstration, HOWTO.txt, meta.json with what was run
and which checks raised a violation).  /repo itself is never touched."""
import hashlib
import json
import os
import re
import shutil
import subprocess
import sys

src, name, ids = os.path.abspath(sys.argv[1]), sys.argv[2], sys.argv[3:]
tag = hashlib.sha1((src + name).encode()).hexdigest()[:8]
copy = "/tmp/mutrepo_" + tag
env = dict(os.environ, GOFLAGS="-mod=mod", GOPROXY="off", GOSUMDB="off", GOTOOLCHAIN="local")
ran = []


def sh(cmd, cwd=copy, extra=None, timeout=3000):
    e = dict(env)
    e.update(extra or {})
    p = subprocess.run(cmd, shell=True, cwd=cwd, env=e, capture_output=True, text=True, timeout=timeout)
    return p.returncode, (p.stdout + p.stderr)


howto = open(os.path.join(src, "HOWTO.txt")).read() if os.path.exists(os.path.join(src, "HOWTO.txt")) else ""
seedroot = re.search(r"/tmp/seed\d?_c\d+", howto + src).group(0)
m = re.search(r"cp\s+(?:-r\s+)?(\S*demo\S*)\s+(\S+)", howto) or re.search(r"copy\s+(\S*demo\S*)\s+to\s+(\S+)", howto)
demo_src = os.path.join(src, os.path.basename(m.group(1).rstrip("/"))) if m else os.path.join(src, "demo_test.go")
demo_dst = m.group(2).replace(seedroot, copy) if m else None
runs = re.findall(r"(go (?:test|run)[^\n]*)", howto)
run_cmd = [r for r in runs if "go test" in r and "-run" in r] or [r for r in runs if "-run" in r or "go run" in r]
# several candidate commands: prefer the one the HOWTO runs under the race detector (the primary one when both are
# listed), else the last; drop prose punctuation that follows a command quoted inside a sentence ("... ./pkg/ ).")
_race = [r for r in run_cmd if "-race" in r]
run_cmd = (_race[0] if _race else (run_cmd[-1] if run_cmd else runs[-1])).replace(seedroot, copy).strip().rstrip("`").rstrip("\\").strip()
run_cmd = re.sub(r"\s*\)?\.?$", "", run_cmd) if re.search(r"\s\)\.?$", run_cmd) else run_cmd
run_cmd = "cd %s && %s" % (copy, run_cmd)
if "CGO_ENABLED" in howto and "CGO_ENABLED" not in run_cmd:
    run_cmd = "CGO_ENABLED=1 " + run_cmd
assert demo_dst, "no cp line for the demonstration in HOWTO.txt"

shutil.rmtree(copy, ignore_errors=True)
subprocess.check_call(["cp", "-r", "/repo", copy])
result = {"checks": {}}
try:
    def place():
        if os.path.isdir(demo_src):
            shutil.copytree(demo_src, demo_dst, dirs_exist_ok=True)
        else:
            os.makedirs(os.path.dirname(demo_dst), exist_ok=True)
            shutil.copy(demo_src, demo_dst)

    def unplace():
        if os.path.isdir(demo_dst) and os.path.isdir(demo_src):
            shutil.rmtree(demo_dst)
        elif os.path.exists(demo_dst):
            os.remove(demo_dst)
    place()
    rc, out = sh(run_cmd)
    result["demo_on_unchanged"] = "PASS" if rc == 0 else "FAIL"
    ran.append("unchanged copy + demonstration: `%s` -> %s" % (run_cmd.replace(copy, "<copy>"), result["demo_on_unchanged"]))
    unplace()
    rc, out = sh("git apply %s" % os.path.join(src, "patch.diff"))
    assert rc == 0, out
    rc, out = sh("go build ./... && go test -vet=off -count=1 ./... 2>&1 | grep -v 'no test files' | grep -v '^ok'; true")
    result["suite_with_change"] = "PASS" if not out.strip() else "FAIL: " + out[-800:]
    ran.append("changed copy: go build ./... && go test -vet=off -count=1 ./... -> %s" % result["suite_with_change"][:40])
    place()
    rc, out = sh(run_cmd)
    result["demo_with_change"] = "FAIL" if rc != 0 else "PASS"
    ran.append("changed copy + demonstration -> %s" % result["demo_with_change"])
    result["demo_output_tail"] = out[-600:]
    unplace()
    for pid in ids:
        rc, out = sh("./check %s" % pid, cwd="/verif", extra={"VERIF_REPO": copy, "VERIF_WORKTAG": "_" + tag})
        v = [l for l in out.split("\n") if l.startswith("VIOLATION")]
        result["checks"][pid] = {"exit": rc, "violation": v[0] if v else None}
        if v:
            mm = re.search(r"replay=(\S+)", v[0])
            if mm and os.path.exists(mm.group(1)):
                rp = json.load(open(mm.group(1)))
                result["checks"][pid]["replay_kind"] = rp.get("kind")
                result["checks"][pid]["replay_case"] = str(rp.get("case") or rp.get("first_differing_case") or rp.get("problems") or "")[:700]
        ran.append("VERIF_REPO=<changed copy> ./check %s -> exit %d %s" % (pid, rc, (v[0].split(" replay=")[0] + (" no-failing-input-found" if v and "no-failing-input-found" in v[0] else "")) if v else "no violation"))
finally:
    shutil.rmtree(copy, ignore_errors=True)
    shutil.rmtree("/verif/work_" + tag, ignore_errors=True)

confirmed = result.get("demo_on_unchanged") == "PASS" and result.get("suite_with_change") == "PASS" and result.get("demo_with_change") == "FAIL"
result["confirmed"] = confirmed
print(json.dumps(result, indent=1))
if confirmed:
    dst = os.path.join("/verif/seeded", name)
    os.makedirs(dst, exist_ok=True)
    shutil.copy(os.path.join(src, "patch.diff"), dst)
    if os.path.isdir(demo_src):
        shutil.copytree(demo_src, os.path.join(dst, os.path.basename(demo_src)), dirs_exist_ok=True)
    else:
        shutil.copy(demo_src, dst)
    meta = json.load(open(os.path.join(src, "meta.json"))) if os.path.exists(os.path.join(src, "meta.json")) else {}
    meta = {"property": meta.get("property"), "summary": meta.get("summary"), "needs_to_manifest": meta.get("needs_to_manifest"),
            "files_changed": meta.get("files_changed"),
            "demonstration": {"file": os.path.basename(demo_src), "place_at": demo_dst.replace(copy, "<repo>"), "command": run_cmd.replace(copy, "<repo>")},
            "confirmed_by_coordinator": ran,
            "detected_by": {k: v for k, v in result["checks"].items()}}
    json.dump(meta, open(os.path.join(dst, "meta.json"), "w"), indent=1)
    print("stored in", dst)
