#!/usr/bin/env python3
"""tools/seed_table.py: the table of DESIGN.md section 15.2 from seeded/<name>/meta.json (rounds r2 of the late batch and r3).
The first-evaluation outcome of a seed that was missed at first is kept in seeded/FIRST_RUN.json (written by hand from the
evaluation logs); meta.json holds the outcome of the latest evaluation."""
import glob
import json
import os
import sys

root = os.path.join(os.path.dirname(os.path.abspath(__file__)), "..", "seeded")
first = json.load(open(os.path.join(root, "FIRST_RUN.json")))
names = sorted(n for n in os.listdir(root) if os.path.isdir(os.path.join(root, n)) and (n in first["rows"]))
print("| seeded change | what it does | latest evaluation (check: outcome) | missed at first? what was added |")
print("|---|---|---|---|")
caught_own = caught_other = missed = 0
for n in names:
    m = json.load(open(os.path.join(root, n, "meta.json")))
    det = m.get("detected_by", {})
    own = n[:3]
    cells = []
    for k, v in det.items():
        if v.get("violation"):
            cells.append("%s: %s" % (k, "broken obligation/correspondence (no failing input found)" if "no-failing-input-found" in v["violation"]
                                     else "concrete %s" % (v.get("replay_kind") or "input")))
        else:
            cells.append("%s: not reported" % k)
    hit_own = bool(det.get(own, {}).get("violation"))
    hit_any = any(v.get("violation") for v in det.values())
    caught_own += hit_own
    caught_other += (hit_any and not hit_own)
    missed += (not hit_any)
    summ = " ".join((m.get("summary") or "").split())[:200]
    print("| %s | %s | %s | %s |" % (n, summ.replace("|", "/"), "; ".join(cells), first["rows"][n] or "—"))
print()
print("%d changes: %d caught by the check of their own property, %d only by another property's check, %d not caught."
      % (len(names), caught_own, caught_other, missed))
