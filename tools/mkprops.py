#!/usr/bin/env python3
"""Development helper: writes coq/Props/<ID>.v from a spec file tools/props/<ID>.spec:
   line 1: imports (module names); then blocks 'NAME = lemma' followed by comment lines starting with '#'.
   The statement of each theorem is what Coq prints for the lemma's type (so it is the lemma's full statement,
   visible in the Props file), closed by `exact`."""
import re, subprocess, sys, os
ROOT = os.path.dirname(os.path.dirname(os.path.abspath(__file__)))
pid = sys.argv[1]
lines = open(os.path.join(ROOT, "tools", "props", pid + ".spec")).read().split("\n")
title = lines[0]
imports = lines[1]
items = []
for l in lines[2:]:
    if l.startswith("#"):
        items[-1][2].append(l[1:].strip())
    elif "=" in l:
        n, lem = [x.strip() for x in l.split("=")]
        items.append((n, lem, []))
hdr = ("From Coq Require Import String List NArith ZArith Bool.\nFrom Parsley Require Import %s.\nImport ListNotations.\n"
       "Open Scope N_scope.\n" % imports)
chk = hdr + "Set Printing Width 100.\n" + "".join("Check @%s.\n" % lem for _, lem, _ in items)
open("/tmp/mkprops_%s.v" % pid, "w").write(chk)
out = subprocess.run(["coqc", "-Q", os.path.join(ROOT, "coq"), "Parsley", "/tmp/mkprops_%s.v" % pid], capture_output=True, text=True)
if out.returncode:
    print(out.stdout, out.stderr); sys.exit(1)
types = re.split(r"\n(?=\S+\n     : )", "\n" + out.stdout)
types = [t for t in types if t.strip()]
assert len(types) == len(items), (len(types), len(items))
body = "(* %s\n   Only statements: each theorem repeats the full statement of a lemma proved elsewhere and is closed by [exact]. *)\n" % title + hdr + "\n"
for (n, lem, com), t in zip(items, types):
    ty = t.split("\n     : ", 1)[1].rstrip()
    ty = "\n".join("  " + x.strip(" ") if i == 0 else x[5:] if x.startswith("     ") else x for i, x in enumerate(ty.split("\n")))
    body += "(* %s *)\nTheorem %s :\n%s.\nProof. exact @%s. Qed.\nPrint Assumptions %s.\n\n" % ("\n   ".join(com), n, ty, lem, n)
open(os.path.join(ROOT, "coq", "Props", pid + ".v"), "w").write(body)
print("wrote Props/%s.v with %d theorems" % (pid, len(items)))
