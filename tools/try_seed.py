#!/usr/bin/env python3
"""tools/try_seed.py <patch.diff> <ID> [<ID> ...]: applies the patch to a private copy of /repo, checks that it
builds and passes the library's test suite, and runs the named checks against the copy (VERIF_REPO).  Prints
which checks raise a VIOLATION.  /repo itself is never touched."""
import os, subprocess, sys, shutil, hashlib
patch = os.path.abspath(sys.argv[1])
ids = sys.argv[2:]
tag = hashlib.sha1(patch.encode()).hexdigest()[:8]
copy = "/tmp/mutrepo_" + tag
shutil.rmtree(copy, ignore_errors=True)
subprocess.check_call(["cp", "-r", "/repo", copy])
env = dict(os.environ, GOFLAGS="-mod=mod", GOPROXY="off", GOSUMDB="off", GOTOOLCHAIN="local", VERIF_REPO=copy, VERIF_WORKTAG="_" + tag)
try:
    subprocess.check_call(["git", "-C", copy, "apply", patch])
    r = subprocess.run("go build ./... && go test -vet=off -count=1 ./... 2>&1 | grep -v 'no test files' | grep -v '^ok' ; true", shell=True, cwd=copy, env=env, capture_output=True, text=True)
    print("suite:", "PASS" if not r.stdout.strip() and r.returncode == 0 else "FAIL\n" + r.stdout[-2000:] + r.stderr[-2000:])
    for pid in ids:
        r = subprocess.run(["./check", pid], cwd="/verif", env=env, capture_output=True, text=True)
        v = [l for l in r.stdout.split("\n") if l.startswith("VIOLATION") or l.startswith("KNOWN")]
        print("%s: exit %d %s" % (pid, r.returncode, "; ".join(v)[:400] if v else "(no violation)"))
finally:
    shutil.rmtree(copy, ignore_errors=True)
    shutil.rmtree("/verif/work_" + tag, ignore_errors=True)
