module verif/tools/effects

go 1.16
