// effects <repo> <out.v> [<out.json>]
//
// Effect-summary extractor for property C14 (see /verif/notes/C14.md).  Reads every
// non-test .go file of the module rooted at <repo>, type-checks it (go/parser +
// go/types, standard library only) and emits a Coq value  program : Race.prog :
//
//   - the package-level variables,
//   - for every function, method, function literal and package initialiser a summary:
//     the abstract locations it may read or write (package-level variables, fields /
//     elements of heap objects named by the static type of the object, captured
//     variables), whether the access goes through sync/atomic, the kind of the base
//     variable, and
//   - the static call graph (interface calls -> every module method of that name,
//     calls through func values -> every module function/literal of identical signature).
//
// Nothing here is proved; the soundness of this program is part of the trusted base.
// Every over- and under-approximation is listed in notes/C14.md.
package main

import (
	"encoding/json"
	"fmt"
	"go/ast"
	"go/importer"
	"go/parser"
	"go/token"
	"go/types"
	"os"
	"path/filepath"
	"sort"
	"strings"
)

const modulePath = "github.com/opsidian/parsley"

// ---------------------------------------------------------------------------
// data

type Loc struct {
	Kind     string // "G" package-level variable, "F" field/element of an object of type A, "C" captured variable
	A, B     string // G: A = name; F: A = type, B = field; C: A = declaring function, B = variable
	InvLocal bool   // C only: the writing literal cannot outlive the invocation that declared the variable (see escape analysis)
}

type Site struct {
	Loc    Loc
	Write  bool
	Atomic bool
	Op     string // ANone, or for sync/atomic accesses: ALoad, AStore, ARMW (Add, Swap, CompareAndSwap, And, Or)
	Base   string // BGlobal BRecv BParam BCaptured BLocal BOther
	Pos    string
	Why    string
}

type Func struct {
	Name     string
	Exported bool
	IsInit   bool
	IsMain   bool
	Sites    []Site
	Calls    map[string]bool

	node        ast.Node // *ast.FuncDecl, *ast.FuncLit or nil (package initialiser)
	body        []ast.Node
	sig         *types.Signature
	recv        *types.Var
	pkg         *pkgInfo
	parent      *Func
	nlits       int
	nonEscaping bool // literals only: used only as callee or as an argument that no module callee retains
	escDeps     []paramKey
}

type paramKey struct {
	f *Func
	i int
}

type pkgInfo struct {
	rel   string // path relative to the module root ("" never happens: root has no package)
	path  string
	dir   string
	files []*ast.File
	tp    *types.Package
	info  *types.Info
}

type extractor struct {
	root    string
	fset    *token.FileSet
	std     types.Importer
	pkgs    map[string]*pkgInfo // by import path
	order   []*pkgInfo
	funcs   []*Func
	byNode  map[ast.Node]*Func
	byObj   map[*types.Func]*Func
	methods map[string][]*Func // method name -> module methods
	globals []*types.Var
	errs    []string

	captured map[string]*types.Var // "fn\x00var" -> variable captured by a literal that can outlive fn's invocation

	retained map[paramKey]bool
	retDeps  map[paramKey][]paramKey
}

// ---------------------------------------------------------------------------
// loading

func (x *extractor) Import(path string) (*types.Package, error) {
	if path == modulePath || strings.HasPrefix(path, modulePath+"/") {
		p, err := x.load(path)
		if err != nil {
			return nil, err
		}
		return p.tp, nil
	}
	return x.std.Import(path)
}

func skipDir(name string) bool {
	return strings.HasPrefix(name, ".") || name == "vendor" || name == "testdata" || strings.HasSuffix(name, "fakes") || name == "tools"
}

func (x *extractor) load(path string) (*pkgInfo, error) {
	if p, ok := x.pkgs[path]; ok {
		if p == nil {
			return nil, fmt.Errorf("import cycle through %s", path)
		}
		return p, nil
	}
	x.pkgs[path] = nil
	rel := strings.TrimPrefix(strings.TrimPrefix(path, modulePath), "/")
	dir := filepath.Join(x.root, rel)
	pkgs, err := parser.ParseDir(x.fset, dir, func(fi os.FileInfo) bool { return !strings.HasSuffix(fi.Name(), "_test.go") }, parser.ParseComments)
	if err != nil {
		return nil, err
	}
	var names []string
	for n := range pkgs {
		names = append(names, n)
	}
	if len(names) != 1 {
		return nil, fmt.Errorf("%s: expected one package, found %v", dir, names)
	}
	var files []*ast.File
	var fnames []string
	for fn := range pkgs[names[0]].Files {
		fnames = append(fnames, fn)
	}
	sort.Strings(fnames)
	for _, fn := range fnames {
		files = append(files, pkgs[names[0]].Files[fn])
	}
	info := &types.Info{
		Uses: map[*ast.Ident]types.Object{}, Defs: map[*ast.Ident]types.Object{},
		Types: map[ast.Expr]types.TypeAndValue{}, Selections: map[*ast.SelectorExpr]*types.Selection{},
		Implicits: map[ast.Node]types.Object{},
	}
	conf := types.Config{Importer: x, Error: func(err error) { x.errs = append(x.errs, err.Error()) }}
	tp, _ := conf.Check(path, x.fset, files, info)
	if tp == nil {
		return nil, fmt.Errorf("%s: type check failed", path)
	}
	p := &pkgInfo{rel: rel, path: path, dir: dir, files: files, tp: tp, info: info}
	x.pkgs[path] = p
	x.order = append(x.order, p)
	return p, nil
}

// ---------------------------------------------------------------------------
// names

func (x *extractor) qual(p *types.Package) string {
	if p == nil {
		return ""
	}
	if p.Path() == modulePath {
		return "."
	}
	if strings.HasPrefix(p.Path(), modulePath+"/") {
		return strings.TrimPrefix(p.Path(), modulePath+"/")
	}
	return p.Path()
}

func (x *extractor) typeStr(t types.Type) string {
	return types.TypeString(t, x.qual)
}

// components: the type itself and every type reachable from it through pointer, slice, array, map and
// channel constructors (not through named types or struct fields), as strings
func (x *extractor) components(t types.Type) []string {
	seen := map[string]bool{}
	var res []string
	var rec func(t types.Type, depth int)
	rec = func(t types.Type, depth int) {
		s := x.typeStr(t)
		if !seen[s] {
			seen[s] = true
			res = append(res, s)
		}
		if depth > 8 {
			return
		}
		if _, named := t.(*types.Named); named {
			return
		}
		switch u := t.(type) {
		case *types.Pointer:
			rec(u.Elem(), depth+1)
		case *types.Slice:
			rec(u.Elem(), depth+1)
		case *types.Array:
			rec(u.Elem(), depth+1)
		case *types.Map:
			rec(u.Key(), depth+1)
			rec(u.Elem(), depth+1)
		case *types.Chan:
			rec(u.Elem(), depth+1)
		}
	}
	rec(t, 0)
	return res
}

func deref(t types.Type) types.Type {
	if p, ok := t.Underlying().(*types.Pointer); ok {
		return p.Elem()
	}
	return t
}

func (x *extractor) declName(p *pkgInfo, fd *ast.FuncDecl) string {
	if fd.Recv != nil && len(fd.Recv.List) > 0 {
		t := fd.Recv.List[0].Type
		if s, ok := t.(*ast.StarExpr); ok {
			t = s.X
		}
		if id, ok := t.(*ast.Ident); ok {
			return p.rel + "." + id.Name + "." + fd.Name.Name
		}
	}
	return p.rel + "." + fd.Name.Name
}

func (x *extractor) pos(p token.Pos) string {
	ps := x.fset.Position(p)
	rel, err := filepath.Rel(x.root, ps.Filename)
	if err != nil {
		rel = ps.Filename
	}
	return fmt.Sprintf("%s:%d:%d", rel, ps.Line, ps.Column)
}

// ---------------------------------------------------------------------------
// pass 1: functions

func (x *extractor) newFunc(p *pkgInfo, name string, node ast.Node, parent *Func) *Func {
	f := &Func{Name: name, node: node, pkg: p, parent: parent, Calls: map[string]bool{}, IsMain: p.tp.Name() == "main"}
	x.funcs = append(x.funcs, f)
	if node != nil {
		x.byNode[node] = f
	}
	return f
}

// collectLits registers the function literals nested in n (not descending into them; each
// literal registers its own nested literals) as children of f.
func (x *extractor) collectLits(f *Func, n ast.Node) {
	ast.Inspect(n, func(m ast.Node) bool {
		if lit, ok := m.(*ast.FuncLit); ok {
			f.nlits++
			g := x.newFunc(f.pkg, fmt.Sprintf("%s$%d", f.Name, f.nlits), lit, f)
			if tv, ok := f.pkg.info.Types[lit]; ok {
				g.sig, _ = tv.Type.(*types.Signature)
			}
			g.body = []ast.Node{lit.Body}
			x.collectLits(g, lit.Body)
			return false
		}
		return true
	})
}

func (x *extractor) pass1(p *pkgInfo) {
	initf := x.newFunc(p, p.rel+".<init>", nil, nil)
	initf.IsInit = true
	for _, file := range p.files {
		for _, d := range file.Decls {
			switch d := d.(type) {
			case *ast.FuncDecl:
				f := x.newFunc(p, x.declName(p, d), d, nil)
				obj, _ := p.info.Defs[d.Name].(*types.Func)
				if obj != nil {
					x.byObj[obj] = f
					f.sig = obj.Type().(*types.Signature)
					f.recv = f.sig.Recv()
					if f.recv != nil {
						x.methods[d.Name.Name] = append(x.methods[d.Name.Name], f)
					}
				}
				f.Exported = d.Name.IsExported()
				f.IsInit = d.Name.Name == "init" && d.Recv == nil
				if d.Body != nil {
					f.body = []ast.Node{d.Body}
					x.collectLits(f, d.Body)
				}
			case *ast.GenDecl:
				if d.Tok == token.VAR {
					for _, s := range d.Specs {
						vs := s.(*ast.ValueSpec)
						for _, v := range vs.Values {
							initf.body = append(initf.body, v)
							x.collectLits(initf, v)
						}
					}
				}
			}
		}
	}
	for _, n := range p.tp.Scope().Names() {
		if v, ok := p.tp.Scope().Lookup(n).(*types.Var); ok {
			x.globals = append(x.globals, v)
		}
	}
}

// ---------------------------------------------------------------------------
// pass 1.5: which function literals can outlive the invocation that created them
//
// retained(G, i): the i-th parameter of G (of func type) may be kept by G beyond its own invocation:
// any use other than calling it or handing it on, as a plain argument, to module functions that do
// not retain it.  A literal is non-escaping when it is called on the spot or passed as a plain
// argument to module callees that do not retain that parameter.

func (x *extractor) moduleTargets(p *pkgInfo, c *ast.CallExpr) ([]*Func, bool) {
	fun := unparen(c.Fun)
	if tv := p.info.Types[fun]; tv.IsType() || tv.IsBuiltin() {
		return nil, false
	}
	switch t := fun.(type) {
	case *ast.Ident:
		if fn, ok := p.info.Uses[t].(*types.Func); ok {
			if g := x.byObj[fn]; g != nil {
				return []*Func{g}, true
			}
		}
	case *ast.SelectorExpr:
		if sel := p.info.Selections[t]; sel != nil {
			fn, ok := sel.Obj().(*types.Func)
			if !ok || sel.Kind() != types.MethodVal {
				return nil, false
			}
			if types.IsInterface(sel.Recv()) {
				ms := x.implementations(fn)
				return ms, len(ms) > 0
			}
			if g := x.byObj[fn]; g != nil {
				return []*Func{g}, true
			}
			return nil, false
		}
		if fn, ok := p.info.Uses[t.Sel].(*types.Func); ok {
			if g := x.byObj[fn]; g != nil {
				return []*Func{g}, true
			}
		}
	}
	return nil, false
}

// implementations: the module methods an interface method call can dispatch to (same name, identical signature)
func (x *extractor) implementations(fn *types.Func) []*Func {
	var res []*Func
	sig, _ := fn.Type().(*types.Signature)
	for _, g := range x.methods[fn.Name()] {
		if sig != nil && g.sig != nil && types.Identical(g.sig, sig) {
			res = append(res, g)
		}
	}
	return res
}

// synchronousStdlib: package-level functions of sort, strings, bytes, unicode call their function arguments
// before they return and do not keep them (sort.Search, strings.Map, bytes.IndexFunc, ...)
func (x *extractor) synchronousStdlib(p *pkgInfo, c *ast.CallExpr) bool {
	se, ok := unparen(c.Fun).(*ast.SelectorExpr)
	if !ok {
		return false
	}
	fn, ok := p.info.Uses[se.Sel].(*types.Func)
	if !ok || fn.Pkg() == nil || fn.Type().(*types.Signature).Recv() != nil {
		return false
	}
	switch fn.Pkg().Path() {
	case "sort", "strings", "bytes", "unicode":
		return true
	}
	return false
}

// argDeps: e is the j-th argument of call c; returns the parameters it flows into, or ok=false
func (x *extractor) argDeps(p *pkgInfo, c *ast.CallExpr, j int) ([]paramKey, bool) {
	if c.Ellipsis.IsValid() {
		return nil, false
	}
	if x.synchronousStdlib(p, c) {
		return nil, true
	}
	ts, ok := x.moduleTargets(p, c)
	if !ok {
		return nil, false
	}
	var deps []paramKey
	for _, g := range ts {
		if g.sig == nil || g.sig.Variadic() && j >= g.sig.Params().Len()-1 || j >= g.sig.Params().Len() {
			return nil, false
		}
		deps = append(deps, paramKey{g, j})
	}
	return deps, true
}

func (x *extractor) escapeFacts(f *Func) {
	if f.node == nil && len(f.body) == 0 {
		return
	}
	params := map[*types.Var]int{}
	if f.sig != nil {
		for i := 0; i < f.sig.Params().Len(); i++ {
			v := f.sig.Params().At(i)
			if _, isSig := v.Type().Underlying().(*types.Signature); isSig {
				params[v] = i
			}
		}
	}
	info := f.pkg.info
	var stack []ast.Node
	nested := 0
	// context of node n (top of stack): how is it used by its parent?
	classify := func(n ast.Node) (callee bool, deps []paramKey, ok bool) {
		k := len(stack) - 2
		child := n
		for k >= 0 {
			if pe, isParen := stack[k].(*ast.ParenExpr); isParen {
				child = pe
				k--
				continue
			}
			break
		}
		if k < 0 {
			return false, nil, false
		}
		c, isCall := stack[k].(*ast.CallExpr)
		if !isCall {
			return false, nil, false
		}
		if c.Fun == child {
			return true, nil, true
		}
		for j, a := range c.Args {
			if a == child {
				d, ok := x.argDeps(f.pkg, c, j)
				return false, d, ok
			}
		}
		return false, nil, false
	}
	var visit func(n ast.Node) bool
	visit = func(n ast.Node) bool {
		if n == nil {
			top := stack[len(stack)-1]
			if _, isLit := top.(*ast.FuncLit); isLit {
				nested--
			}
			stack = stack[:len(stack)-1]
			return true
		}
		stack = append(stack, n)
		switch t := n.(type) {
		case *ast.FuncLit:
			if nested == 0 {
				if g := x.byNode[t]; g != nil {
					callee, deps, ok := classify(t)
					g.nonEscaping = ok
					if !callee {
						g.escDeps = deps
					}
				}
			}
			nested++
		case *ast.Ident:
			if v, isVar := info.Uses[t].(*types.Var); isVar {
				if i, isParam := params[v]; isParam {
					key := paramKey{f, i}
					if nested > 0 {
						x.retained[key] = true
					} else if callee, deps, ok := classify(t); !ok {
						x.retained[key] = true
					} else if !callee {
						x.retDeps[key] = append(x.retDeps[key], deps...)
					}
				}
			}
		}
		return true
	}
	for _, b := range f.body {
		ast.Inspect(b, visit)
	}
}

func (x *extractor) escapeAnalysis() {
	x.retained = map[paramKey]bool{}
	x.retDeps = map[paramKey][]paramKey{}
	for _, f := range x.funcs {
		x.escapeFacts(f)
	}
	for changed := true; changed; {
		changed = false
		for k, deps := range x.retDeps {
			if x.retained[k] {
				continue
			}
			for _, d := range deps {
				if x.retained[d] {
					x.retained[k] = true
					changed = true
					break
				}
			}
		}
	}
	for _, f := range x.funcs {
		if f.nonEscaping {
			for _, d := range f.escDeps {
				if x.retained[d] {
					f.nonEscaping = false
				}
			}
		}
	}
}

// ---------------------------------------------------------------------------
// pass 2: bodies

type walker struct {
	x         *extractor
	f         *Func
	info      *types.Info
	noRead    map[ast.Node]bool
	atomic    map[ast.Node]bool // &X operands that are direct arguments of a sync/atomic call
	aop       map[ast.Node]string
	pendingOp string
	origins   map[*types.Var][]ast.Expr
	visiting  map[*types.Var]bool
}

func unparen(e ast.Expr) ast.Expr {
	for {
		p, ok := e.(*ast.ParenExpr)
		if !ok {
			return e
		}
		e = p.X
	}
}

func (w *walker) isGlobal(v *types.Var) bool {
	return v.Pkg() != nil && v.Parent() == v.Pkg().Scope()
}

func (w *walker) inCurrent(v *types.Var) bool {
	if w.f.node == nil {
		return false
	}
	return v.Pos() >= w.f.node.Pos() && v.Pos() < w.f.node.End()
}

// declaring function of a captured variable: innermost function whose range contains it
func (w *walker) declFunc(v *types.Var) *Func {
	for g := w.f.parent; g != nil; g = g.parent {
		if g.node != nil && v.Pos() >= g.node.Pos() && v.Pos() < g.node.End() {
			return g
		}
		if g.node == nil {
			return g
		}
	}
	return nil
}

// chainNonEscaping: every literal from the current function up to (excluding) the declaring
// function d is non-escaping, so the write happens during d's own invocation, on d's thread.
func (w *walker) chainNonEscaping(d *Func) bool {
	for g := w.f; g != nil && g != d; g = g.parent {
		if !g.nonEscaping {
			return false
		}
	}
	return true
}

func (w *walker) globalName(v *types.Var) string {
	return w.x.qual(v.Pkg()) + "." + v.Name()
}

// varLoc: the location of the variable itself (nil for the function's own locals, parameters, receiver)
func (w *walker) varLoc(id *ast.Ident) (*Loc, string) {
	obj := w.info.Uses[id]
	if obj == nil {
		obj = w.info.Defs[id]
	}
	v, ok := obj.(*types.Var)
	if !ok || v.IsField() {
		return nil, "BOther"
	}
	if w.isGlobal(v) {
		return &Loc{Kind: "G", A: w.globalName(v)}, "BGlobal"
	}
	if !w.inCurrent(v) {
		if d := w.declFunc(v); d != nil {
			own := w.chainNonEscaping(d)
			if !own {
				w.x.captured[d.Name+"\x00"+v.Name()] = v
			}
			return &Loc{Kind: "C", A: d.Name, B: v.Name(), InvLocal: own}, "BCaptured"
		}
		return &Loc{Kind: "C", A: "?", B: v.Name()}, "BCaptured"
	}
	if w.f.recv != nil && v == w.f.recv {
		return nil, "BRecv"
	}
	if w.f.sig != nil {
		for i := 0; i < w.f.sig.Params().Len(); i++ {
			if w.f.sig.Params().At(i) == v {
				return nil, "BParam"
			}
		}
	}
	return nil, "BLocal"
}

func (w *walker) baseKind(e ast.Expr) string {
	for {
		switch t := e.(type) {
		case *ast.Ident:
			_, k := w.varLoc(t)
			return k
		case *ast.ParenExpr:
			e = t.X
		case *ast.SelectorExpr:
			if id, ok := t.X.(*ast.Ident); ok {
				if _, isPkg := w.info.Uses[id].(*types.PkgName); isPkg {
					return "BGlobal"
				}
			}
			e = t.X
		case *ast.IndexExpr:
			e = t.X
		case *ast.SliceExpr:
			e = t.X
		case *ast.StarExpr:
			e = t.X
		case *ast.UnaryExpr:
			e = t.X
		default:
			return "BOther"
		}
	}
}

func (w *walker) typeOf(e ast.Expr) types.Type {
	if tv, ok := w.info.Types[e]; ok && tv.Type != nil {
		return tv.Type
	}
	if id, ok := e.(*ast.Ident); ok {
		if o := w.info.Uses[id]; o != nil {
			return o.Type()
		}
		if o := w.info.Defs[id]; o != nil {
			return o.Type()
		}
	}
	return types.Typ[types.Invalid]
}

func (w *walker) pkgQualified(e *ast.SelectorExpr) *types.Var {
	if id, ok := e.X.(*ast.Ident); ok {
		if _, isPkg := w.info.Uses[id].(*types.PkgName); isPkg {
			v, _ := w.info.Uses[e.Sel].(*types.Var)
			return v
		}
	}
	return nil
}

// lvalueLocs: the abstract locations that may be written when e is assigned to or its address taken.
// Empty = the function's own stack variable (thread-private).
func (w *walker) lvalueLocs(e ast.Expr) []*Loc {
	one := func(l *Loc) []*Loc {
		if l == nil {
			return nil
		}
		return []*Loc{l}
	}
	switch t := e.(type) {
	case *ast.Ident:
		if t.Name == "_" {
			return nil
		}
		l, _ := w.varLoc(t)
		return one(l)
	case *ast.ParenExpr:
		return w.lvalueLocs(t.X)
	case *ast.SelectorExpr:
		if v := w.pkgQualified(t); v != nil {
			return one(&Loc{Kind: "G", A: w.globalName(v)})
		}
		sel := w.info.Selections[t]
		if sel == nil || sel.Kind() != types.FieldVal {
			return nil
		}
		xt := w.typeOf(t.X)
		_, isPtr := xt.Underlying().(*types.Pointer)
		if isPtr || sel.Indirect() {
			return one(&Loc{Kind: "F", A: w.x.typeStr(deref(xt)), B: t.Sel.Name})
		}
		// field of a struct value: the memory is part of the variable denoted by X
		return w.lvalueLocs(t.X)
	case *ast.IndexExpr:
		xt := w.typeOf(t.X).Underlying()
		switch xt.(type) {
		case *types.Array:
			return w.lvalueLocs(t.X)
		}
		return w.elemLocs(t.X, 0)
	case *ast.StarExpr:
		return w.wholeObject(deref(w.typeOf(t.X)))
	}
	return nil
}

// wholeObject: *p as a whole = the pseudo field "*" and every field of the struct
func (w *walker) wholeObject(t types.Type) []*Loc {
	name := w.x.typeStr(t)
	res := []*Loc{{Kind: "F", A: name, B: "*"}}
	n, isNamed := t.(*types.Named)
	inModule := isNamed && n.Obj().Pkg() != nil && (n.Obj().Pkg().Path() == modulePath || strings.HasPrefix(n.Obj().Pkg().Path(), modulePath+"/"))
	if st, ok := t.Underlying().(*types.Struct); ok && (inModule || !isNamed) {
		for i := 0; i < st.NumFields(); i++ {
			res = append(res, &Loc{Kind: "F", A: name, B: st.Field(i).Name()})
		}
	}
	return res
}

func isFresh(info *types.Info, e ast.Expr) bool {
	switch t := unparen(e).(type) {
	case *ast.CompositeLit:
		return true
	case *ast.Ident:
		return t.Name == "nil"
	case *ast.CallExpr:
		if id, ok := unparen(t.Fun).(*ast.Ident); ok && info.Types[t.Fun].IsBuiltin() {
			return id.Name == "make" || id.Name == "new"
		}
		if tv := info.Types[t.Fun]; tv.IsType() && len(t.Args) == 1 {
			// conversion: string -> []byte allocates; slice -> slice keeps the backing array
			if b, ok := info.Types[t.Args[0]].Type.Underlying().(*types.Basic); ok && b.Info()&types.IsString != 0 {
				return true
			}
		}
	}
	return false
}

// elemLocs: the abstract locations of the elements reached through the slice/map/pointer value e.
// A local variable of slice or map type stands for everything it was assigned from in this function
// (fresh allocations contribute nothing); what cannot be traced is named by its static type.
func (w *walker) elemLocs(e ast.Expr, depth int) []*Loc {
	byType := func() []*Loc {
		tt := w.typeOf(e)
		if p, ok := tt.Underlying().(*types.Pointer); ok {
			return w.wholeObject(p.Elem())
		}
		return []*Loc{{Kind: "F", A: w.x.typeStr(tt), B: "[]"}}
	}
	if depth > 6 {
		return byType()
	}
	if isFresh(w.info, e) {
		return nil
	}
	switch t := e.(type) {
	case *ast.ParenExpr:
		return w.elemLocs(t.X, depth)
	case *ast.SliceExpr:
		if _, isArr := w.typeOf(t.X).Underlying().(*types.Array); isArr {
			return w.lvalueLocs(t.X)
		}
		return w.elemLocs(t.X, depth)
	case *ast.CallExpr:
		if id, ok := unparen(t.Fun).(*ast.Ident); ok && w.info.Types[t.Fun].IsBuiltin() && id.Name == "append" && len(t.Args) > 0 {
			return w.elemLocs(t.Args[0], depth+1) // the result may share the backing array of the first argument
		}
		if tv := w.info.Types[t.Fun]; tv.IsType() && len(t.Args) == 1 {
			return w.elemLocs(t.Args[0], depth+1) // conversion keeps the backing store
		}
	case *ast.Ident:
		if l, _ := w.varLoc(t); l != nil {
			return []*Loc{l} // elements of a slice/map held in a package-level or captured variable: coarsened to the variable
		}
		if v, ok := w.info.Uses[t].(*types.Var); ok {
			if os, traced := w.origins[v]; traced {
				if w.visiting[v] {
					return nil // x = append(x, ...), x = x[1:]: nothing new
				}
				w.visiting[v] = true
				var res []*Loc
				for _, o := range os {
					res = append(res, w.elemLocs(o, depth+1)...)
				}
				delete(w.visiting, v)
				return res
			}
		}
	case *ast.SelectorExpr:
		if v := w.pkgQualified(t); v != nil {
			return []*Loc{{Kind: "G", A: w.globalName(v)}}
		}
		if sel := w.info.Selections[t]; sel != nil && sel.Kind() == types.FieldVal {
			return []*Loc{{Kind: "F", A: w.x.typeStr(deref(w.typeOf(t.X))), B: t.Sel.Name + "[]"}}
		}
	}
	return byType()
}

// collectOrigins: for every local variable of slice or map type declared in this function, the expressions it
// is assigned from.  A variable that is a parameter, is assigned in a nested literal, by a range clause, by a
// multi-value call or through its address is not traced (it is then named by its static type).
func (w *walker) collectOrigins() {
	w.origins = map[*types.Var][]ast.Expr{}
	w.visiting = map[*types.Var]bool{}
	untraced := map[*types.Var]bool{}
	lhsVar := func(e ast.Expr) *types.Var {
		id, ok := unparen(e).(*ast.Ident)
		if !ok {
			return nil
		}
		obj := w.info.Defs[id]
		if obj == nil {
			obj = w.info.Uses[id]
		}
		v, _ := obj.(*types.Var)
		if v == nil || v.IsField() || !w.inCurrent(v) {
			return nil
		}
		switch v.Type().Underlying().(type) {
		case *types.Slice, *types.Map:
			return v
		}
		return nil
	}
	nested := 0
	var stack []ast.Node
	visit := func(n ast.Node) bool {
		if n == nil {
			if _, isLit := stack[len(stack)-1].(*ast.FuncLit); isLit {
				nested--
			}
			stack = stack[:len(stack)-1]
			return true
		}
		stack = append(stack, n)
		switch t := n.(type) {
		case *ast.FuncLit:
			nested++
		case *ast.AssignStmt:
			for i, l := range t.Lhs {
				v := lhsVar(l)
				if v == nil {
					continue
				}
				if nested > 0 || len(t.Lhs) != len(t.Rhs) || (t.Tok != token.ASSIGN && t.Tok != token.DEFINE) {
					untraced[v] = true
				} else {
					w.origins[v] = append(w.origins[v], t.Rhs[i])
				}
			}
		case *ast.ValueSpec:
			for i, name := range t.Names {
				v := lhsVar(name)
				if v == nil {
					continue
				}
				if nested > 0 || (len(t.Values) != 0 && len(t.Values) != len(t.Names)) {
					untraced[v] = true
				} else if len(t.Values) == 0 {
					w.origins[v] = append(w.origins[v], ast.NewIdent("nil"))
				} else {
					w.origins[v] = append(w.origins[v], t.Values[i])
				}
			}
		case *ast.RangeStmt:
			for _, l := range []ast.Expr{t.Key, t.Value} {
				if l != nil {
					if v := lhsVar(l); v != nil {
						untraced[v] = true
					}
				}
			}
		case *ast.TypeSwitchStmt:
			// the implicit per-clause variables are not in Defs of an identifier we see as an lhs; untraced by default
		case *ast.UnaryExpr:
			if t.Op == token.AND {
				if v := lhsVar(t.X); v != nil {
					untraced[v] = true
				}
			}
		}
		return true
	}
	for _, b := range w.f.body {
		ast.Inspect(b, visit)
	}
	// parameters, receiver, named results: never traced
	if w.f.sig != nil {
		for i := 0; i < w.f.sig.Params().Len(); i++ {
			untraced[w.f.sig.Params().At(i)] = true
		}
		for i := 0; i < w.f.sig.Results().Len(); i++ {
			untraced[w.f.sig.Results().At(i)] = true
		}
		if w.f.recv != nil {
			untraced[w.f.recv] = true
		}
	}
	for v := range untraced {
		delete(w.origins, v)
	}
}

func (w *walker) addAll(ls []*Loc, write, atomic bool, base string, p token.Pos, why string) {
	for _, l := range ls {
		w.add(l, write, atomic, base, p, why)
	}
}

func (w *walker) add(l *Loc, write, atomic bool, base string, p token.Pos, why string) {
	if l == nil {
		return
	}
	op := "ANone"
	if atomic {
		op = w.pendingOp
		if op == "" {
			op = "ARMW"
		}
		if op == "ALoad" {
			write = false
		}
	}
	for _, s := range w.f.Sites {
		if s.Loc == *l && s.Write == write && s.Atomic == atomic && s.Op == op && s.Base == base {
			return
		}
	}
	w.f.Sites = append(w.f.Sites, Site{Loc: *l, Write: write, Atomic: atomic, Op: op, Base: base, Pos: w.x.pos(p), Why: why})
}

// atomicOp: which kind of access a sync/atomic function or method performs
func atomicOp(name string) string {
	switch {
	case strings.HasPrefix(name, "Load"):
		return "ALoad"
	case strings.HasPrefix(name, "Store"):
		return "AStore"
	}
	return "ARMW"
}

func (w *walker) write(e ast.Expr, why string) {
	e = unparen(e)
	w.noRead[e] = true
	if s, ok := e.(*ast.SelectorExpr); ok {
		w.noRead[s.Sel] = true
	}
	w.addAll(w.lvalueLocs(e), true, false, w.baseKind(e), e.Pos(), why)
}

func (w *walker) pseudo(p token.Pos, what string) {
	w.add(&Loc{Kind: "G", A: what}, true, false, "BOther", p, what)
}

func isRefType(t types.Type) bool {
	switch t.Underlying().(type) {
	case *types.Pointer, *types.Slice, *types.Map:
		return true
	}
	return false
}

var callbackNames = []string{"Error", "String", "Unwrap", "Is", "As", "Format", "GoString", "Len", "Less", "Swap",
	"MarshalJSON", "MarshalText", "UnmarshalJSON", "UnmarshalText", "Write", "Read", "Close"}

func (w *walker) edge(g *Func) {
	if g != nil {
		w.f.Calls[g.Name] = true
	}
}

func (w *walker) dynamicEdges(sig *types.Signature) {
	if sig == nil {
		return
	}
	for _, g := range w.x.funcs {
		if g.sig != nil && types.Identical(g.sig, sig) {
			w.edge(g)
		}
	}
}

func (w *walker) funcValueEdges(e ast.Expr) {
	e = unparen(e)
	if lit, ok := e.(*ast.FuncLit); ok {
		w.edge(w.x.byNode[lit])
		return
	}
	if fn := w.staticFunc(e); fn != nil {
		if g := w.x.byObj[fn]; g != nil {
			w.edge(g)
			return
		}
	}
	sig, _ := w.typeOf(e).Underlying().(*types.Signature)
	w.dynamicEdges(sig)
}

func (w *walker) staticFunc(fun ast.Expr) *types.Func {
	switch t := fun.(type) {
	case *ast.Ident:
		fn, _ := w.info.Uses[t].(*types.Func)
		return fn
	case *ast.SelectorExpr:
		if sel := w.info.Selections[t]; sel != nil {
			fn, _ := sel.Obj().(*types.Func)
			return fn
		}
		fn, _ := w.info.Uses[t.Sel].(*types.Func)
		return fn
	}
	return nil
}

func (w *walker) call(c *ast.CallExpr) {
	fun := unparen(c.Fun)
	tv := w.info.Types[fun]
	if tv.IsType() {
		return // conversion
	}
	if tv.IsBuiltin() {
		name := ""
		if id, ok := fun.(*ast.Ident); ok {
			name = id.Name
		}
		switch name {
		case "append", "copy", "delete", "clear":
			if len(c.Args) > 0 {
				a := unparen(c.Args[0])
				if id, ok := a.(*ast.Ident); ok && id.Name == "nil" {
					return
				}
				if name == "clear" || isRefType(w.typeOf(a)) {
					w.addAll(w.elemLocs(a, 0), true, false, w.baseKind(a), a.Pos(), name)
				}
			}
		}
		return
	}
	if lit, ok := fun.(*ast.FuncLit); ok {
		w.edge(w.x.byNode[lit])
		return
	}
	fn := w.staticFunc(fun)
	if fn == nil {
		// call through a func value
		sig, _ := w.typeOf(fun).Underlying().(*types.Signature)
		w.dynamicEdges(sig)
		return
	}
	sig := fn.Type().(*types.Signature)
	if se, ok := fun.(*ast.SelectorExpr); ok {
		if sel := w.info.Selections[se]; sel != nil {
			if types.IsInterface(sel.Recv()) {
				// dynamic dispatch: every module method of that name and signature
				for _, g := range w.x.implementations(fn) {
					w.edge(g)
				}
				return
			}
			// implicit &X for a pointer-receiver method called on an addressable value
			if sig.Recv() != nil {
				_, recvPtr := sig.Recv().Type().Underlying().(*types.Pointer)
				_, xPtr := w.typeOf(se.X).Underlying().(*types.Pointer)
				if recvPtr && !xPtr {
					w.addAll(w.lvalueLocs(se.X), true, false, w.baseKind(se.X), se.X.Pos(), "implicit & for pointer-receiver method "+fn.Name())
				}
			}
		}
	}
	if g := w.x.byObj[fn]; g != nil {
		w.edge(g)
		return
	}
	if fn.Pkg() != nil && (fn.Pkg().Path() == modulePath || strings.HasPrefix(fn.Pkg().Path(), modulePath+"/")) {
		// module function without a body we saw (cannot happen for non-test code); keep the name
		w.f.Calls[w.x.qual(fn.Pkg())+"."+fn.Name()] = true
		return
	}
	// external (standard library) callee
	isAtomic := fn.Pkg() != nil && fn.Pkg().Path() == "sync/atomic"
	callbacks := false
	for _, a := range c.Args {
		a = unparen(a)
		at := w.typeOf(a)
		if u, ok := a.(*ast.UnaryExpr); ok && u.Op == token.AND {
			if isAtomic {
				w.atomic[u] = true
				w.aop[u] = atomicOp(fn.Name())
			}
			continue // handled by the & rule
		}
		if _, isSig := at.Underlying().(*types.Signature); isSig {
			w.funcValueEdges(a)
			continue
		}
		if isRefType(at) {
			if id, ok := a.(*ast.Ident); ok && id.Name == "nil" {
				continue
			}
			w.pendingOp = atomicOp(fn.Name())
			w.addAll(w.elemLocs(a, 0), true, isAtomic, w.baseKind(a), a.Pos(), "reference passed to "+fn.FullName())
		}
		if types.IsInterface(at) {
			callbacks = true
		} else if n, ok := deref(at).(*types.Named); ok && n.Obj().Pkg() != nil && strings.HasPrefix(n.Obj().Pkg().Path(), modulePath) {
			callbacks = true
		}
	}
	if se, ok := fun.(*ast.SelectorExpr); ok && sig.Recv() != nil && w.info.Selections[se] != nil {
		// method of an external type called on a value the module holds (bytes.Buffer, regexp.Regexp, ...): the
		// receiver is a reference handed to code we do not see
		_, recvPtr := sig.Recv().Type().Underlying().(*types.Pointer)
		xt := w.typeOf(se.X)
		_, xPtr := xt.Underlying().(*types.Pointer)
		why := "receiver of " + fn.FullName()
		w.pendingOp = atomicOp(fn.Name()) // atomic.Int32 etc.: x.Load(), x.Store(v), x.Add(d), x.CompareAndSwap(o, n)
		if recvPtr && !xPtr {
			w.noRead[unparen(se.X)] = true
			w.addAll(w.lvalueLocs(se.X), true, isAtomic, w.baseKind(se.X), se.X.Pos(), why)
		} else if isRefType(xt) {
			w.addAll(w.elemLocs(se.X, 0), true, isAtomic, w.baseKind(se.X), se.X.Pos(), why)
		}
	}
	if callbacks {
		for _, n := range callbackNames {
			for _, g := range w.x.methods[n] {
				w.edge(g)
			}
		}
	}
}

func (w *walker) visit(n ast.Node) bool {
	switch t := n.(type) {
	case *ast.FuncLit:
		return false // a function of its own
	case *ast.AssignStmt:
		if t.Tok != token.DEFINE {
			for _, l := range t.Lhs {
				w.write(l, "assignment")
			}
		} else {
			for _, l := range t.Lhs {
				w.noRead[unparen(l)] = true
			}
		}
	case *ast.IncDecStmt:
		w.write(t.X, "inc/dec")
	case *ast.RangeStmt:
		if t.Tok == token.ASSIGN {
			if t.Key != nil {
				w.write(t.Key, "range assignment")
			}
			if t.Value != nil {
				w.write(t.Value, "range assignment")
			}
		}
		if isRefType(w.typeOf(t.X)) {
			w.addAll(w.elemLocs(t.X, 0), false, false, w.baseKind(t.X), t.X.Pos(), "range over elements")
		}
	case *ast.GoStmt:
		w.pseudo(t.Pos(), "<go statement>")
	case *ast.SendStmt:
		w.pseudo(t.Pos(), "<channel operation>")
	case *ast.SelectStmt:
		w.pseudo(t.Pos(), "<channel operation>")
	case *ast.UnaryExpr:
		if t.Op == token.ARROW {
			w.pseudo(t.Pos(), "<channel operation>")
		}
		if t.Op == token.AND {
			x := unparen(t.X)
			if _, isLit := x.(*ast.CompositeLit); !isLit {
				w.noRead[x] = true
				if s, ok := x.(*ast.SelectorExpr); ok {
					w.noRead[s.Sel] = true
				}
				why := "address taken"
				if w.atomic[t] {
					why = "address passed to sync/atomic (" + w.aop[t] + ")"
					w.pendingOp = w.aop[t]
				}
				w.addAll(w.lvalueLocs(x), true, w.atomic[t], w.baseKind(x), x.Pos(), why)
			}
		}
	case *ast.CallExpr:
		w.call(t)
	case *ast.SelectorExpr:
		if v := w.pkgQualified(t); v != nil {
			w.noRead[t.Sel] = true
			if !w.noRead[t] {
				w.add(&Loc{Kind: "G", A: w.globalName(v)}, false, false, "BGlobal", t.Pos(), "read")
			}
			return true
		}
		if sel := w.info.Selections[t]; sel != nil && sel.Kind() == types.FieldVal && !w.noRead[t] {
			xt := w.typeOf(t.X)
			_, isPtr := xt.Underlying().(*types.Pointer)
			if isPtr || sel.Indirect() {
				w.add(&Loc{Kind: "F", A: w.x.typeStr(deref(xt)), B: t.Sel.Name}, false, false, w.baseKind(t), t.Pos(), "read")
			} else {
				w.addAll(w.lvalueLocs(t.X), false, false, w.baseKind(t), t.Pos(), "read")
			}
		}
	case *ast.IndexExpr:
		if !w.noRead[t] {
			if _, isArr := w.typeOf(t.X).Underlying().(*types.Array); !isArr {
				if _, isStr := w.typeOf(t.X).Underlying().(*types.Basic); !isStr {
					if _, isSig := w.typeOf(t.X).Underlying().(*types.Signature); !isSig && !w.info.Types[t.X].IsType() {
						w.addAll(w.elemLocs(t.X, 0), false, false, w.baseKind(t.X), t.Pos(), "element read")
					}
				}
			}
		}
	case *ast.StarExpr:
		if !w.noRead[t] && !w.info.Types[t].IsType() {
			w.addAll(w.wholeObject(deref(w.typeOf(t.X))), false, false, w.baseKind(t.X), t.Pos(), "read")
		}
	case *ast.Ident:
		if w.noRead[t] || t.Name == "_" {
			return true
		}
		if v, ok := w.info.Uses[t].(*types.Var); ok && !v.IsField() {
			if l, k := w.varLoc(t); l != nil {
				w.add(l, false, false, k, t.Pos(), "read")
			}
		}
	}
	return true
}

func (x *extractor) pass2(f *Func) {
	w := &walker{x: x, f: f, info: f.pkg.info, noRead: map[ast.Node]bool{}, atomic: map[ast.Node]bool{}, aop: map[ast.Node]string{}}
	// mark &X arguments of sync/atomic calls first (Inspect visits the call before its arguments, so
	// call() has already run when the UnaryExpr is reached; nothing else to do here)
	w.collectOrigins()
	for _, b := range f.body {
		ast.Inspect(b, w.visit)
	}
}

// ---------------------------------------------------------------------------
// output

func q(s string) string {
	return "\"" + strings.ReplaceAll(s, "\"", "\"\"") + "\""
}

func b(v bool) string {
	if v {
		return "true"
	}
	return "false"
}

func locCoq(l Loc) string {
	switch l.Kind {
	case "G":
		return "LGlobal " + q(l.A)
	case "F":
		return "LField " + q(l.A) + " " + q(l.B)
	}
	return "LCaptured " + q(l.A) + " " + q(l.B)
}

func main() {
	if len(os.Args) < 3 {
		fmt.Fprintln(os.Stderr, "usage: effects <repo> <out.v> [<out.json>]")
		os.Exit(2)
	}
	root, err := filepath.Abs(os.Args[1])
	if err != nil {
		panic(err)
	}
	outV, _ := filepath.Abs(os.Args[2])
	outJSON := ""
	if len(os.Args) > 3 {
		outJSON, _ = filepath.Abs(os.Args[3])
	}
	if err := os.Chdir(root); err != nil {
		fmt.Fprintln(os.Stderr, err)
		os.Exit(2)
	}
	x := &extractor{root: root, fset: token.NewFileSet(), pkgs: map[string]*pkgInfo{}, byNode: map[ast.Node]*Func{},
		byObj: map[*types.Func]*Func{}, methods: map[string][]*Func{}, captured: map[string]*types.Var{}}
	x.std = importer.ForCompiler(x.fset, "source", nil)
	var dirs []string
	filepath.Walk(root, func(p string, info os.FileInfo, err error) error {
		if err != nil || !info.IsDir() {
			return nil
		}
		if p != root && skipDir(filepath.Base(p)) {
			return filepath.SkipDir
		}
		ents, _ := os.ReadDir(p)
		for _, e := range ents {
			if !e.IsDir() && strings.HasSuffix(e.Name(), ".go") && !strings.HasSuffix(e.Name(), "_test.go") {
				dirs = append(dirs, p)
				break
			}
		}
		return nil
	})
	sort.Strings(dirs)
	for _, d := range dirs {
		rel, _ := filepath.Rel(root, d)
		path := modulePath
		if rel != "." {
			path += "/" + filepath.ToSlash(rel)
		}
		if _, err := x.load(path); err != nil {
			fmt.Fprintln(os.Stderr, "effects: cannot load", path, ":", err)
			os.Exit(3)
		}
	}
	if len(x.errs) > 0 {
		fmt.Fprintln(os.Stderr, "effects: type errors (the summary would be unreliable):")
		for _, e := range x.errs {
			fmt.Fprintln(os.Stderr, "  ", e)
		}
		os.Exit(3)
	}
	sort.Slice(x.order, func(i, j int) bool { return x.order[i].path < x.order[j].path })
	for _, p := range x.order {
		x.pass1(p)
	}
	x.escapeAnalysis()
	for _, f := range x.funcs {
		x.pass2(f)
	}

	// roots
	var parseRoots, ctorRoots []string
	for _, f := range x.funcs {
		if f.Name == "parsley.Parse" || f.Name == "parsley.Evaluate" {
			parseRoots = append(parseRoots, f.Name)
		}
		if !f.IsInit {
			ctorRoots = append(ctorRoots, f.Name)
		}
	}

	qs := func(l []string) string {
		var r []string
		for _, s := range l {
			r = append(r, q(s))
		}
		return strings.Join(r, "; ")
	}
	var sb strings.Builder
	sb.WriteString("(* GENERATED by /verif/tools/effects from " + root + " -- do not edit. *)\n")
	sb.WriteString("From Coq Require Import String List.\nFrom Parsley Require Import Race.\nImport ListNotations.\nOpen Scope string_scope.\n\n")
	sb.WriteString("Definition program : prog := {|\n  p_globals := [\n")
	sort.Slice(x.globals, func(i, j int) bool {
		return x.qual(x.globals[i].Pkg())+"."+x.globals[i].Name() < x.qual(x.globals[j].Pkg())+"."+x.globals[j].Name()
	})
	for i, g := range x.globals {
		sep := ";"
		if i == len(x.globals)-1 {
			sep = ""
		}
		sb.WriteString(fmt.Sprintf("    (%s, [%s])%s\n", q(x.qual(g.Pkg())+"."+g.Name()), qs(x.components(g.Type())), sep))
	}
	sb.WriteString("  ];\n  p_funcs := [\n")
	nsites, nwrites, nedges := 0, 0, 0
	for i, f := range x.funcs {
		var ss []string
		for _, s := range f.Sites {
			ss = append(ss, fmt.Sprintf("mkSite (%s) %s %s %s %s %s %s", locCoq(s.Loc), b(s.Write), b(s.Atomic), s.Op, s.Base, b(s.Loc.Kind == "C" && s.Loc.InvLocal), q(s.Pos+" "+s.Why)))
			nsites++
			if s.Write {
				nwrites++
			}
		}
		var cs []string
		for c := range f.Calls {
			cs = append(cs, c)
		}
		sort.Strings(cs)
		nedges += len(cs)
		for k := range cs {
			cs[k] = q(cs[k])
		}
		sep := ";"
		if i == len(x.funcs)-1 {
			sep = ""
		}
		sb.WriteString(fmt.Sprintf("    mkFunc %s\n      [%s]\n      [%s]%s\n", q(f.Name), strings.Join(ss, ";\n       "), strings.Join(cs, "; "), sep))
	}
	sb.WriteString("  ];\n  p_holders := [\n")
	var holders []string
	for _, p := range x.order {
		for _, n := range p.tp.Scope().Names() {
			tn, ok := p.tp.Scope().Lookup(n).(*types.TypeName)
			if !ok {
				continue
			}
			switch tn.Type().Underlying().(type) {
			case *types.Slice, *types.Map, *types.Array, *types.Pointer:
				holders = append(holders, fmt.Sprintf("    (%s, %s, [%s])", q(x.typeStr(tn.Type())), q("[]"), qs(x.components(tn.Type().Underlying()))))
			}
			st, ok := tn.Type().Underlying().(*types.Struct)
			if !ok {
				continue
			}
			for i := 0; i < st.NumFields(); i++ {
				holders = append(holders, fmt.Sprintf("    (%s, %s, [%s])", q(x.typeStr(tn.Type())), q(st.Field(i).Name()), qs(x.components(st.Field(i).Type()))))
			}
		}
	}
	var ck []string
	for k := range x.captured {
		ck = append(ck, k)
	}
	sort.Strings(ck)
	for _, k := range ck {
		parts := strings.SplitN(k, "\x00", 2)
		holders = append(holders, fmt.Sprintf("    (%s, %s, [%s])", q("closure of "+parts[0]), q(parts[1]), qs(x.components(x.captured[k].Type()))))
	}
	sb.WriteString(strings.Join(holders, ";\n"))
	sb.WriteString("\n  ];\n")
	sb.WriteString("  p_parse_roots := [" + qs(parseRoots) + "];\n")
	sb.WriteString("  p_ctor_roots := [" + qs(ctorRoots) + "]\n|}.\n")
	if err := os.WriteFile(outV, []byte(sb.String()), 0o644); err != nil {
		fmt.Fprintln(os.Stderr, err)
		os.Exit(2)
	}

	if outJSON != "" {
		type jf struct {
			Name  string
			Sites []Site
			Calls []string
		}
		var fs []jf
		for _, f := range x.funcs {
			var cs []string
			for c := range f.Calls {
				cs = append(cs, c)
			}
			sort.Strings(cs)
			fs = append(fs, jf{f.Name, f.Sites, cs})
		}
		var gl []string
		for _, g := range x.globals {
			gl = append(gl, x.qual(g.Pkg())+"."+g.Name()+" : "+x.typeStr(g.Type()))
		}
		var pk []string
		for _, p := range x.order {
			pk = append(pk, p.rel)
		}
		out := map[string]interface{}{"repo": root, "packages": pk, "functions": len(x.funcs), "package_variables": gl,
			"sites": nsites, "write_sites": nwrites, "call_edges": nedges, "parse_roots": parseRoots, "funcs": fs}
		data, _ := json.MarshalIndent(out, "", " ")
		os.WriteFile(outJSON, data, 0o644)
	}
	fmt.Printf("effects: %d packages, %d functions, %d package-level variables, %d sites (%d writes), %d call edges\n",
		len(x.order), len(x.funcs), len(x.globals), nsites, nwrites, nedges)
}
