"""C14 — a parser graph can be shared by concurrent parses.

This is the one property whose Coq model is GENERATED from the Go source on every run:

  tools/effects (Go, go/parser + go/types)  --->  work/C14/Effects.v   (program : Race.prog)
  work/C14/EffectsCheck.v:   effects_race_free : conflicts program = []   (vm_compute)
                             + the generic theorems of coq/RaceProofs.v instantiated with program
  harness/c14 (go build -race): N goroutines sharing one set of parser graphs + concurrent construction,
                             every concurrent result compared with the result of the run executed alone.

Verdict: the generated obligation failing = broken proof obligation -> search for a concrete failing
schedule with the race detector (its report is the replay); a detector report or a result differing
from the solo result on a tree whose obligation holds is a violation too.
"""
import json
import os
import re
import shutil
import subprocess
import sys
import time
from concurrent.futures import ThreadPoolExecutor

import core

ID = "C14"
COQ_TARGETS = ["Race.vo", "RaceProofs.vo", "Props/C14.vo"]
WORK = os.path.join(core.WORK, ID)
TOOL = os.path.join(core.ROOT, "tools", "effects")

RULE = ("one evaluation = one Parse/Evaluate call that ran concurrently with the other goroutines of the -race "
        "workload (shared graphs: JSON example parser, left-recursive memoized arithmetic, ambiguous memoized grammar, "
        "trimmed token sequences, every literal parser; success and failure inputs; concurrent construction) and whose "
        "result (value or node rendering, error text, call count) was compared with the same run executed alone; "
        "distinct = distinct (grammar, input); non-trivial = non-empty input")
TRUSTED = [
    "Coq 8.16.1 kernel and vm_compute (generated obligation effects_race_free)",
    "the effect extractor tools/effects (go/parser + go/types): its summaries are assumed to cover every access and call "
    "of the module's non-test code; over- and under-approximations listed in notes/C14.md",
    "the classification table of coq/Race.v (local_types, immutable_globals): objects of the listed types are created "
    "per parse or owned by one goroutine by the property's premise",
    "the Go memory model and runtime: a program whose conflicting accesses never happen concurrently is race free; the Go "
    "race detector and go build -race for the dynamic part",
    "harness/c14 (workload) and lib/c14.py (orchestration)",
]
ASSUMPTIONS = [
    "each concurrent parse has its own parsley.Context, text.Reader and text.File (the property's premise); a "
    "parsley.FileSet may be shared by the runs (the files registered in it are parsed by one run each)",
    "the parser graph is completely built (happens-before) when the parses start; builder methods such as Sequence.Bind are "
    "not called on a graph that is in use",
    "user code plugged into the graph (interpreters, custom parsers, result handlers) is itself free of shared mutable state",
    "no reflection, unsafe or cgo in the module (none present; the extractor fails conservatively on go statements and "
    "channel operations)",
    "data.EmptyIntMap / data.EmptyIntSet are never written through (property C15)",
]
MANIFEST = {
    "technique": "Rocq proof of a generic data-race-freedom theorem over effect summaries + summary generated from the Go "
                 "source on every run and decided by vm_compute + concurrent workload under the Go race detector",
    "text": ("PARTIAL. Theorems C14_* (coq/Props/C14.v, fully proved, no axioms): in an interleaving semantics where every "
             "thread performs accesses permitted by its effect summary, a summary without conflicts (no two sites reachable "
             "from Parse/Evaluate or from the constructors touch the same shared location, one writing, not both atomic) "
             "admits no data race in any interleaving of any number of threads, every non-atomic read returns the value "
             "the thread reads when run alone, and a deterministic parse thread performs exactly its solo execution. The "
             "summary is regenerated from /repo's working tree by tools/effects on every run and the obligation "
             "effects_race_free : conflicts program = [] is decided by vm_compute (work/C14/EffectsCheck.v). NOT proved: "
             "the soundness of the extractor and of the type classification table, Go's memory model and runtime. A "
             "-race workload (shared graphs, success and failure inputs, concurrent construction) runs on every check and "
             "compares each concurrent result with the solo result."),
    "note": ("Trusted: Coq kernel + vm_compute; extractor tools/effects; classification table in coq/Race.v; Go memory "
             "model, runtime and race detector; premise that each parse owns its Context/Reader/File (a FileSet may be shared) and that the "
             "graph is built before it is shared; C15 for the shared empty IntMap/IntSet values."),
    "ref": "DESIGN.md section 6, C14",
}

CHECK_V = """(* GENERATED by lib/c14.py -- obligations about the generated summary of %(repo)s *)
From Coq Require Import String List NArith.
From Parsley Require Import Race RaceProofs.
From C14gen Require Import Effects.
Import ListNotations.

(* The generated obligation: the summary extracted from the source has no conflict. *)
Theorem effects_race_free : conflicts program = [].
Proof. vm_compute. reflexivity. Qed.
Print Assumptions effects_race_free.

Theorem C14_program_drf : forall kinds tr, permitted program kinds tr -> ~ has_race tr.
Proof. exact (drf_generic program effects_race_free). Qed.
Print Assumptions C14_program_drf.

Theorem C14_program_interleavings : forall kinds (ths : nat -> list event) tr,
  (forall t, Forall (permits program (kinds t)) (ths t)) -> interleaving_of ths tr ->
  ~ has_race tr /\\
  (forall init, consistent init tr -> forall t, consistent_na init (ths t)) /\\
  (forall init, consistent init tr -> forall t, atomic_sites program (kinds t) = [] -> consistent init (ths t)).
Proof. exact (drf_interleavings program effects_race_free). Qed.
Print Assumptions C14_program_interleavings.

Theorem C14_program_reads_as_alone : forall kinds tr init, permitted program kinds tr -> consistent init tr ->
  forall t, consistent_na init (proj t tr).
Proof. exact (solo_generic program effects_race_free). Qed.
Print Assumptions C14_program_reads_as_alone.
"""

SOLO_V = """(* GENERATED by lib/c14.py -- parse threads perform no sync/atomic access, hence run exactly as alone *)
From Coq Require Import String List NArith.
From Parsley Require Import Race RaceProofs.
From C14gen Require Import Effects EffectsCheck.
Import ListNotations.

Theorem parse_threads_use_no_atomics : atomic_sites program KParse = [].
Proof. vm_compute. reflexivity. Qed.
Print Assumptions parse_threads_use_no_atomics.

Theorem C14_program_parse_same_as_alone : forall kinds tr init, permitted program kinds tr -> consistent init tr ->
  forall t c, kinds t = KParse -> follows c t [] (proj t tr) ->
  proj t tr = solo c t init [] (length (proj t tr)).
Proof.
  intros kinds tr init Hp Hc t c Hk Hf.
  apply (solo_deterministic program effects_race_free kinds tr init Hp Hc t c); [|exact Hf].
  rewrite Hk. exact parse_threads_use_no_atomics.
Qed.
Print Assumptions C14_program_parse_same_as_alone.
"""

ATOMIC_V = """(* GENERATED by lib/c14.py -- second obligation: every update of a shared location is one atomic operation *)
From Coq Require Import String List NArith.
From Parsley Require Import Race RaceProofs.
From C14gen Require Import Effects.
Import ListNotations.

Theorem effects_updates_atomic : atomic_update_defects program = [].
Proof. vm_compute. reflexivity. Qed.
Print Assumptions effects_updates_atomic.

Theorem C14_program_updates_atomic : forall k h, In h (roots program k) ->
  forall fl sl fs ss,
    In fl (p_funcs program) -> In sl (f_sites fl) -> reachable program [h] (f_name fl) ->
    In fs (p_funcs program) -> In ss (f_sites fs) -> reachable program [h] (f_name fs) ->
    sharedb k sl = true -> sharedb k ss = true ->
    s_aop sl = ALoad -> s_aop ss = AStore -> s_loc sl = s_loc ss -> False.
Proof. exact (updates_atomic_generic program effects_updates_atomic). Qed.
Print Assumptions C14_program_updates_atomic.
"""

REPORT_V = """(* GENERATED by lib/c14.py -- what the check computes on the generated summary, printed for the report *)
From Coq Require Import String List NArith.
From Parsley Require Import Race.
From C14gen Require Import Effects.
Import ListNotations.
Open Scope string_scope.
Definition sk (k : kind) := match k with KParse => "parse-thread" | KCtor => "constructor-thread" end.
Definition sl (l : aloc) := match l with
  | LGlobal v => "package-level variable " ++ v
  | LField t f => "field/element " ++ f ++ " of an object of type " ++ t
  | LCaptured f v => "variable " ++ v ++ " of " ++ f ++ " captured by a closure" end.
Definition sa (s : site) := (if s_write s then "write" else "read") ++ (if s_atomic s then " (atomic)" else "").
Definition show (c : conflict) : string := match c with
  | CRace k1 f1 s1 k2 f2 s2 => "RACE on " ++ sl (s_loc s1) ++ ": " ++ sa s1 ++ " in " ++ f1 ++ " [" ++ sk k1 ++ "] at " ++ s_pos s1
                               ++ " <-> " ++ sa s2 ++ " in " ++ f2 ++ " [" ++ sk k2 ++ "] at " ++ s_pos s2
  | CUnclosed k f g => "UNCLOSED reach set (" ++ sk k ++ "): " ++ f ++ " calls " ++ g
  | CRootMissing k r => "ROOT not found (" ++ sk k ++ "): " ++ r
  | CNoRoots k => "NO ROOTS (" ++ sk k ++ "): parsley.Parse / parsley.Evaluate not found"
  | CGlobalOfLocalType g ty => "package-level variable " ++ g ++ " holds an object of thread-local type " ++ ty
  | CAtomicRMW k h f1 s1 f2 s2 => "NON-ATOMIC UPDATE of " ++ sl (s_loc s1) ++ ": one call of " ++ h ++ " [" ++ sk k ++ "] does "
                               ++ "an atomic LOAD in " ++ f1 ++ " at " ++ s_pos s1 ++ " and a separate atomic STORE in " ++ f2 ++ " at " ++ s_pos s2
                               ++ " (two threads can both load before either stores: lost update)"
  | CLocalInShared h m ty => "shared holder " ++ h ++ " (" ++ m ++ ") holds an object of thread-local type " ++ ty end.
Set Printing Width 1000000.
Set Printing Depth 1000000.
Definition CONFLICTS := Eval vm_compute in map show (conflicts program).
Print CONFLICTS.
Definition ATOMICDEFECTS := Eval vm_compute in map show (atomic_update_defects program).
Print ATOMICDEFECTS.
Definition ATOMICPARSE := Eval vm_compute in
  map (fun fs : string * site => "SHARED MUTABLE STATE between parses: " ++ sa (snd fs) ++ " of " ++ sl (s_loc (snd fs)) ++ " in " ++ fst fs
                                 ++ " at " ++ s_pos (snd fs) ++ " is reachable from parsley.Parse/Evaluate")
      (atomic_sites program KParse).
Print ATOMICPARSE.
Definition UNCLASSIFIED := Eval vm_compute in unclassified program.
Print UNCLASSIFIED.
Definition COUNTS := Eval vm_compute in (N.of_nat (length (reach program KParse)), N.of_nat (length (reach program KCtor)),
                                         N.of_nat (length (shared_sites program)), N.of_nat (length (atomic_sites program KParse)),
                                         N.of_nat (length (atomic_sites program KCtor))).
Print COUNTS.
"""


def coqc(name, timeout=900):
    return core.sh(["coqc", "-Q", core.COQ, "Parsley", "-Q", WORK, "C14gen", os.path.join(WORK, name)], cwd=WORK,
                   timeout=timeout)


def strings_of(out, name):
    m = re.search(r"^%s\s*=\s*(.*?)\n\s*:\s*list string" % name, out, re.S | re.M)
    if not m:
        return None
    return [s.replace('""', '"') for s in re.findall(r'"((?:[^"]|"")*)"', m.group(1))]


def build_extractor():
    exe = os.path.join(WORK, "effects")
    rc, out = core.sh(["go", "build", "-o", exe, "."], cwd=TOOL, env=core.GOENV, timeout=600)
    return rc == 0, out, exe


def build_workload():
    h = os.path.join(core.ROOT, "harness")
    mod = open(os.path.join(h, "go.mod")).read()
    mod = re.sub(r"replace github.com/opsidian/parsley => \S+", "replace github.com/opsidian/parsley => %s" % core.REPO, mod)
    open(os.path.join(WORK, "go.mod"), "w").write(mod)
    core.sh(["cp", os.path.join(core.REPO, "go.sum"), os.path.join(WORK, "go.sum")])
    exe = os.path.join(WORK, "race_workload")
    env = dict(core.GOENV, CGO_ENABLED="1")    # -race needs cgo
    rc, out = core.sh(["go", "build", "-race", "-tags", "verif", "-modfile", os.path.join(WORK, "go.mod"), "-o", exe, "./c14"],
                      cwd=h, env=env, timeout=900)
    return rc == 0, out, exe


def run_workload(exe, args, procs=None, timeout=1200):
    env = dict(os.environ, GORACE="halt_on_error=1 exitcode=66")
    if procs:
        env["GOMAXPROCS"] = str(procs)
    try:
        p = subprocess.run([exe] + args, env=env, stdout=subprocess.PIPE, stderr=subprocess.PIPE, text=True, timeout=timeout)
        rc, so, se = p.returncode, p.stdout, p.stderr
    except subprocess.TimeoutExpired as e:
        rc, so, se = 124, (e.stdout or ""), (e.stderr or "") + "\n[timeout]"
        if isinstance(so, bytes):
            so = so.decode("utf8", "replace")
        if isinstance(se, bytes):
            se = se.decode("utf8", "replace")
    res = None
    for line in so.splitlines():
        if line.startswith("{"):
            try:
                res = json.loads(line)
            except ValueError:
                pass
    return {"rc": rc, "result": res, "stderr": se, "procs": procs, "race": "WARNING: DATA RACE" in se or "fatal error: concurrent map" in se, "args": args}


def static_part(problems):
    """Extractor + generated obligations.  Returns a dict; 'fatal' set when the source cannot be analysed."""
    st = {"race_free": False, "updates_atomic": False, "solo": False, "conflicts": None, "discharged": [], "undischarged": [], "assumptions": [], "stats": {}}
    ok, out, exe = build_extractor()
    if not ok:
        st["fatal"] = "cannot build the extractor tools/effects:\n" + out[-3000:]
        return st
    for f in ("Effects.v", "Effects.vo", "EffectsCheck.vo", "EffectsCheckSolo.vo", "EffectsCheckAtomic.vo", "EffectsReport.vo",
              "effects.json"):
        try:
            os.remove(os.path.join(WORK, f))
        except OSError:
            pass
    rc, out = core.sh([exe, core.REPO, os.path.join(WORK, "Effects.v"), os.path.join(WORK, "effects.json")], timeout=600)
    if rc != 0:
        st["fatal"] = "the extractor cannot analyse %s:\n%s" % (core.REPO, out[-3000:])
        return st
    core.log("C14: " + out.strip())
    ej = json.load(open(os.path.join(WORK, "effects.json")))
    st["stats"] = {k: ej[k] for k in ("functions", "sites", "write_sites", "call_edges", "parse_roots", "packages")}
    st["stats"]["package_variables"] = ej["package_variables"]
    open(os.path.join(WORK, "EffectsCheck.v"), "w").write(CHECK_V % {"repo": core.REPO})
    open(os.path.join(WORK, "EffectsCheckSolo.v"), "w").write(SOLO_V)
    open(os.path.join(WORK, "EffectsReport.v"), "w").write(REPORT_V)
    open(os.path.join(WORK, "EffectsCheckAtomic.v"), "w").write(ATOMIC_V)
    rc, out = coqc("Effects.v")
    if rc != 0:
        problems.append({"kind": "generated-summary-does-not-compile", "log": out[-3000:]})
        return st
    with ThreadPoolExecutor(max_workers=3) as ex:
        fr = ex.submit(coqc, "EffectsReport.v")
        fc = ex.submit(coqc, "EffectsCheck.v")
        fa = ex.submit(coqc, "EffectsCheckAtomic.v")
        rrc, rout = fr.result()
        crc, cout = fc.result()
        arc, aout = fa.result()
    anames = ["effects_updates_atomic", "C14_program_updates_atomic"]
    if arc == 0:
        st["updates_atomic"] = True
        st["discharged"] += anames
        st["assumptions"] += re.findall(r"Closed under the global context|Axioms:.*", aout)
    else:
        st["undischarged"] += anames
        st["atomic_log"] = aout[-2000:]
    if rrc == 0:
        st["conflicts"] = ((strings_of(rout, "CONFLICTS") or []) + (strings_of(rout, "ATOMICDEFECTS") or []) +
                           (strings_of(rout, "ATOMICPARSE") or []))
        st["unclassified"] = strings_of(rout, "UNCLASSIFIED")
        m = re.search(r"COUNTS\s*=\s*\((\d+)(?:%N)?, (\d+)(?:%N)?, (\d+)(?:%N)?, (\d+)(?:%N)?, (\d+)(?:%N)?\)", rout)
        if m:
            st["stats"].update(dict(zip(("parse_reachable_functions", "constructor_reachable_functions", "shared_sites",
                                         "atomic_sites_parse", "atomic_sites_constructors"), map(int, m.groups()))))
    else:
        problems.append({"kind": "report-evaluation", "log": rout[-3000:]})
    names = ["effects_race_free", "C14_program_drf", "C14_program_interleavings", "C14_program_reads_as_alone"]
    if crc == 0:
        st["race_free"] = True
        st["discharged"] += names
        st["assumptions"] += re.findall(r"Closed under the global context|Axioms:.*", cout)
        src, sout = coqc("EffectsCheckSolo.v")
        solo = ["parse_threads_use_no_atomics", "C14_program_parse_same_as_alone"]
        if src == 0:
            st["solo"] = True
            st["discharged"] += solo
            st["assumptions"] += re.findall(r"Closed under the global context|Axioms:.*", sout)
        else:
            # a sync/atomic access reachable from Parse/Evaluate touches state shared between parses: no data race, but
            # "the runs share no mutable state / each run returns the same result as when executed alone" is not proved
            st["undischarged"] += solo
            st["solo_log"] = sout[-2000:]
    else:
        st["undischarged"] += names + ["parse_threads_use_no_atomics", "C14_program_parse_same_as_alone"]
        st["check_log"] = cout[-3000:]
    return st


def dedupe(conflicts):
    seen, res = set(), []
    for c in conflicts or []:
        key = re.sub(r"\[(parse|constructor)-thread\]", "", c)
        if key not in seen:
            seen.add(key)
            res.append(c)
    return res


def main(tier, seed, replay=None):
    t0 = time.time()
    os.makedirs(WORK, exist_ok=True)
    problems = []
    # (a) the hand-written development
    ok, out = core.coq_make(COQ_TARGETS)
    if not ok:
        m = re.findall(r"File \"([^\"]+)\", line (\d+)", out)
        problems.append({"kind": "coq-build", "where": m[-1] if m else None, "log": out[-4000:]})
    pr = {"ok": False, "theorems": [], "closed": 0, "axioms": [], "log": ""}
    if ok:
        pr = core.props_check(ID)
        if not pr["ok"]:
            problems.append({"kind": "props", "log": pr["log"][-4000:]})
    hits = core.forbidden_scan()
    if hits:
        problems.append({"kind": "forbidden-words", "hits": hits})
    # (b) workload build in parallel with the extractor and the generated obligations
    with ThreadPoolExecutor(max_workers=2) as ex:
        fw = ex.submit(build_workload)
        st = static_part(problems) if ok else {"race_free": False, "updates_atomic": False, "solo": False, "conflicts": None, "discharged": [],
                                               "undischarged": [], "assumptions": [], "stats": {}}
        wok, wout, wexe = fw.result()
    if st.get("fatal"):
        print("ERROR: %s" % st["fatal"])
        return 2
    if not wok:
        print("ERROR: cannot build the race workload against %s:\n%s" % (core.REPO, wout[-3000:]))
        return 2
    static_ok = st["race_free"] and st["updates_atomic"] and st["solo"]
    hf = lambda b: "holds" if b else "FAILS"
    core.log("C14: build + static part %.1fs; generated obligations: effects_race_free %s, effects_updates_atomic %s, "
             "parse_threads_use_no_atomics %s" % (time.time() - t0, hf(st["race_free"]), hf(st["updates_atomic"]),
                                                  hf(st["solo"]) if st["race_free"] else "not attempted"))
    conflicts = dedupe(st.get("conflicts"))
    for c in conflicts[:20]:
        core.log("C14: static conflict: " + c)
    # (c)/(d) the workload
    if replay:
        rp = json.load(open(replay))
        args = rp.get("workload_args") or ["-seconds", "20", "-seed", str(seed)]
        procs = rp.get("gomaxprocs")
    elif tier == "quick":
        args = ["-goroutines", "8", "-constructors", "2", "-seconds", "12", "-seed", str(seed)]
        procs = None
    else:
        args = ["-goroutines", "32", "-constructors", "8", "-seconds", "420", "-construct-seconds", "40", "-seed", str(seed)]
        procs = 16
    runs = []
    r = None
    if not replay:
        # regression corpus first: each case is a workload configuration
        for case, meta in core.corpus_cases(ID):
            r = run_workload(wexe, case.split(), None)
            r["corpus"] = meta.get("file")
            runs.append(r)
            if r["race"] or (r["result"] or {}).get("construction", {}).get("failures") or (r["result"] or {}).get("mismatches"):
                break
    if not (r and (r["race"] or (r["result"] or {}).get("construction", {}).get("failures") or (r["result"] or {}).get("mismatches"))):
        r = run_workload(wexe, args, procs)
        runs.append(r)
    failed_dyn = lambda x: (x["race"] or bool((x["result"] or {}).get("construction", {}).get("failures")) or
                            bool((x["result"] or {}).get("mismatches")))
    if not static_ok and ok and not failed_dyn(r) and not replay:
        # search harder for a concrete failing schedule: more goroutines, other seeds
        for k in range(1, 4):
            a = ["-goroutines", "32", "-constructors", "8", "-seconds", "20", "-seed", str(seed + 100 * k)]
            r = run_workload(wexe, a, 16)
            runs.append(r)
            if failed_dyn(r):
                break
    core.log("C14: workload %s" % "; ".join("rc=%d runs=%s" % (x["rc"], (x["result"] or {}).get("runs")) for x in runs))
    # verdict
    exit_code = 0
    nviol = 0
    raced = [x for x in runs if x["race"]]
    mism = [x for x in runs if x["result"] and x["result"].get("mismatches")]
    cons = [x for x in runs if (x["result"] or {}).get("construction", {}).get("failures")]
    broken = [x for x in runs if not x["race"] and x["rc"] not in (0, 4, 5)]
    cmd = lambda x: "GORACE=halt_on_error=1 %s%s %s   # built by ./check C14 with go build -race against %s" % (
        ("GOMAXPROCS=%d " % x["procs"] if x.get("procs") else ""), wexe, " ".join(x["args"]), core.REPO)
    if raced:
        x = raced[0]
        path = core.write_replay(ID, {
            "property": ID, "kind": "data-race",
            "what": "the Go race detector reported a data race between goroutines that share one parser graph, each with its own context, reader and input",
            "detector_report": x["stderr"][:30000], "workload_args": x["args"], "gomaxprocs": x.get("procs"),
            "corpus_case": x.get("corpus"),
            "workload_cmd": cmd(x), "static_obligation_effects_race_free": "holds" if st["race_free"] else "fails",
            "static_obligation_effects_updates_atomic": "holds" if st["updates_atomic"] else "fails",
            "static_conflicts": conflicts[:50], "repo": core.REPO,
            "replay_cmd": "./check %s --replay <this file>" % ID})
        print("VIOLATION property=%s replay=%s" % (ID, path))
        if st["race_free"]:
            core.log("C14: the detector found a race although effects_race_free holds: the extractor or the classification "
                     "table missed an access")
        exit_code, nviol = 1, nviol + 1
    elif cons:
        x = cons[0]
        path = core.write_replay(ID, {
            "property": ID, "kind": "concurrently-constructed-parsers-differ-from-sequentially-constructed",
            "what": "memoized rules constructed by several goroutines at the same moment, combined into one Choice/Any: a rule "
                    "does not recognise its own input although the same grammar constructed sequentially does "
                    "(parsers may also be constructed concurrently)",
            "report": x["result"]["construction"].get("report"), "failures": x["result"]["construction"].get("failures"),
            "workload_args": x["args"], "gomaxprocs": x.get("procs"), "workload_cmd": cmd(x), "corpus_case": x.get("corpus"),
            "static_obligation_effects_updates_atomic": "holds" if st["updates_atomic"] else "fails",
            "static_conflicts": conflicts[:50], "repo": core.REPO, "replay_cmd": "./check %s --replay <this file>" % ID})
        print("VIOLATION property=%s replay=%s" % (ID, path))
        if st["updates_atomic"]:
            core.log("C14: concurrently constructed parsers misbehave although effects_updates_atomic holds")
        exit_code, nviol = 1, nviol + 1
    elif mism:
        x = mism[0]
        path = core.write_replay(ID, {
            "property": ID, "kind": "concurrent-result-differs-from-solo-result",
            "first_mismatch": x["result"].get("first_mismatch"), "mismatches": x["result"].get("mismatches"),
            "static_obligations": {"effects_race_free": hf(st["race_free"]), "effects_updates_atomic": hf(st["updates_atomic"]),
                                   "parse_threads_use_no_atomics": hf(st["solo"])},
            "workload_args": x["args"], "workload_cmd": cmd(x), "static_conflicts": conflicts[:50], "repo": core.REPO,
            "replay_cmd": "./check %s --replay <this file>" % ID})
        print("VIOLATION property=%s replay=%s" % (ID, path))
        exit_code, nviol = 1, nviol + 1
    elif broken:
        x = broken[0]
        problems.append({"kind": "workload-failed", "rc": x["rc"], "stderr": x["stderr"][-3000:], "args": x["args"]})
    if exit_code == 0 and ok and not static_ok:
        path = core.write_replay(ID, {
            "property": ID, "kind": "obligation-broken",
            "obligation": "%s  (work/C14, summary generated from %s)" % (
                " and ".join(([] if st["race_free"] else ["effects_race_free : conflicts program = []"]) +
                             ([] if st["updates_atomic"] else ["effects_updates_atomic : atomic_update_defects program = []"]) +
                             ([] if st["solo"] or not st["race_free"] else
                              ["parse_threads_use_no_atomics : atomic_sites program KParse = [] (hence C14_program_parse_same_as_alone: "
                               "code reachable from Parse/Evaluate accesses state shared between parses through sync/atomic; no data race, "
                               "but the runs share mutable state and 'same result as when executed alone' is not proved)"])), core.REPO),
            "undischarged_obligations": st["undischarged"],
            "conflicting_sites": conflicts[:100], "coq_log": (st.get("check_log", "") + st.get("atomic_log", "") + st.get("solo_log", ""))[-3000:],
            "search": "race workload found no detector report in %d runs: %s" % (len(runs), [x["args"] for x in runs]),
            "problems": problems, "repo": core.REPO})
        print("VIOLATION property=%s replay=%s no-failing-input-found" % (ID, path))
        exit_code, nviol = 1, nviol + 1
    elif exit_code == 0 and problems:
        path = core.write_replay(ID, {"property": ID, "kind": "obligation-broken", "problems": problems})
        print("VIOLATION property=%s replay=%s no-failing-input-found" % (ID, path))
        exit_code, nviol = 1, nviol + 1
    for f in core.known_findings(ID):
        core.log("C14: known finding listed: %s" % f["what"])
    # (e) evidence
    total_runs = sum((x["result"] or {}).get("runs", 0) for x in runs)
    last = max((x["result"] for x in runs if x["result"]), key=lambda r: r.get("jobs", 0), default={}) or {}
    gen_names = st["discharged"] + st["undischarged"]
    cov = {
        "obligations": max(1, len(pr["theorems"])) + len(gen_names),
        "discharged": (pr["closed"] + len(pr["axioms"]) if pr["ok"] else 0) + len(st["discharged"]),
        "theorems": pr["theorems"] + ["generated:" + n for n in gen_names],
        "generated_obligations_undischarged": st["undischarged"],
        "print_assumptions": ["Closed under the global context"] * pr["closed"] + pr["axioms"] + st["assumptions"],
        "checker_cmd": ("make -C coq -j16 Race.vo RaceProofs.vo Props/C14.vo && coqc -Q coq Parsley coq/Props/C14.v && "
                        "work/C14/effects $VERIF_REPO work/C14/Effects.v && cd work/C14 && for f in Effects EffectsCheck EffectsCheckAtomic EffectsCheckSolo; "
                        "do coqc -Q ../../coq Parsley -Q . C14gen $f.v; done"),
        "trusted_base": TRUSTED,
        "evaluations": total_runs,
        "distinct_nontrivial": last.get("distinct_nontrivial", 0),
        "rule": RULE,
        "streams": {"concurrent-parse-and-construct": total_runs},
        "samples": last.get("samples", []),
        "workload": [{"args": x["args"], "corpus": x.get("corpus"), "rc": x["rc"], "race_report": x["race"],
                      "construction": (x["result"] or {}).get("construction"),
                      "mismatches": (x["result"] or {}).get("mismatches"), "runs": (x["result"] or {}).get("runs")} for x in runs],
        "extractor": st["stats"],
        "static_conflicts": conflicts[:50],
        "unclassified_types": st.get("unclassified"),
        "oracle_violations": nviol,
        "model_vs_implementation_disagreements": 0,
        "exhaustive": False,
    }
    core.write_evidence(ID, tier, seed, cov, ASSUMPTIONS, time.time() - t0, nviol)
    core.log("C14: %d concurrent runs, %d/%d obligations discharged, %d violations, %.1fs" % (
        total_runs, cov["discharged"], cov["obligations"], nviol, time.time() - t0))
    return exit_code
