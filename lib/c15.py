"""C15 — IntSet and IntMap are persistent (correct values, never mutated in place)."""
import re

ID = "C15"
SUBCMD = "c15"
IMPORTS = ["GoHeap", "DataHeap"]
HARNESS = "c15_harness"
COQ_TARGETS = ["GoHeap.vo", "DataHeap.vo", "DataProofs.vo", "Props/C15.vo"]
CORRESPONDENCE = ("c15_expected (DataHeap.v: heap model of data/intset.go and data/intmap.go, every value re-read "
                  "after every step) = implementation")
RULE = ("a case is a history of NewIntSet/Insert/Union/Len/Each/NewIntMap/Inc/Filter/Get/Keys/Each whose arguments "
        "are indices of earlier results (0 = EmptyIntSet, 1 = EmptyIntMap); after every step every value produced so "
        "far is read back (Len/Each; sorted Each/Keys + Get on probe keys) and compared with its previous read: the "
        "observation lists the new value and every older value whose read changed; non-trivial = at least one "
        "constructor operation is applied to a value produced by an earlier operation of the same history; "
        "distinct = distinct case text")
TRUSTED = ["Coq 8.16.1 kernel and vm_compute",
           "hand-written heap model coq/GoHeap.v + coq/DataHeap.v, tied to the code by this differential run",
           "Go driver harness/c15.go (reads values back through Len/Each/Keys/Get only)", "lib/core.py orchestration"]
ASSUMPTIONS = ["Go ints do not overflow (Z in the model)",
               "append reallocates to some capacity >= len+1 chosen by an arbitrary function (all theorems are for every such function)",
               "range over a map visits every entry exactly once in an arbitrary order (all theorems are for every order)",
               "the map handed to NewIntMap is not touched by the caller afterwards (the driver passes a fresh map)",
               "no garbage collection effects: backing arrays and maps keep their identity",
               "single goroutine"]
# thorough: ALL histories of length <= 3 over the reduced full alphabet (6 NewIntSet argument lists incl. duplicates
# and unsorted, Insert/Inc of 0..3, every Union/Filter pair, 3 NewIntMap arguments) and ALL histories of length <= 4
# over the two core alphabets; quick: length <= 2 complete, length 3 sampled.  Not the 'length 5 over {0..3}' of
# DESIGN.md: that is ~10^9 histories (see notes/C15.md).
EXHAUSTIVE = {"quick": False, "thorough": True}

NEWSETS = [[], [2], [1, 1, 3], [3, 1], [0, 2, 1], [3, 3]]
NEWMAPS = [None, [(1, 1)], [(0, 2), (3, 1)]]
DOM = [0, 1, 2, 3]


def zl(x):
    return "z %d" % x if x >= 0 else "z (%d)" % x


def zarg(x):
    return "%d" % x if x >= 0 else "(%d)" % x


def op_text(o):
    k = o[0]
    if k == "OpNewSet":
        return "OpNewSet [%s]" % "; ".join(zl(v) for v in o[1])
    if k == "OpNewMap":
        return "OpNewMap [%s]" % "; ".join("(%s, %s)" % (zl(a), zl(b)) for a, b in o[1])
    if k == "OpNewMapNil":
        return k
    if k in ("OpInsert", "OpInc", "OpGet"):
        return "%s %d %s" % (k, o[1], zarg(o[2]))
    if k in ("OpUnion", "OpFilter"):
        return "%s %d %d" % (k, o[1], o[2])
    return "%s %d" % (k, o[1])


def case_text(probes, ops):
    return "C15 [%s] [%s]" % ("; ".join(zl(p) for p in probes), "; ".join(op_text(o) for o in ops))


def kind_after(o):
    """kind of the value an op adds ('S', 'M') or None for a read"""
    return {"OpNewSet": "S", "OpInsert": "S", "OpUnion": "S", "OpNewMapNil": "M", "OpNewMap": "M", "OpInc": "M",
            "OpFilter": "M"}.get(o[0])


def choices(kinds, newsets, newmaps, ins, inc):
    """all constructor operations applicable in a state with the given value kinds"""
    sets = [i for i, k in enumerate(kinds) if k == "S"]
    maps = [i for i, k in enumerate(kinds) if k == "M"]
    out = [("OpNewSet", vs) for vs in newsets]
    out += [("OpInsert", i, v) for i in sets for v in ins]
    out += [("OpUnion", i, j) for i in sets for j in sets]
    out += [("OpNewMapNil",) if kv is None else ("OpNewMap", kv) for kv in newmaps]
    out += [("OpInc", i, k) for i in maps for k in inc]
    out += [("OpFilter", i, j) for i in maps for j in sets]
    return out


def enumerate_histories(n, alphabet, kinds=("S", "M"), prefix=()):
    """all histories of length exactly n over the alphabet (newsets, newmaps, ins, inc)"""
    if n == 0:
        yield list(prefix)
        return
    for o in choices(kinds, *alphabet):
        yield from enumerate_histories(n - 1, alphabet, kinds + (kind_after(o),), prefix + (o,))


FULL = (NEWSETS, NEWMAPS, DOM, DOM)              # the reduced "full" alphabet
SETCORE = ([[1, 1, 3]], [], [0, 2], [])            # spare capacity + inserts + unions
MAPCORE = ([[3, 0]], [[(0, 2), (3, 1)]], [], [0, 1])  # maps, Inc, Filter by a non-empty / the empty set


def random_history(rng, length, dom):
    kinds = ["S", "M"]
    ops = []
    for _ in range(length):
        sets = [i for i, k in enumerate(kinds) if k == "S"]
        maps = [i for i, k in enumerate(kinds) if k == "M"]

        def pick(ix):
            # old values and recent values both matter: an old value must survive many later operations
            r = rng.random()
            if r < 0.35:
                return ix[-1]
            if r < 0.5:
                return ix[0]
            return rng.choice(ix)
        w = rng.random()
        if w < 0.10:
            o = ("OpNewSet", [rng.choice(dom) for _ in range(rng.choice([0, 1, 2, 3, 3, 4, 6]))])
        elif w < 0.38:
            o = ("OpInsert", pick(sets), rng.choice(dom))
        elif w < 0.52:
            o = ("OpUnion", pick(sets), pick(sets))
        elif w < 0.55:
            o = ("OpLen", pick(sets))
        elif w < 0.58:
            o = ("OpEachS", pick(sets))
        elif w < 0.60:
            o = ("OpNewMapNil",)
        elif w < 0.65:
            o = ("OpNewMap", [(rng.choice(dom), rng.choice([0, 1, 2, 5, -1])) for _ in range(rng.choice([0, 1, 2, 4]))])
        elif w < 0.82:
            o = ("OpInc", pick(maps), rng.choice(dom))
        elif w < 0.92:
            o = ("OpFilter", pick(maps), pick(sets))
        elif w < 0.95:
            o = ("OpGet", pick(maps), rng.choice(dom))
        elif w < 0.98:
            o = ("OpKeys", pick(maps))
        else:
            o = ("OpEachM", pick(maps))
        ops.append(o)
        k = kind_after(o)
        if k:
            kinds.append(k)
    return ops


def well_formed(ops):
    """every index refers to an existing value of the right kind (the oracle makes no claim otherwise)"""
    kinds = ["S", "M"]
    want = {"OpInsert": "S", "OpUnion": "SS", "OpLen": "S", "OpEachS": "S", "OpInc": "M", "OpFilter": "MS",
            "OpGet": "M", "OpKeys": "M", "OpEachM": "M"}
    for o in ops:
        for pos, k in enumerate(want.get(o[0], "")):
            i = o[1 + pos]
            if not (0 <= i < len(kinds) and kinds[i] == k):
                return False
        k = kind_after(o)
        if k:
            kinds.append(k)
    return True


def generate(rng, tier):
    out = []
    probes = [0, 1, 2, 3, 4]
    quick = tier == "quick"

    def add(ops, stream, pr=probes):
        assert well_formed(ops), ops
        out.append((case_text(pr, ops), {"stream": stream}))
    # 1. exhaustive over the reduced full alphabet
    for n in (0, 1, 2):
        for h in enumerate_histories(n, FULL):
            add(h, "enumerated-full-len%d" % n)
    len3 = list(enumerate_histories(3, FULL))
    if quick:
        for h in rng.sample(len3, 3000):
            add(h, "sampled-full-len3")
    else:
        for h in len3:
            add(h, "enumerated-full-len3")
    # 2. exhaustive over the two core alphabets, one step deeper
    deep = 3 if quick else 4
    for name, alpha in (("setcore", SETCORE), ("mapcore", MAPCORE)):
        for n in range(1, deep + 1):
            for h in enumerate_histories(n, alpha):
                add(h, "enumerated-%s-len%d" % (name, n))
    # 3. random walks over the full alphabet, length 4..6
    for _ in range(600 if quick else 3000):
        n = rng.choice([4, 5, 6])
        kinds = ("S", "M")
        h = []
        for _ in range(n):
            o = rng.choice(choices(kinds, *FULL))
            h.append(o)
            kinds = kinds + (kind_after(o),)
        add(h, "random-small")
    # 3b. a value with slack (duplicates in the constructor, an overlapping union, inserts) extended twice in different
    #     ways: every way of building the base x every ordered pair of extensions (an extension that appends in place
    #     where it sees spare capacity makes the second extension rewrite the first one's result)
    bases = [[("OpNewSet", [1, 1, 3])], [("OpNewSet", [1, 2]), ("OpNewSet", [2, 3]), ("OpUnion", 2, 3)],
             [("OpNewSet", [1, 3]), ("OpUnion", 2, 2)], [("OpNewSet", [3, 1, 2, 2, 1])],
             [("OpNewSet", [1]), ("OpInsert", 2, 2), ("OpInsert", 3, 3)], [("OpNewSet", [0, 1, 2]), ("OpNewSet", [1, 2, 3]), ("OpUnion", 3, 2)]]
    for b in bases:
        base = 1 + len(b)                       # index of the base value
        exts = [("S", [5]), ("S", [7]), ("S", [6, 8]), ("I", 4), ("I", 9), ("S", [3, 5]), ("I", 0)]
        for e1 in exts:
            for e2 in exts:
                if e1 == e2:
                    continue
                h = list(b)
                for e in (e1, e2):
                    if e[0] == "S":
                        h.append(("OpNewSet", e[1]))
                        h.append(("OpUnion", base, 1 + len(h)))
                    else:
                        h.append(("OpInsert", base, e[1]))
                h.append(("OpEachS", base))
                add(h, "slack-then-two-extensions", [0, 1, 2, 3, 5])
    # 4. random long histories over a larger domain, reads included
    dom = list(range(-2, 10))
    for _ in range(120 if quick else 600):
        n = rng.choice([8, 15, 25, 40])
        pr = sorted(set(rng.choice(dom) for _ in range(3))) + [11]
        add(random_history(rng, n, dom), "random-long", pr)
    return out


_APPLIED = re.compile(r"Op(?:Insert|Union|Inc|Filter) (\d+)(?: (\d+))?")


def nontrivial(case_text_, obs, meta):
    for m in _APPLIED.finditer(case_text_):
        if int(m.group(1)) >= 2:
            return True
        if m.group(0).startswith(("OpUnion", "OpFilter")) and m.group(2) and int(m.group(2)) >= 2:
            return True
    return False


def distribution(cases, obs):
    ops = {}
    lengths = {}
    for c, _ in cases:
        names = re.findall(r"Op[A-Za-z]+", c)
        for n in names:
            ops[n] = ops.get(n, 0) + 1
        b = "%d-%d" % (len(names) // 5 * 5, len(names) // 5 * 5 + 4)
        lengths[b] = lengths.get(b, 0) + 1
    return {"operations": ops, "history_length": lengths,
            "observations_with_panic_or_crash": sum(1 for o in obs if "Panic" in o or "Crash" in o or "Timeout" in o),
            "text_bytes": sum(len(c) for c, _ in cases) + sum(len(o) for o in obs)}


MANIFEST = {
    "technique": ("Rocq proof that a statement-by-statement heap model of IntSet/IntMap (slices with shared backing "
                  "arrays, append in place iff len<cap, arbitrary growth; maps as heap objects, arbitrary iteration "
                  "order) simulates pure sets/maps for every history + differential run of that model against the Go "
                  "code, re-reading every value after every step"),
    "text": ("Theorems C15_* (coq/Props/C15.v): for every history whose indices refer to existing values of the right "
             "kind, every growth function and every map iteration order, the heap model never panics, every operation "
             "returns the value the abstract set/map operation gives, sets are strictly ascending, and every value "
             "returned earlier still abstracts to what it did when returned (operations write only into arrays and maps "
             "they allocated themselves). The pre-fix Insert is modelled too and refuted by vm_compute on "
             "NewIntSet(1,1,3).Insert(2). The check runs histories on the real package and compares the re-read "
             "contents of all values after every step with the abstract machine (oracle) and the heap model."),
    "note": ("Trusted: Coq kernel + vm_compute; the hand-written heap model (validated by the differential run only "
             "on generated histories); Go driver; Go ints unbounded; no GC effects; single goroutine."),
    "ref": "DESIGN.md section 6, C15",
}
