"""C06 — engine property check (see DESIGN.md section 6, C06)."""
from engcommon import *          # noqa: F401,F403
import engcommon

ID = "C06"
HARNESS = "c06_harness"
COQ_TARGETS = engcommon.COQ_BASE + ["Props/C06.vo"]
DEV = True
FAST = 6
