"""C06 — engine property check (see DESIGN.md section 6, C06)."""
from engcommon import *          # noqa: F401,F403
import engcommon

ID = "C06"
HARNESS = "c06_harness"
COQ_TARGETS = engcommon.COQ_BASE + ["Props/C06.vo"]
FAST = 6


def classify_known(case, meta, finding):
    """K2 / K2b: any violation on a grammar with an unproductive rule is attributed to the known finding"""
    return finding["id"] in ("K2", "K2b") and str(meta.get("unproductive", "")) in ("True", "1")


def generate(rng, tier):
    # the C06 oracle searches (position, expectation) candidates per case: smaller volume than the other engine checks
    if tier == "quick":
        return engcommon.generate(rng, "quick", enum_size=4, enum_len=3, sample5=300, n_random=600, named_share=0.5) + \
            engcommon.error_cases(rng, 700)
    return engcommon.generate(rng, "quick", enum_size=5, enum_len=4, sample5=2000, n_random=6000, named_share=0.5) + \
        engcommon.error_cases(rng, 8000)


MANIFEST = {
    "technique": "Rocq invariant proofs over the engine model (every error in play is justified by a logged failed attempt; coverage invariant for productive grammars) + rendering via C11; the implementation's error text is decoded and checked against its own failed-attempt log",
    "text": ("Props/C06.v: C06_not_beyond, C06_expectation_real (all trim-free grammars, with the two honest exception clauses), "
             "C06_guarded, C06_furthest (equality under productivity + guardedness; naming not even needed), C06_render (text format with "
             "C11's line:column), and the refutations documenting known findings K2/K2b (unproductive rules). The check wraps every "
             "terminal and End of the real engine to log failed attempts, parses with a Sentence root, and requires the reported text to "
             "be 'failed to parse the input: <expectation> at f:<line>:<col>' for a position not beyond (named grammars: equal to) the "
             "furthest failed attempt with an expectation that failed there or a Name of the grammar."),
    "note": "Trusted: as C01. Known findings K2, K2b (grammars with an unproductive rule) are listed in known_findings.txt and matched narrowly (the grammar has an unproductive rule). SuppressError removes errors by design and is excluded from the equality claim.",
    "ref": "DESIGN.md section 6, C06",
}
