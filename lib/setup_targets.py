#!/usr/bin/env python3
"""Prints the .vo targets needed by the properties listed in lib/ready.txt (used by setup.sh)."""
import importlib, os, sys
ROOT = os.path.dirname(os.path.dirname(os.path.abspath(__file__)))
sys.path.insert(0, os.path.join(ROOT, "lib"))
t = []
for pid in open(os.path.join(ROOT, "lib", "ready.txt")).read().split():
    m = importlib.import_module(pid.lower())
    for x in getattr(m, "COQ_TARGETS", []):
        if x not in t:
            t.append(x)
print(" ".join(t))
