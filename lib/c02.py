"""C02 — engine property check (see DESIGN.md section 6, C02)."""
from engcommon import *          # noqa: F401,F403
import engcommon
engcommon.TRIM_FAMILIES = True     # left recursion through trims of every mode

ID = "C02"
HARNESS = "c02_harness"
COQ_TARGETS = engcommon.COQ_BASE + ["Props/C02.vo"]

MANIFEST = {'technique': 'Rocq proofs of termination with an explicit polynomial fuel (recursion depth) bound and of the activation bound remaining+2, for all grammars; differential run of activation logs against probes inside Memoize; crash/timeout detection', 'text': "Props/C02.v: C02_activation_bound (every grammar, no hypotheses: no Memoize body is active more than remaining+2 times at a position), C02_terminates and C02_terminates_bound (memoized recursive nonterminals + consuming repetition operands: every run finishes within fuel (len+1)((|K|(len+2)+1)(Sz+1)), which bounds the Go recursion depth), C02_old_rule_breaks_inv (sensitivity to the repaired defect). The check compares the model's activation log with probes placed inside every Memoize of the real engine and treats a fatal stack overflow or a stall of the Go process as a violation.", 'note': "Trusted: as C01; Go's stack limit itself is not modelled (the theorem bounds the recursion depth).", 'ref': 'DESIGN.md section 6, C02'}
RULE = ("all one-rule monotone grammars up to a node bound x all inputs over {a,b} up to a length bound (enumerated), plus random "
        "grammars over all combinators, named and unnamed; non-trivial = non-empty root result or failing Sentence parse; "
        "distinct = distinct case text")
CORRESPONDENCE = "engine model (coq/Engine.v, eng_expected) = implementation on the projection of this property"
FAST = 2
