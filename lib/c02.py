"""C02 — engine property check (see DESIGN.md section 6, C02)."""
from engcommon import *          # noqa: F401,F403
import engcommon

ID = "C02"
HARNESS = "c02_harness"
COQ_TARGETS = engcommon.COQ_BASE + ["Props/C02.vo"]
DEV = True    # until Props/C02.v exists
