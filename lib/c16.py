"""C16 — the example JSON parser agrees with encoding/json on the supported subset."""
import os
import re

ID = "C16"
SUBCMD = "c16"
IMPORTS = ["Literals", "JsonSpec", "Json"]
HARNESS = "c16_engine_harness"
COQ_TARGETS = ["JsonSpec.vo", "JsonSpecProofs.vo", "Json.vo", "JsonProofs.vo", "Props/C16.vo"]
CORRESPONDENCE = ("c16_model (Json.json_eval: the engine model Top.evaluate on the example grammar as a pexpr term) = "
                  "parsley.Evaluate(Sentence(Trim(json.NewParser()))) on value-or-error; oracle: JsonSpec.spec_parse (direct "
                  "specification) = parsley on every input, = encoding/json (UseNumber) on json_subset; the parser built "
                  "from the same pexpr term = json.NewParser()")
RULE = ("structured documents (nesting <= 5, empty containers, duplicate and empty keys, unicode, every escape, int64 "
        "edges, decimals with exponents up to the float64 range edge) rendered under five whitespace policies (none, "
        "legal for the grammar's modes, any JSON whitespace anywhere, form feed / other blanks, CRLF); grammar-specific "
        "lexemes (hex, octal, '+', leading '.', Go escapes, raw control bytes) and JSON-only lexemes (\\/, surrogates, "
        "exponent without fraction, newline before ',' or ':'); every whitespace byte inserted at every position of fixed "
        "documents; truncations at every length, one-byte deletions / duplications / replacements, missing separators, "
        "trailing input, invalid UTF-8. non-trivial = at least one of the two parsers returns a value, or the document "
        "is a corruption of a document both accept; distinct = distinct case text")
TRUSTED = ["Coq 8.16.1 kernel and vm_compute",
           "the engine model coq/Engine.v + coq/Top.v (shared with C01-C06/C12/C17, validated by ./check ENG) and the "
           "grammar term coq/Json.v, tied to the example parser by this differential run and by the driver's comparison of "
           "the parser built from that term with json.NewParser()",
           "the specification coq/JsonSpec.v (spec_parse, json_subset): proved equal to the engine model on the grammar "
           "term (Props/C16.v part II); tied to encoding/json only by this run",
           "the C08 literal specifications of coq/Literals.v (proved equal to the model of text/terminal in LiteralProofs.v)",
           "Go's encoding/json and strconv.ParseFloat as reference oracles",
           "Go driver harness/c16.go + harness/eng.go's builder", "lib/core.py orchestration"]
ASSUMPTIONS = ["bytes are < 256",
               "strconv.ParseFloat fails on a lexeme of the Float expression exactly when the exactly rounded value is "
               "infinite (float_overflow; checked against Go on every float lexeme of every generated document)",
               "float values are compared as math.Float64bits computed by Go on both sides; the specification keeps lexemes",
               "nesting depth is far below Go's stack limit and encoding/json's depth limit (10000)"]
EXHAUSTIVE = {"quick": False, "thorough": False}
STALL = 60


def lst(xs):
    return "[" + "; ".join(str(x) for x in xs) + "]"


def case(doc):
    return "C16 %s" % lst(doc)


# ----------------------------------------------------------------------
# lexemes

STD_PLAIN = [b"a", b"b", b"Z", b"0", b" ", b"_", b"-", b":", b",", b"[", b"]", b"{", b"}", b"/", b"'", b"e", b".",
             b"\xc3\xa9", b"\xe2\x82\xac", b"\xf0\x9f\x98\x80", b"\xef\xbf\xbd", b"\x7f", b"true", b"\xc2\x80", b"\xed\x9f\xbf"]
STD_ESC = [b'\\"', b"\\\\", b"\\b", b"\\f", b"\\n", b"\\r", b"\\t", b"\\u0041", b"\\u00e9", b"\\u20AC", b"\\u0000",
           b"\\uFFFD", b"\\uffff", b"\\ud7ff", b"\\ue000", b"\\u0022", b"\\u005c", b"\\u000A"]
GO_ONLY = [b"\\a", b"\\v", b"\\x41", b"\\xff", b"\\x00", b"\\U0001F600", b"\\U00000041", b"\\101", b"\\377", b"\\000",
           b"\t", b"\x01", b"\x1f", b"\x0b", b"\x0c", b"\x00", b"\xff", b"\xc3", b"\xe2\x82", b"\x80", b"\xc0\xaf",
           b"\xed\xa0\x80", b"\xf4\x90\x80\x80", b"\xf0\x9f\x98"]
JSON_ONLY = [b"\\/", b"\\ud83d\\ude00", b"\\ud800", b"\\udc00x", b"\\uD834\\uDD1E", b"\\ud800\\u0041"]
BAD_STR = [b"\\q", b"\\u12", b"\\u12G4", b"\\x4", b"\\xG1", b"\\8", b"\\400", b"\\U00110000", b"\\U0000D800", b"\\'",
           b"\n", b"\r", b"\r\n", b"\\", b"\\u", b"\\1", b"\\12"]


def gen_string(rng, flavour):
    n = rng.choice([0, 0, 1, 1, 2, 3, 5, 8])
    items = []
    for _ in range(n):
        r = rng.random()
        if r < 0.55:
            items.append(rng.choice(STD_PLAIN))
        else:
            items.append(rng.choice(STD_ESC))
    if flavour == "go" and rng.random() < 0.5:
        items.insert(rng.randrange(len(items) + 1), rng.choice(GO_ONLY))
    elif flavour == "json" and rng.random() < 0.4:
        items.insert(rng.randrange(len(items) + 1), rng.choice(JSON_ONLY))
    elif flavour == "bad" and rng.random() < 0.3:
        items.insert(rng.randrange(len(items) + 1), rng.choice(BAD_STR))
    return b'"' + b"".join(items) + b'"'


INT_EDGES = [0, 1, -1, 7, 10, 42, 100, 255, 1 << 31, -(1 << 31), (1 << 53) + 1, (1 << 63) - 1, -(1 << 63), (1 << 63) - 2,
             -(1 << 63) + 1]
INT_OUT = [1 << 63, (1 << 63) + 1, -(1 << 63) - 1, -(1 << 63) - 2, 1 << 64, (1 << 64) + 1, 10 ** 19, -10 ** 19, 10 ** 30]
STD_DEC = [b"0.0", b"-0.0", b"0.5", b"1.5", b"-1.25", b"3.14159", b"10.0", b"100.001", b"1.0e0", b"1.5e3", b"1.5E3",
           b"2.5e+3", b"2.5e-3", b"-2.5E-3", b"1.0e308", b"1.7976931348623157e308", b"1.7976931348623158e308",
           b"1.7976931348623158079e308", b"4.9e-324", b"2.4e-324", b"2.5e-324", b"1.0e-400", b"0.0e999", b"-0.0e-999",
           b"123456789012345678901234567890.123456789", b"0.000000000000000000000000000001", b"9007199254740993.0",
           b"0.1", b"0.2", b"0.30000000000000004", b"1.0e-5", b"1.00e05", b"5.0e-324", b"2.2250738585072011e-308",
           b"179769313486231570814527423731704356798070567525844996598917476803157260780028538760589558632766878"
           b"171540458953514382464234321326889464182768467546703537516986049910576551282076245490090389328944075"
           b"868508455133942304583236903222948165808559332123348274797826204144723168738177180919299881250404026"
           b"184124858368.0"]
OVER_DEC = [b"1.0e309", b"1.797693134862315808e308", b"1.8e308", b"-1.8e308", b"1.0e999", b"17976931348623158.1e292",
            b"0.1e310", b"1.0e400", b"-2.0e308", b"1.0e99999999999999999999",
            b"179769313486231580793728971405303415079934132710037826936173778980444968292764750946649017977587207"
            b"096330286416692887910946555547851940402630657488671505820681908902000708383676273854845817711531764"
            b"475730270069855571366959622842914819860834936475292719074168444365510704342711559699508093042880177"
            b"904174497792.0"]
GO_NUM = [b"0x10", b"0X1f", b"0xABCDEF", b"0x7fffffffffffffff", b"-0x8000000000000000", b"010", b"00", b"-01", b"0777",
          b"0007", b"+1", b"+0", b"+9223372036854775807", b".5", b"-.5", b"+.5", b"+1.5", b".5e1", b"00.5", b"09.5",
          b"-08.25e1", b"01.5", b"007.0", b"+0.0", b"-.0e-0"]
JSON_NUM = [b"1e5", b"1E5", b"1e+5", b"0e0", b"-1e-2", b"12E3", b"1e400"]
BAD_NUM = [b"1.", b"1.e5", b"0x", b"08", b"09", b"-", b"+", b"1.5.2", b"1.5e", b"1.5e+", b"0x1.8", b"0xG", b"1x", b"1_000",
           b"0b101", b"0o17", b"--1", b"+-1", b"1-", b"1.5f", b".", b"-.", b"0x8000000000000000", b"01777777777777777777777",
           b"NaN", b"Infinity", b"-Infinity", b"1,5"]
STD_WORDS = [b"true", b"false", b"null"]
BAD_WORDS = [b"truex", b"nullx", b"falsey", b"True", b"NULL", b"nul", b"tru", b"true_", b"null1", b"nil", b"truefalse",
             b"undefined", b"t", b"n"]


def gen_scalar(rng, flavour):
    r = rng.random()
    if r < 0.30:
        return gen_string(rng, flavour)
    if r < 0.55:
        if flavour == "go" and rng.random() < 0.5:
            return rng.choice(GO_NUM)
        if flavour == "json" and rng.random() < 0.3:
            return rng.choice(JSON_NUM + [str(x).encode() for x in INT_OUT] + OVER_DEC)
        if flavour == "bad" and rng.random() < 0.3:
            return rng.choice(BAD_NUM)
        if rng.random() < 0.5:
            return str(rng.choice(INT_EDGES + [rng.randrange(-1000, 1000), rng.randrange(-1 << 63, 1 << 63)])).encode()
        return rng.choice([b"-0", b"0", b"5", b"-7"])
    if r < 0.80:
        if flavour == "json" and rng.random() < 0.2:
            return rng.choice(OVER_DEC)
        if rng.random() < 0.7:
            return rng.choice(STD_DEC)
        # random decimal
        s = rng.choice([b"", b"-"]) + str(rng.randrange(0, 10 ** rng.choice([1, 3, 17, 25]))).encode() + b"." + \
            b"".join(rng.choice(b"0123456789").to_bytes(1, "big") for _ in range(rng.choice([1, 2, 5, 20])))
        if rng.random() < 0.5:
            s += rng.choice([b"e", b"E"]) + rng.choice([b"", b"+", b"-"]) + str(rng.choice([0, 1, 5, 22, 300, 307, 308, 309, 330])).encode()
        return s
    if flavour == "bad" and rng.random() < 0.4:
        return rng.choice(BAD_WORDS)
    return rng.choice(STD_WORDS)


# ----------------------------------------------------------------------
# documents: trees ("s", bytes) | ("a", [trees]) | ("o", [(keybytes, tree)])

def gen_tree(rng, depth, flavour):
    r = rng.random()
    if depth <= 0 or r < 0.35:
        return ("s", gen_scalar(rng, flavour))
    n = rng.choice([0, 0, 1, 1, 2, 2, 3, 4])
    if r < 0.68:
        return ("a", [gen_tree(rng, depth - 1, flavour) for _ in range(n)])
    members = []
    for _ in range(n):
        if members and rng.random() < 0.25:
            k = rng.choice(members)[0]                       # duplicate key
        elif rng.random() < 0.15:
            k = b'""'                                         # empty key
        else:
            k = gen_string(rng, flavour if rng.random() < 0.3 else "std")
        members.append((k, gen_tree(rng, depth - 1, flavour)))
    return ("o", members)


WS = {
    "none": {"nl": [b""], "sp": [b""]},
    "legal": {"nl": [b"", b"", b" ", b"\n", b"\r\n", b" \n  ", b"\t", b"\n\n", b"  ", b"\r\n\t"],
              "sp": [b"", b"", b" ", b"\t", b"  ", b" \t "]},
    "json": {"nl": [b"", b" ", b"\n", b"\r\n", b"\r", b"\t", b" \r "],
             "sp": [b"", b"", b"", b" ", b"\n", b"\r\n", b"\r", b"\t", b" \n "]},
    "ff": {"nl": [b"", b" ", b"\x0c", b"\n\x0c", b"\x0b", b"\xc2\xa0", b"\x0c ", b"\xe2\x80\xa8"],
           "sp": [b"", b"", b" ", b"\x0c", b"\x0b", b" \x0c"]},
    "crlf": {"nl": [b"\r\n", b"\r\n  ", b" ", b""], "sp": [b"", b" "]},
}


def render(rng, t, pol):
    """value without surrounding whitespace"""
    w = WS[pol]

    def nl():
        return rng.choice(w["nl"])

    def sp():
        return rng.choice(w["sp"])
    if t[0] == "s":
        return t[1]
    if t[0] == "a":
        out = b"["
        for i, e in enumerate(t[1]):
            if i:
                out += sp() + b","
            out += nl() + render(rng, e, pol)
        return out + nl() + b"]"
    out = b"{"
    for i, (k, e) in enumerate(t[1]):
        if i:
            out += sp() + b","
        out += nl() + k + sp() + b":" + nl() + render(rng, e, pol)
    return out + nl() + b"}"


def render_doc(rng, t, pol):
    w = WS[pol]
    return rng.choice(w["nl"]) + render(rng, t, pol) + rng.choice(w["nl"])


FIXED = [
    b'{"a":[1,2.5,"x"],"b":{"c":null,"d":true},"a":false}',
    b'[{"k":[]},{},[[]],"",0,-0,0.0]',
    b'{"":"","":1}',
    b'[1,2]', b'{"a":1,"b":2}', b'[]', b'{}', b'[[]]', b'[{}]', b'{"a":{}}', b'{"a":[]}', b'""', b'0', b'null', b'true', b'false',
    b'[[[[[[1]]]]]]', b'{"a":{"a":{"a":{"a":{"a":{}}}}}}',
    b'[1,]', b'[,1]', b'[1,,2]', b'[,]', b'{"a":1,}', b'{,"a":1}', b'{"a":1,,"b":2}', b'{"a"}', b'{"a":}', b'{:1}', b'{1:2}',
    b'{"a" 1}', b'[1 2]', b'[1:2]', b'{"a":1:2}', b'{"a":1 "b":2}', b'{true:1}', b'{null:1}', b'{"a":1;"b":2}', b"{'a':1}",
    b'[1', b'[', b'{', b'{"a"', b'{"a":', b'{"a":1', b']', b'}', b'[]]', b'{}}', b'[}', b'{]', b'[1}', b'{"a":1]',
    b'', b' ', b'\n', b'1 2', b'1,2', b'[] []', b'{} x', b'null null', b'nulltrue', b'"a" "b"', b'"a""b"',
    b'"abc', b'"', b'"\\"', b'["a', b'{"a', b'"a\nb"', b'"a\r\nb"', b'"a\rb"', b'"a\tb"',
    b'\xef\xbb\xbf[]', b'[\xc2\xa0]', b'[1]\x00', b'\x00', b'//c\n1', b'/*c*/1', b'[1]//c',
    b'[1\n,2]', b'[1,\n2]', b'{"a"\n:1}', b'{"a":\n1}', b'{\n"a":1\n}', b'[\n]', b'{\n}', b'[1\n]', b'\n[1]\n',
    b'[1\r\n,2]', b'[1\x0c,2]', b'[1,\x0c2]', b'[1\x0c]', b'\x0c1', b'1\x0c', b'[1 ,2]', b'[1\t,\t2]', b'{"a" : 1}', b'{"a"\t:\t1}',
    b'[1\r,2]', b'\r1', b'1\r', b'[1,\r2]', b'[\r\n1\r\n]',
    b'[09.5]', b'09.5', b'[08.5,1]', b'{"a":07.5}', b'1.5', b'[1.5]', b'-1.5e-3', b'0x10', b'[0x10,010]', b'+1', b'.5', b'[.5,-.5,+.5]',
    b'1e5', b'[1e5]', b'"\\/"', b'"\\u00e9\xc3\xa9"', b'"\\ud83d\\ude00"', b'"\\ud800"', b'"\\a\\v"', b'"\\x41"', b'"\t"',
    b'truex', b'nullx', b'[true,false,null]', b'[truex]', b'[true false]', b'tru', b'[nul]', b'true_',
    b'9223372036854775807', b'9223372036854775808', b'-9223372036854775808', b'-9223372036854775809', b'[18446744073709551616]',
    b'1.0e308', b'1.0e309', b'[1.0e309]', b'1.7976931348623158079e308', b'1.797693134862315808e308', b'0.0e999999999999',
    b'\xff', b'"\xff"', b'"\xc3"', b'["\xe2\x82"]', b'{"\xff":1}', b'"\xed\xa0\x80"',
]
WS_BYTES = [b" ", b"\t", b"\n", b"\r\n", b"\r", b"\x0c", b"\x0b", b"\xc2\xa0"]
WS_HOSTS = [b'{"a":[1,2.5],"b":{"c":null},"d":"x y"}', b'[true,{"k":-1},[],{}]', b'{"a":1,"b":[2,3]}']


def corruptions(rng, doc, how_many):
    out = []
    n = len(doc)
    if n == 0:
        return out
    for _ in range(how_many):
        k = rng.randrange(9)
        i = rng.randrange(n)
        if k == 0:
            out.append(("truncate", doc[:i]))
        elif k == 1:
            out.append(("drop", doc[:i] + doc[i + 1:]))
        elif k == 2:
            out.append(("dup", doc[:i] + doc[i:i + 1] + doc[i:]))
        elif k == 3:
            out.append(("replace", doc[:i] + rng.choice([b",", b":", b"]", b"}", b"[", b"{", b'"', b"\\", b"x", b"0", b" ", b"\n", b".", b"-", b"e", b"\x00", b"\xff", b"\x80"]) + doc[i + 1:]))
        elif k == 4:
            seps = [j for j in range(n) if doc[j:j + 1] in (b",", b":")]
            if seps:
                j = rng.choice(seps)
                out.append(("missing-sep", doc[:j] + rng.choice([b"", b" "]) + doc[j + 1:]))
        elif k == 5:
            out.append(("trailing", doc + rng.choice([b"x", b",", b"]", b"}", b" 1", b"{}", b"[]", b"null", b'"', b"\x00", b" ,", b"\n]", b":"])))
        elif k == 6:
            out.append(("insert", doc[:i] + rng.choice([b",", b"\n", b"\x0c", b"\r", b" ", b'"', b"[", b"]", b"\\", b"0", b".", b"\xc3"]) + doc[i:]))
        elif k == 7:
            # a comma where the grammar has none: before a closing bracket, after an opening one, doubled
            spots = [j for j in range(n) if doc[j:j + 1] in (b"]", b"}")] + \
                    [j + 1 for j in range(n) if doc[j:j + 1] in (b"[", b"{", b",")]
            if spots:
                j = rng.choice(spots)
                out.append(("extra-comma", doc[:j] + rng.choice([b",", b", ", b" ,", b",\n"]) + doc[j:]))
        else:
            q = [j for j in range(n) if doc[j:j + 1] == b'"']
            if q:
                j = rng.choice(q)
                out.append(("unterminated", doc[:j] + doc[j + 1:]))
    return out


def check_grammar_text():
    """the grammar text in harness/c16.go must be the term Coq prints for (json_rules, json_root) of coq/Json.v"""
    import subprocess
    import tempfile
    root = os.path.dirname(os.path.dirname(os.path.abspath(__file__)))
    src = open(os.path.join(root, "harness", "c16.go")).read()
    m = re.search(r"const c16Grammar = `([^`]*)`", src)
    go_text = " ".join(m.group(1).split()) if m else None
    with tempfile.TemporaryDirectory() as d:
        f = os.path.join(d, "c16_grammar.v")
        open(f, "w").write("From Coq Require Import List NArith.\nFrom Parsley Require Import Grammar Json.\nImport ListNotations.\n"
                           "Open Scope N_scope.\nSet Printing Width 1000000.\nEval cbv in (json_rules, json_root).\n")
        out = subprocess.run(["coqc", "-Q", os.path.join(root, "coq"), "Parsley", f], capture_output=True, text=True).stdout
    m = re.search(r"=\s*(\(.*\))\s*:\s*list pexpr \* pexpr", out, re.S)
    coq_text = " ".join(m.group(1).split()) if m else None
    if go_text is None or coq_text is None or go_text != coq_text:
        raise RuntimeError("harness/c16.go: c16Grammar is not the term of coq/Json.v\n go:  %s\n coq: %s" % (go_text, coq_text))


def generate(rng, tier):
    check_grammar_text()
    quick = tier == "quick"
    out = []
    seen = set()

    def add(doc, meta):
        c = case(list(doc))
        if c in seen:
            return
        seen.add(c)
        m = {"n": len(doc)}
        m.update(meta)
        out.append((c, m))

    for d in FIXED:
        add(d, {"stream": "fixed", "kind": "fixed"})
    # the example documents shipped with the example parser (the 100k one only in the thorough tier)
    repo = os.environ.get("VERIF_REPO", "/repo")
    for name in ["example.json", "example_1k.json", "example_10k.json"] + ([] if quick else ["example_100k.json"]):
        try:
            d = open(os.path.join(repo, "examples", "json", name), "rb").read()
        except OSError:
            continue
        add(d, {"stream": "fixed", "kind": "example-file"})
        add(d.replace(b"\n", b"\r\n"), {"stream": "fixed", "kind": "example-file"})
    # lexeme tables, bare and inside containers
    tables = [("std", [b'"' + x + b'"' for x in STD_PLAIN + STD_ESC] + STD_DEC + STD_WORDS +
               [str(x).encode() for x in INT_EDGES]),
              ("go", [b'"' + x + b'"' for x in GO_ONLY] + GO_NUM),
              ("json", [b'"' + x + b'"' for x in JSON_ONLY] + JSON_NUM + OVER_DEC + [str(x).encode() for x in INT_OUT]),
              ("bad", [b'"' + x + b'"' for x in BAD_STR] + BAD_NUM + BAD_WORDS)]
    for fl, tb in tables:
        for x in tb:
            add(x, {"stream": "lexeme", "kind": fl})
            add(b"[" + x + b"]", {"stream": "lexeme", "kind": fl})
            if not quick or rng.random() < 0.5:
                add(b'{"k": ' + x + b" , " + (x if x[:1] == b'"' else b'"k2"') + b":[ " + x + b"\n]}", {"stream": "lexeme", "kind": fl})
    # whitespace byte at every position of fixed hosts
    for h in (WS_HOSTS if not quick else WS_HOSTS[:2]):
        for i in range(len(h) + 1):
            for w in WS_BYTES:
                add(h[:i] + w + h[i:], {"stream": "ws-everywhere", "kind": "ws"})
    # every truncation of fixed hosts
    for h in WS_HOSTS + [b'[1.5e3,"a\\u00e9\\n",{"":[]}]', b' {"a" : [ true , false ] } ']:
        for i in range(len(h)):
            add(h[:i], {"stream": "truncation", "kind": "corrupt"})
    # structured random documents
    n = 1500 if quick else 20000
    pols = ["none", "legal", "legal", "legal", "json", "ff", "crlf"]
    flavours = ["std"] * 6 + ["go", "go", "json", "bad"]
    valid = []
    for _ in range(n):
        fl = rng.choice(flavours)
        pol = rng.choice(pols)
        t = gen_tree(rng, rng.choice([0, 1, 2, 2, 3, 3, 4, 5]), fl)
        d = render_doc(rng, t, pol)
        if len(d) > (400 if quick else 1500):
            continue
        add(d, {"stream": "structured", "kind": "%s/%s" % (fl, pol)})
        if fl == "std" and pol in ("none", "legal", "crlf"):
            valid.append(d)
    # corruptions of documents that are expected to be accepted by both
    per = 1 if quick else 2
    for d in valid:
        if quick and rng.random() < 0.45:
            continue
        for kind, c in corruptions(rng, d, per):
            add(c, {"stream": "corruption", "kind": "corrupt/" + kind})
    # a separator too many before a closing bracket (SepBy must not end with a separator)
    k = 0
    for d in valid:
        spots = [j for j in range(len(d)) if d[j:j + 1] in (b"]", b"}") and d[:j].rstrip(b" \t\r\n")[-1:] not in (b"[", b"{", b"")]
        if not spots:
            continue
        j = rng.choice(spots)
        add(d[:j] + rng.choice([b",", b", ", b" ,"]) + d[j:], {"stream": "corruption", "kind": "corrupt/trailing-comma"})
        k += 1
        if k >= (120 if quick else 1500):
            break
    return out


def _res(o):
    """(parsley, encoding/json) result tags of an observation"""
    m = re.match(r'\(OT "C16" \[\(OT "(\w+)"', o)
    p = m.group(1) if m else "?"
    # the encoding/json part starts after the parsley part: find the second top-level result tag
    depth = 0
    i = o.find("[") + 1
    start = i
    parts = []
    while i < len(o) and len(parts) < 2:
        ch = o[i]
        if ch in "([":
            depth += 1
        elif ch in ")]":
            depth -= 1
            if depth == 0:
                parts.append(o[start:i + 1])
                start = i + 2
        i += 1
    e = "?"
    if len(parts) == 2:
        m = re.match(r'\s*;?\s*\(OT "(\w+)"', parts[1])
        e = m.group(1) if m else "?"
    return p, e


def nontrivial(case_text, obs, meta):
    p, e = _res(obs)
    return p == "Val" or e == "Val" or meta.get("kind", "").startswith("corrupt")


def distribution(cases, obs):
    d = {"by_result": {}, "by_kind": {}, "by_stream": {}, "with_float_value": 0, "with_object": 0, "max_len": 0}
    for (c, m), o in zip(cases, obs):
        p, e = _res(o)
        key = "parsley=%s/encoding_json=%s" % (p, e)
        d["by_result"][key] = d["by_result"].get(key, 0) + 1
        k = d["by_kind"].setdefault(m.get("kind", "?"), {})
        k[key] = k.get(key, 0) + 1
        s = d["by_stream"].setdefault(m.get("stream", "?"), {})
        s[key] = s.get(key, 0) + 1
        if '"Float"' in o:
            d["with_float_value"] += 1
        if '"Obj"' in o:
            d["with_object"] += 1
        d["max_len"] = max(d["max_len"], m.get("n", 0))
    return d


MANIFEST = {
    "technique": ("Rocq proof that the engine model run on the example grammar (a pexpr term) computes a direct specification "
                  "of the grammar's concrete syntax, which is proved sound and complete for grammar rules + differential run "
                  "of model and specification (vm_compute) against the example parser and against encoding/json"),
    "text": ("Json.v holds the grammar of examples/json/json/parser.go as a pexpr term (the Go driver builds the real "
             "combinators from the same term and checks they behave as json.NewParser()). Theorems C16_no_panic, C16_reject, "
             "C16_accept, C16_engine_is_spec (coq/Props/C16.v) prove for every byte string, every ParseFloat that fails "
             "exactly on the range error and every fuel, that the engine model's Evaluate never panics (Select's index, "
             "Object's type assertions and key.(string) are safe), returns a value only for a document derivable by the "
             "grammar rules json_doc (whole input), and returns the derivation's value for every derivable document; the "
             "proof goes through JsonSpec.spec_parse, a direct recursive-descent specification proved sound and complete "
             "for json_doc (whitespace modes, Go's string/number lexemes, ordered Choice, SepBy without trailing separator, "
             "last duplicate key wins). Every run compares, inside Coq, the real parser's result with the model's and with "
             "the specification's on every generated document, and on json_subset (the grammar with RFC 8259 lexemes only) "
             "compares the specification and parsley's value with encoding/json's."),
    "note": ("The theorems give SOME sufficient fuel (and: any fuel yields OutOfFuel or the right answer); that the concrete "
             "json_fuel = 40 + 12*length is sufficient is checked by the run only. The agreement with encoding/json is a "
             "differential result on the generated documents, not a theorem. Trusted: Coq kernel + vm_compute; the engine "
             "model and the grammar term (differential); Literals.v specifications; encoding/json and strconv as oracles; "
             "Go driver."),
    "ref": "DESIGN.md section 6, C16",
}
