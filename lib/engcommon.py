"""Shared generator and metadata of the engine properties (C01, C02, C03, C04, C06, C17)."""
import random
import gramgen as G
from gramgen import A, B

SUBCMD = "eng"
IMPORTS = ["FileSet", "Grammar", "Engine", "Spec", "EngineHarness", "EngineOracles"]
COQ_BASE = ["EngineHarness.vo", "EngineOracles.vo", "EngineExtract.vo"]
STALL = 3
TRUSTED = ["Coq 8.16.1 kernel and vm_compute", "hand-written engine model coq/Engine.v tied to the code by this differential run "
           "(results, errors, call counts, activation and failed-attempt logs compared on every case)",
           "Go driver harness/eng.go (probes inside Memoize and around terminals, public API only)", "lib/core.py, lib/gramgen.py"]
ASSUMPTIONS = ["single-byte (ASCII) rune terminals", "Go ints unbounded", "RightTrim modelled by value (see known finding K1)",
               "grammars whose ambiguity exceeds the per-case budget are cut and counted (cut_by_budget)"]


def k1_shape(rules, root):
    """a RightTrim above a reference or a Memoize: the real code moves the reader position of cached nodes in place
    (known finding K1, listed under C07); the value-level engine model does not describe such grammars"""
    for e in G.itertools.chain(*[G.walk(r) for r in rules + [root]]):
        if e[0] == 'rtrim' and any(x[0] in ('ref', 'memo') for x in G.walk(e[2])):
            return True
    return False


def unprod(rules, root):
    return not G.all_productive(rules, root)


def flags_for(rules, root, named):
    f = 0
    if G.lr_free(rules):
        f |= 1
    if named and not G.has_op(rules, root, ('suppress',)):
        f |= 2     # every Any/Choice carries a Name (SuppressError removes errors by design: excluded)
    return f


import re
BODIES = re.compile(r"\(ON \d+\); \(OS \[([0-9; ]+)\]\)")
SKIPPED = {"exponential_shape": 0}


def exponential_shape(rules, root):
    """nullable rule with two or more references reachable without consuming input: the number of
    (curtailed) derivations grows exponentially with the remaining input; skipped and counted"""
    tab = G.nullable_table(rules)
    for k, r in enumerate(rules):
        if tab[k] and sum(1 for e in G.walk(r) if e[0] == 'ref') >= 2:
            return True
    return False


def generate(rng, tier, enum_size=5, enum_len=3, sample5=1500, n_random=1000, named_share=0.3, maxlen=5):
    out = []
    if tier != "quick":
        enum_size, enum_len, sample5, n_random = 6, 4, 8000, n_random * 10
    for size in range(1, enum_size + 1):
        for rules, root in G.one_rule_grammars(size):
            if not G.repetition_ok(rules, root):
                continue
            if exponential_shape(rules, root):
                SKIPPED["exponential_shape"] += 1
                continue
            fl = flags_for(rules, root, False)
            for w in G.inputs_upto(enum_len):
                out.append((G.case_text(rules, root, w, flags=fl), {"stream": "enumerated", "unproductive": unprod(rules, root)}))
    # a sample of the next size (the pinned defect D1 first shows at 6 nodes)
    nxt = [g for g in G.one_rule_grammars(enum_size + 1) if not exponential_shape(*g)]
    rng.shuffle(nxt)
    for rules, root in nxt[:sample5]:
        fl = flags_for(rules, root, False)
        for w in ([A, B, B, B], [B, B], [A, A, B], G.rand_input(rng, 4)):
            out.append((G.case_text(rules, root, w, flags=fl), {"stream": "enumerated-sample", "unproductive": unprod(rules, root)}))
    out += clamp_cases()
    out += leftrec_families(random.Random(1), tier == "quick")     # own generator: the streams below keep their draws
    out += shared_memo_cases(rng, 500 if tier == "quick" else 6000)
    for i in range(n_random):
        ops = G.MONO if i % 3 == 0 else G.FULL
        rules, root = G.rand_grammar(rng, ops)
        if exponential_shape(rules, root):
            SKIPPED["exponential_shape"] += 1
            continue
        named = rng.random() < named_share
        if named:
            cnt = [0]
            rules = [G.name_alternatives(r, cnt) for r in rules]
            root = G.name_alternatives(root, cnt)
        fl = flags_for(rules, root, named)
        for _ in range(2):
            out.append((G.case_text(rules, root, G.rand_input(rng, maxlen), offset=rng.choice([1, 1, 2, 7]), flags=fl),
                        {"stream": "random-named" if named else ("random-mono" if ops is G.MONO else "random-full"),
                         "unproductive": unprod(rules, root)}))
    return out



# ---------------------------------------------------------------- targeted streams

def shared_memo_cases(rng, n):
    """an ambiguous memoized parser M (3..5 results at one position) consumed several times at the same position by
    consumers that extend its result list differently (Any, Optional, memoized or not): the shape in which a cached
    result list with spare capacity gets corrupted (defect D1 and its partial reverts)"""
    out = []
    C, D, E, F = 99, 100, 101, 102
    for _ in range(n):
        k = rng.choice([3, 3, 3, 4, 5, 6, 7])
        readings = [('rune', A), G.seqof(('rune', A)), G.seqof(('rune', A), ('empty',)), G.seqof(('empty',), ('rune', A)),
                    G.seqof(('empty',), ('rune', A), ('empty',)), ('opt', ('rune', A)), G.seqof(('opt', ('rune', B)), ('rune', A))]
        rng.shuffle(readings)
        if rng.random() < 0.3:
            mbody = ('any', [G.seqof(('ref', 1), ('rune', A)), ('rune', A)])      # M -> M a | a
        else:
            mbody = ('any', readings[:k])
        extra = [G.seqof(('rune', A), ('empty',), ('empty',)), G.seqof(('empty',), ('empty',), ('rune', A)), ('rune', B),
                 G.seqof(('rune', A), ('rune', A))]
        consumers = []
        for i in range(rng.choice([2, 3, 3, 4])):
            kind = rng.choice(['ref', 'opt', 'any', 'any', 'anymemo', 'optmemo'])
            y = rng.choice(extra)
            if kind == 'ref':
                consumers.append(('ref', 1))
            elif kind == 'opt':
                consumers.append(('opt', ('ref', 1)))
            elif kind == 'any':
                consumers.append(('any', [('ref', 1), y]))
            elif kind == 'anymemo':
                consumers.append(('memo', 0, ('any', [('ref', 1), y])))
            else:
                consumers.append(('memo', 0, ('opt', ('ref', 1))))
        tails = [C, D, E, F, C, D]
        branches = []
        for i in range(rng.choice([3, 4, 4, 5])):
            u = rng.choice(consumers)
            branches.append(G.seqof(u, ('rune', tails[i])))
        rules = [('memo', 1, ('any', branches)), ('memo', 2, mbody)]
        rules, root = G.uniquify_memo(rules, ('ref', 0))
        fl = flags_for(rules, root, False)
        for t in rng.sample([C, D, E, F], 2):
            w = [A] * rng.choice([1, 1, 2, 3]) + [t]
            out.append((G.case_text(rules, root, w, flags=fl), {"stream": "shared-memo", "unproductive": False}))
    return out



TRIM_FAMILIES = False


def leftrec_families(rng, quick):
    """left recursion THROUGH every combinator: P -> W(P) b | a for every wrapper W (trims of every mode, Name, named and
    one-element sequences, Optional, Choice, SeqTry, Suppress, Single), P -> Q P b | a for nullable prefixes Q (Optional,
    sequences of Optionals, Many, Empty, a trim of Empty), and indirect recursion through Any and through Choice;
    inputs with and without whitespace in front of and between the tokens"""
    out = []
    a, b, c = ('rune', A), ('rune', B), ('rune', 99)
    SP, LF = 32, 10
    p0, p1 = ('ref', 0), ('ref', 1)
    modes = ['WsNone', 'WsSpaces', 'WsSpacesNl', 'WsSpacesForceNl']
    wrappers = [lambda x: x] + ([(lambda m: lambda x: ('ltrim', m, x))(m) for m in modes] if TRIM_FAMILIES else []) + [
        lambda x: ('name', [78, 49], x), lambda x: G.seqof(x), lambda x: ('seq', 'SeqOf', 'INone', False, [83, 49], [x]),
        lambda x: ('opt', x), lambda x: ('choice', [x, b]), lambda x: ('choice', [b, x]),
        lambda x: ('seq', 'SeqTry', 'INone', False, None, [x, b]), lambda x: ('suppress', x), lambda x: ('single', x),
        lambda x: ('seq', 'SeqFirstOrAll', 'INone', False, None, [x, b])]
    prefixes = [('opt', c), G.seqof(('opt', c), ('opt', b)), G.seqof(('opt', c)), ('empty',), G.seqof(('empty',), ('empty',)),
                ('seq', ('SMany', False), 'INone', False, None, [c]), ('ltrim', 'WsSpacesNl', ('empty',)),
                ('ltrim', 'WsSpacesForceNl', ('opt', c)), ('choice', [c, ('empty',)]), ('name', [78, 50], ('opt', c))]
    if not TRIM_FAMILIES:
        # Sentence over a leading trim starts its node behind the whitespace and whitespace errors outrank the furthest
        # failure: the oracles of C04 and C06 make no claim there; C01-C03 set TRIM_FAMILIES
        prefixes = [q for q in prefixes if q[0] != 'ltrim']
    grammars = []
    for w in wrappers:
        grammars.append([('memo', 1, ('any', [G.seqof(w(p0), b), a]))])
        grammars.append([('memo', 1, ('any', [a, G.seqof(w(p0), b)]))])
    for q in prefixes:
        grammars.append([('memo', 1, ('any', [G.seqof(q, p0, b), a]))])
        if TRIM_FAMILIES:
            grammars.append([('memo', 1, ('any', [G.seqof(q, p0, ('ltrim', 'WsSpacesNl', b)), a]))])
    for alt in ('any', 'choice'):
        for first in (True, False):
            m_alts = [G.seqof(p0, b), c] if first else [c, G.seqof(p0, b)]
            grammars.append([('memo', 1, ('any', [G.seqof(p0, a), p1])), ('memo', 2, (alt, m_alts))])
            grammars.append([('memo', 1, (alt, [G.seqof(p1, a), b])), ('memo', 2, ('any', [G.seqof(p0, b), a]))])
    words = [[A], [A, B], [A, B, B], [B], [], [A, A, B], [99], [99, B], [99, B, A], [99, A, A, B, A, B], [99, B, A, B, A],
             [B, B, A], [A, B, A, B], [99, A, B]]
    for rules in grammars:
        rules, root = G.uniquify_memo(rules, ('ref', 0))
        if exponential_shape(rules, root) or not G.repetition_ok(rules, root):
            SKIPPED["exponential_shape"] += 1
            continue
        fl = flags_for(rules, root, False)
        ws_wanted = any(x[0] in ('ltrim', 'rtrim') for r in rules for x in G.walk(r))
        for w in (words if not quick else words[:9] + rng.sample(words[9:], 2)):
            variants = [w]
            if ws_wanted and w:
                variants += [[LF] + w, [SP] + w, [w[0], LF] + w[1:], [w[0], SP, SP] + w[1:]]
            for v in variants:
                out.append((G.case_text(rules, root, v, offset=rng.choice([1, 1, 7]), flags=fl),
                            {"stream": "left-recursion-through-combinators", "unproductive": unprod(rules, root)}))
    return out


def clamp_cases():
    """deterministic family: a memoized parser M with k distinguishable results looked up three or four times at one
    position: one evaluation, then cache hits whose consumers extend the cached list differently, one of them memoized
    and read again afterwards.  S -> M c | U1 d | U2 e | U1 f with U1 = Memoize(Any(M, Y1)), U2 = Any(M, Y2): a cached
    list that keeps spare capacity (k = 3, 5, 6, 7) lets the second hit overwrite what the first hit appended."""
    out = []
    C, D, E, F = 99, 100, 101, 102
    shapes = [('rune', A), G.seqof(('rune', A)), G.seqof(('rune', A), ('empty',)), G.seqof(('empty',), ('rune', A)),
              G.seqof(('empty',), ('rune', A), ('empty',)), G.seqof(('rune', A), ('empty',), ('empty',)),
              G.seqof(('empty',), ('empty',), ('rune', A))]
    y1 = G.seqof(G.seqof(('rune', A)))
    y2 = G.seqof(G.seqof(('rune', A)), ('empty',))
    for k in (2, 3, 4, 5, 6, 7):
        for variant in range(4):
            m = ('any', shapes[:k])
            u1 = ('memo', 0, ('any', [('ref', 1), y1])) if variant % 2 == 0 else ('memo', 0, ('opt', ('ref', 1)))
            u2 = ('any', [('ref', 1), y2]) if variant < 2 else ('opt', ('ref', 1))
            if variant >= 2 and variant % 2 == 1:
                u2 = ('any', [('ref', 1), y2])
            # rule 0: S, rule 1: M, rule 2: U1 (so that the SAME memoized consumer is used twice)
            rules = [('memo', 1, ('any', [G.seqof(('ref', 1), ('rune', C)), G.seqof(('ref', 2), ('rune', D)),
                                          G.seqof(u2, ('rune', E)), G.seqof(('ref', 2), ('rune', F))])),
                     ('memo', 2, m), u1]
            rules, root = G.uniquify_memo(rules, ('ref', 0))
            fl = flags_for(rules, root, False)
            for tail in (C, D, E, F):
                out.append((G.case_text(rules, root, [A, tail], flags=fl), {"stream": "clamp-family", "unproductive": False}))
    return out


def swap_runes(e, frm, to):
    t = e[0]
    if t == 'rune':
        return ('rune', to) if e[1] == frm else e
    if t in ('any', 'choice'):
        return (t, [swap_runes(x, frm, to) for x in e[1]])
    if t == 'seq':
        return e[:5] + ([swap_runes(x, frm, to) for x in e[5]],)
    if t in ('memo', 'name', 'ltrim', 'rtrim'):
        return (t, e[1], swap_runes(e[2], frm, to))
    if t in ('opt', 'suppress', 'single'):
        return (t, swap_runes(e[1], frm, to))
    return e


def error_cases(rng, n):
    """failing Sentence parses for C06: named Choice/Any over Optional and sequences (a matching alternative that also
    carries an error), and grammars/inputs with line feeds (the reported line:column at and after line breaks)"""
    out = []
    ops = ['choice', 'choice', 'any', 'opt', 'opt', 'seq', 'seq', 'seq', 'many', 'memo']
    for i in range(n):
        rules, root = G.rand_grammar(rng, ops, max_rules=2, depth=3)
        if exponential_shape(rules, root):
            continue
        cnt = [0]
        rules = [G.name_alternatives(r, cnt) for r in rules]
        root = G.name_alternatives(root, cnt)
        alphabet = (A, B)
        if i % 5 == 0:
            # a token that means something to Printf: the message "was expecting "%"" must come through verbatim
            rules = [swap_runes(r, B, 37) for r in rules]
            root = swap_runes(root, B, 37)
            alphabet = (A, 37)
        fl = flags_for(rules, root, True)
        for _ in range(3):
            out.append((G.case_text(rules, root, G.rand_input(rng, 6, alphabet), offset=rng.choice([1, 1, 3]), flags=fl),
                        {"stream": "error-named", "unproductive": unprod(rules, root)}))
    return out


def distribution(cases, obs):
    d = {"nonempty_result": 0, "with_curtailment_or_reentry": 0, "sentence_failed": 0, "timeouts_or_crashes": 0,
         "plain_run_compared": 0, "named_productive": 0}
    for (c, m), o in zip(cases, obs):
        if '"Raw" [(OL [])' not in o:
            d["nonempty_result"] += 1
        m = BODIES.search(o)
        if m and any(int(x) >= 2 for x in m.group(1).split("; ")[2::3]):
            d["with_curtailment_or_reentry"] += 1
        if '"Timeout"' in o or '"Crash"' in o:
            d["timeouts_or_crashes"] += 1
        if '(OT "Err"' in o:
            d["sentence_failed"] += 1
        fl = int(c.rsplit(" ", 1)[1])
        d["plain_run_compared"] += fl & 1
        d["named_productive"] += (fl >> 1) & 1
    d["skipped_exponential_shape"] = SKIPPED["exponential_shape"]
    return d


def nontrivial(case, obs, meta):
    # a non-empty root result, or a failing sentence with at least one failed attempt
    return '"Raw" [(OL [])' not in obs or '(OT "Err"' in obs

CROSSCHECK = {"quick": 40, "thorough": 400}
