"""Grammar generators for the engine properties.  A grammar expression is a nested tuple:
('rune', c) ('lit', <Coq text of a Literals.literal>) ('empty',) ('end',) ('ref', k) ('memo', idx, p) ('any', [ps]) ('choice', [ps]) ('opt', p)
('seq', kind, ip, single, name, [ps]) ('name', nm, p) ('ltrim', mode, p) ('rtrim', mode, p) ('suppress', p) ('single', p)
kind: 'SeqOf' 'SeqTry' 'SeqFirstOrAll' ('SMany', bool) ('SSepBy', bool); ip: 'INone' ('ISelect', i) 'IArray' 'IObject' 'INil'.
A case = (rules, root, data bytes, offset, flags)."""
import itertools

A, B = 97, 98


def lst(xs):
    return "[" + "; ".join(xs) + "]"


def nums(xs):
    return "[" + "; ".join(str(x) for x in xs) + "]"


def kind_coq(k):
    if isinstance(k, tuple):
        return "(%s %s)" % (k[0], "true" if k[1] else "false")
    return k


def ip_coq(ip):
    if isinstance(ip, tuple):
        return "(%s %d)" % ip
    return ip


def to_coq(e):
    t = e[0]
    if t == 'rune':
        return "(PTerm (TRune %d))" % e[1]
    if t == 'lit':
        return "(PTerm (TLit %s))" % e[1]
    if t == 'empty':
        return "PEmpty"
    if t == 'end':
        return "PEnd"
    if t == 'ref':
        return "(PRef %d)" % e[1]
    if t == 'memo':
        return "(PMemo %d %s)" % (e[1], to_coq(e[2]))
    if t == 'any':
        return "(PAny %s)" % lst(to_coq(x) for x in e[1])
    if t == 'choice':
        return "(PChoice %s)" % lst(to_coq(x) for x in e[1])
    if t == 'opt':
        return "(POpt %s)" % to_coq(e[1])
    if t == 'seq':
        _, kind, ip, single, name, ps = e
        nm = "None" if name is None else "(Some %s)" % nums(name)
        return "(PSeq %s %s %s %s %s)" % (kind_coq(kind), ip_coq(ip), "true" if single else "false", nm,
                                         lst(to_coq(x) for x in ps))
    if t == 'name':
        return "(PName %s %s)" % (nums(e[1]), to_coq(e[2]))
    if t == 'ltrim':
        return "(PLeftTrim %s %s)" % (e[1], to_coq(e[2]))
    if t == 'rtrim':
        return "(PRightTrim %s %s)" % (e[1], to_coq(e[2]))
    if t == 'suppress':
        return "(PSuppress %s)" % to_coq(e[1])
    if t == 'single':
        return "(PSingle %s)" % to_coq(e[1])
    raise ValueError(t)


def case_text(rules, root, data, offset=1, flags=0):
    return "Eng %s %s %s %d %d" % (lst(to_coq(r) for r in rules), to_coq(root), nums(data), offset, flags)


def seqof(*ps):
    return ('seq', 'SeqOf', 'INone', False, None, list(ps))


def children(e):
    t = e[0]
    if t in ('any', 'choice'):
        return e[1]
    if t == 'seq':
        return e[5]
    if t in ('memo', 'name', 'ltrim', 'rtrim'):
        return [e[2]]
    if t in ('opt', 'suppress', 'single'):
        return [e[1]]
    return []


def walk(e):
    yield e
    for c in children(e):
        yield from walk(c)


# ---------------------------------------------------------------- static analyses

def nullable_table(rules):
    """least fixpoint: can rule k succeed without consuming input (over-approximation)?"""
    tab = [False] * len(rules)
    changed = True
    while changed:
        changed = False
        for k, r in enumerate(rules):
            v = nullable(r, tab)
            if v and not tab[k]:
                tab[k] = True
                changed = True
    return tab


def nullable(e, tab):
    t = e[0]
    if t in ('rune', 'lit'):
        return False
    if t in ('empty', 'end', 'opt'):
        return True
    if t == 'ref':
        return tab[e[1]]
    if t in ('memo', 'name', 'ltrim', 'rtrim'):
        return nullable(e[2], tab)
    if t in ('suppress', 'single'):
        return nullable(e[1], tab)
    if t in ('any', 'choice'):
        return any(nullable(x, tab) for x in e[1])
    if t == 'seq':
        kind, ps = e[1], e[5]
        if kind == 'SeqOf':
            return all(nullable(x, tab) for x in ps)
        if kind in ('SeqTry', 'SeqFirstOrAll'):
            return bool(ps) and nullable(ps[0], tab)
        if kind[0] == 'SMany':
            return kind[1] or nullable(ps[0], tab)
        if kind[0] == 'SSepBy':
            return kind[1] or nullable(ps[0], tab)
    raise ValueError(t)


def repetition_ok(rules, root):
    """operands of Many / SepBy values must consume input (else the Go code recurses forever by design)"""
    tab = nullable_table(rules)
    for e in itertools.chain(*[walk(r) for r in rules + [root]]):
        if e[0] == 'seq' and isinstance(e[1], tuple):
            if nullable(e[5][0], tab):
                return False
            if e[1][0] == 'SSepBy' and nullable(e[5][0], tab) and nullable(e[5][1], tab):
                return False
    return True


def left_refs(e, tab, out):
    """rules reachable at the left edge of e (through nullable prefixes)"""
    t = e[0]
    if t == 'ref':
        out.add(e[1])
    elif t in ('memo', 'name', 'ltrim', 'rtrim'):
        left_refs(e[2], tab, out)
    elif t in ('opt', 'suppress', 'single'):
        left_refs(e[1], tab, out)
    elif t in ('any', 'choice'):
        for x in e[1]:
            left_refs(x, tab, out)
    elif t == 'seq':
        kind, ps = e[1], e[5]
        if isinstance(kind, tuple):
            # value, then separator/value again if nullable (conservative)
            for x in ps:
                left_refs(x, tab, out)
        else:
            for x in ps:
                left_refs(x, tab, out)
                if not nullable(x, tab):
                    break


def lr_free(rules):
    tab = nullable_table(rules)
    reach = []
    for r in rules:
        s = set()
        left_refs(r, tab, s)
        reach.append(s)
    # transitive closure
    changed = True
    while changed:
        changed = False
        for k in range(len(rules)):
            for j in list(reach[k]):
                new = reach[j] - reach[k]
                if new:
                    reach[k] |= new
                    changed = True
    return all(k not in reach[k] for k in range(len(rules)))


def refs_ok(rules, root):
    n = len(rules)
    return all(e[1] < n for e in itertools.chain(*[walk(r) for r in rules + [root]]) if e[0] == 'ref')


# ---------------------------------------------------------------- enumeration

def exprs_of_size(n, nrules, leaves):
    """all monotone expressions (Any/SeqOf with 2 operands, Optional) with exactly n nodes"""
    if n == 1:
        for l in leaves:
            yield l
        for k in range(nrules):
            yield ('ref', k)
        return
    for sub in exprs_of_size(n - 1, nrules, leaves):
        yield ('opt', sub)
    for i in range(1, n - 1):
        for a in exprs_of_size(i, nrules, leaves):
            for b in exprs_of_size(n - 1 - i, nrules, leaves):
                yield ('any', [a, b])
                yield seqof(a, b)


def inputs_upto(n, alphabet=(A, B)):
    for k in range(n + 1):
        for w in itertools.product(alphabet, repeat=k):
            yield list(w)


def one_rule_grammars(size):
    leaves = [('rune', A), ('rune', B), ('empty',)]
    for body in exprs_of_size(size, 1, leaves):
        yield [('memo', 1, body)], ('ref', 0)


# ---------------------------------------------------------------- random

def rand_expr(rng, depth, nrules, ops, leaf_w=None, terminals=None):
    terms = terminals if terminals is not None else [('rune', A), ('rune', A), ('rune', B), ('rune', B)]
    leaves = (terms if terminals is None else [rng.choice(terms) for _ in range(6)]) + [('empty',)] + \
        [('ref', k) for k in range(nrules)] * 2
    if depth <= 0 or rng.random() < 0.25:
        return rng.choice(leaves)
    op = rng.choice(ops)
    sub = lambda: rand_expr(rng, depth - 1, nrules, ops, terminals=terminals)
    if op == 'ltrim':
        return ('ltrim', rng.choice(WSMODES), sub())
    if op == 'rtrim':
        return ('rtrim', rng.choice(WSMODES), sub())
    if op == 'any':
        return ('any', [sub() for _ in range(rng.choice([2, 2, 3]))])
    if op == 'choice':
        return ('choice', [sub() for _ in range(rng.choice([2, 2, 3]))])
    if op == 'seq':
        return seqof(*[sub() for _ in range(rng.choice([1, 2, 2, 3]))])
    if op == 'opt':
        return ('opt', sub())
    if op == 'seqtry':
        return ('seq', 'SeqTry', 'INone', False, None, [sub() for _ in range(rng.choice([2, 3]))])
    if op == 'sfoa':
        return ('seq', 'SeqFirstOrAll', 'INone', False, None, [sub() for _ in range(rng.choice([2, 3]))])
    if op == 'many':
        return ('seq', ('SMany', rng.random() < 0.5), 'INone', False, None, [sub()])
    if op == 'sepby':
        return ('seq', ('SSepBy', rng.random() < 0.5), 'INone', False, None, [sub(), sub()])
    if op == 'name':
        return ('name', [78, 48 + rng.randrange(10)], sub())
    if op == 'nseq':
        return ('seq', 'SeqOf', 'INone', rng.random() < 0.3, [83, 48 + rng.randrange(10)],
                [sub() for _ in range(rng.choice([1, 2, 3]))])
    if op == 'suppress':
        return ('suppress', sub())
    if op == 'single':
        return ('single', sub())
    if op == 'memo':
        return ('memo', 100 + rng.randrange(1000000), sub())
    raise ValueError(op)


WSMODES = ['WsSpaces', 'WsSpaces', 'WsSpacesNl', 'WsNone', 'WsSpacesForceNl']
MONO = ['any', 'any', 'seq', 'seq', 'seq', 'opt']
FULL = MONO + ['choice', 'seqtry', 'sfoa', 'many', 'sepby', 'name', 'nseq', 'suppress', 'single']


def uniquify_memo(rules, root):
    """give every inner memo a distinct index (rule k has index k+1)"""
    counter = [len(rules) + 1]

    def fix(e, top=None):
        t = e[0]
        if t == 'memo':
            if top is not None:
                return ('memo', top, fix(e[2]))
            counter[0] += 1
            return ('memo', counter[0], fix(e[2]))
        if t in ('any', 'choice'):
            return (t, [fix(x) for x in e[1]])
        if t == 'seq':
            return e[:5] + ([fix(x) for x in e[5]],)
        if t in ('name', 'ltrim', 'rtrim'):
            return (t, e[1], fix(e[2]))
        if t in ('opt', 'suppress', 'single'):
            return (t, fix(e[1]))
        return e
    rules2 = [fix(r, top=k + 1) for k, r in enumerate(rules)]
    return rules2, fix(root)


def rand_grammar(rng, ops, max_rules=3, depth=3, terminals=None):
    """rules are memoized bodies; root refers to rule 0 (or is an expression over the rules)"""
    for _ in range(200):
        n = rng.choice(list(range(1, max_rules + 1)))
        rules = [('memo', k + 1, rand_expr(rng, depth, n, ops, terminals=terminals)) for k in range(n)]
        root = ('ref', 0) if rng.random() < 0.7 else rand_expr(rng, 2, n, ops, terminals=terminals)
        rules, root = uniquify_memo(rules, root)
        if repetition_ok(rules, root):
            return rules, root
    return [('memo', 1, ('rune', A))], ('ref', 0)


def rand_input(rng, maxlen, alphabet=(A, B)):
    return [rng.choice(alphabet) for _ in range(rng.randrange(maxlen + 1))]


# ---------------------------------------------------------------- productivity, naming

def productive_table(rules):
    """least fixpoint: does rule k derive some string (ignoring left-recursion curtailment)?"""
    tab = [False] * len(rules)
    changed = True
    while changed:
        changed = False
        for k, r in enumerate(rules):
            if not tab[k] and produces(r, tab):
                tab[k] = True
                changed = True
    return tab


def produces(e, tab):
    t = e[0]
    if t in ('rune', 'lit', 'empty', 'end', 'opt'):
        return True
    if t == 'ref':
        return tab[e[1]]
    if t in ('memo', 'name', 'ltrim', 'rtrim'):
        return produces(e[2], tab)
    if t in ('suppress', 'single'):
        return produces(e[1], tab)
    if t in ('any', 'choice'):
        return any(produces(x, tab) for x in e[1])
    if t == 'seq':
        kind, ps = e[1], e[5]
        if kind == 'SeqOf':
            return all(produces(x, tab) for x in ps)
        if kind in ('SeqTry', 'SeqFirstOrAll'):
            return produces(ps[0], tab)
        return kind[1] or produces(ps[0], tab)
    raise ValueError(t)


def all_productive(rules, root):
    tab = productive_table(rules)
    return all(tab) and produces(root, tab)


def name_alternatives(e, counter):
    """wrap every Any/Choice in a Name"""
    t = e[0]
    if t in ('any', 'choice'):
        counter[0] += 1
        return ('name', [65, 48 + counter[0] % 10, 48 + (counter[0] // 10) % 10], (t, [name_alternatives(x, counter) for x in e[1]]))
    if t == 'seq':
        return e[:5] + ([name_alternatives(x, counter) for x in e[5]],)
    if t in ('memo', 'name', 'ltrim', 'rtrim'):
        return (t, e[1], name_alternatives(e[2], counter))
    if t in ('opt', 'suppress', 'single'):
        return (t, name_alternatives(e[1], counter))
    return e


def has_op(rules, root, ops):
    return any(e[0] in ops for e in itertools.chain(*[walk(r) for r in rules + [root]]))


# ---------------------------------------------------------------- literal terminals (text/terminal, Literals.v)

def coq_bytes(s):
    return nums(list(s.encode()))


def lit(text):
    return ('lit', text)


LIT_INTEGER = lit("LInteger")
LIT_FLOAT = lit("LFloat")
LIT_STRING = lit("(LString false)")
LIT_STRING_BQ = lit("(LString true)")
LIT_CHAR = lit("LChar")
LIT_BOOL = lit("(LBool %s %s)" % (coq_bytes("true"), coq_bytes("false")))
LIT_NIL = lit("(LNil %s)" % coq_bytes("null"))
LIT_DURATION = lit("LDuration")


def lit_op(s):
    return lit("(LOp %s)" % coq_bytes(s))


def lit_word(s):
    return lit("(LWord %s)" % coq_bytes(s))


def lit_rune(c):
    return lit("(LRune %d)" % c)


# the pool the ENG literal stream draws its terminals from (all inside Literals.lit_domain; names of
# Word/Op/Rune are printable ASCII without quote and backslash, where strconv.Quote adds only the quotes)
LIT_POOL = [LIT_INTEGER, LIT_INTEGER, LIT_FLOAT, LIT_STRING, LIT_STRING, LIT_STRING_BQ, LIT_CHAR, LIT_BOOL, LIT_NIL,
            LIT_DURATION, lit_op(","), lit_op("["), lit_op("]"), lit_op("+"), lit_op("=="), lit_word("x"), lit_word("nu"), lit_word("eof"),
            lit_rune(44), lit_rune(233), ('rune', 44), ('rune', 91), ('rune', 93)]
# small literal fragments the inputs are built from
LIT_FRAGMENTS = ["1", "12", "0", "07", "0x1F", "-3", '"ab"', '""', '"a\\n"', '"a', "`b`", "true", "false", "null", "nu",
                 "x", "eof", "1.5", ".5", "-0.25", "1.", "2m", "1h3s", "'a'", "'\\n'", "'ab'", " ", " ", "  ", "\n", "\t", ",", ",",
                 "[", "]", "+", "==", "=", "\u00e9", "truex", "\r\n"]
LIT_OPS = MONO + ['choice', 'seqtry', 'sfoa', 'many', 'sepby', 'name', 'nseq', 'suppress', 'single',
                  'ltrim', 'ltrim', 'ltrim', 'rtrim', 'rtrim', 'rtrim']


def rand_lit_input(rng, maxfrag=5):
    return list("".join(rng.choice(LIT_FRAGMENTS) for _ in range(rng.randrange(maxfrag + 1))).encode())


LIT_EXAMPLES = {
    "LInteger": ["1", "12", "0", "-3", "0x1F", "07", "12.", "1", "42", "+7", "9223372036854775808"],
    "LFloat": ["1.5", ".5", "-0.25", "1.5e2", "1."],
    "(LString false)": ['"ab"', '""', '"a\\n"', '"a', '"\u00e9"'],
    "(LString true)": ['"ab"', "`b`", "``", "`b"],
    "LChar": ["'a'", "'\\n'", "'ab'", "'\\x41'", "'\u00e9'", "''"],
    "LDuration": ["2m", "1h3s", "1.5s", "2"],
}


def lit_examples(e):
    if e[0] == 'rune':
        return [chr(e[1])]
    if e[0] != 'lit':
        return []
    t = e[1]
    if t in LIT_EXAMPLES:
        return LIT_EXAMPLES[t]
    import re
    ws = [bytes(int(x) for x in m.split(";") if x.strip()).decode() for m in re.findall(r"\[([0-9; ]*)\]", t)]
    if t.startswith("(LRune"):
        return [chr(int(t[7:-1]))]
    return ws + [w + "x" for w in ws[:1]]


def rand_lit_input_for(rng, rules, root, maxfrag=6):
    """an input biased towards the grammar's own terminals: each fragment is an example of one of its terminals
    (70%) or a random fragment, optionally followed by white space"""
    pool = []
    for e in itertools.chain(*[walk(r) for r in rules + [root]]):
        pool += lit_examples(e)
    out = ""
    for _ in range(rng.randrange(maxfrag + 1)):
        out += rng.choice(pool) if pool and rng.random() < 0.7 else rng.choice(LIT_FRAGMENTS)
        if rng.random() < 0.3:
            out += rng.choice([" ", " ", "  ", "\n", " \n", "\t"])
    return list(out.encode())


def rand_lit_grammar(rng, max_rules=2, depth=3):
    return rand_grammar(rng, LIT_OPS, max_rules=max_rules, depth=depth, terminals=LIT_POOL)


def json_like(rng):
    """a small JSON-shaped grammar (the C16 workload in miniature): value = string | float | integer | bool | null |
    '[' sep_by(value, ',') ']' with trimming"""
    ws = rng.choice(['WsSpaces', 'WsSpacesNl'])
    tr = lambda p: ('ltrim', ws, p)
    value = ('ref', 0)
    arr = ('seq', 'SeqOf', 'IArray', False, None,
           [tr(lit_rune(91)), ('seq', ('SSepBy', True), 'INone', False, None, [tr(value), tr(lit_rune(44))]), tr(lit_rune(93))])
    alts = [LIT_STRING, LIT_FLOAT, LIT_INTEGER, LIT_BOOL, LIT_NIL, arr]
    body = ('choice' if rng.random() < 0.5 else 'any', alts)
    return [('memo', 1, body)], tr(value)


def arith_like(rng):
    """a small arithmetic grammar (the C05 workload in miniature): left-recursive sums of integers with trimming"""
    ws = rng.choice(['WsSpaces', 'WsSpacesNl'])
    num = ('rtrim', ws, LIT_INTEGER) if rng.random() < 0.5 else ('ltrim', ws, LIT_INTEGER)
    plus = ('ltrim', ws, lit_op("+")) if rng.random() < 0.5 else ('rtrim', ws, lit_rune(43))
    sum_ = ('memo', 1, ('any', [seqof(('ref', 0), plus, num), num]))
    return [sum_], ('ref', 0)
