"""Grammar generators for the engine properties.  A grammar expression is a nested tuple:
('rune', c) ('empty',) ('end',) ('ref', k) ('memo', idx, p) ('any', [ps]) ('choice', [ps]) ('opt', p)
('seq', kind, ip, single, name, [ps]) ('name', nm, p) ('ltrim', mode, p) ('rtrim', mode, p) ('suppress', p) ('single', p)
kind: 'SeqOf' 'SeqTry' 'SeqFirstOrAll' ('SMany', bool) ('SSepBy', bool); ip: 'INone' ('ISelect', i) 'IArray' 'IObject' 'INil'.
A case = (rules, root, data bytes, offset, flags)."""
import itertools

A, B = 97, 98


def lst(xs):
    return "[" + "; ".join(xs) + "]"


def nums(xs):
    return "[" + "; ".join(str(x) for x in xs) + "]"


def kind_coq(k):
    if isinstance(k, tuple):
        return "(%s %s)" % (k[0], "true" if k[1] else "false")
    return k


def ip_coq(ip):
    if isinstance(ip, tuple):
        return "(%s %d)" % ip
    return ip


def to_coq(e):
    t = e[0]
    if t == 'rune':
        return "(PTerm (TRune %d))" % e[1]
    if t == 'empty':
        return "PEmpty"
    if t == 'end':
        return "PEnd"
    if t == 'ref':
        return "(PRef %d)" % e[1]
    if t == 'memo':
        return "(PMemo %d %s)" % (e[1], to_coq(e[2]))
    if t == 'any':
        return "(PAny %s)" % lst(to_coq(x) for x in e[1])
    if t == 'choice':
        return "(PChoice %s)" % lst(to_coq(x) for x in e[1])
    if t == 'opt':
        return "(POpt %s)" % to_coq(e[1])
    if t == 'seq':
        _, kind, ip, single, name, ps = e
        nm = "None" if name is None else "(Some %s)" % nums(name)
        return "(PSeq %s %s %s %s %s)" % (kind_coq(kind), ip_coq(ip), "true" if single else "false", nm,
                                         lst(to_coq(x) for x in ps))
    if t == 'name':
        return "(PName %s %s)" % (nums(e[1]), to_coq(e[2]))
    if t == 'ltrim':
        return "(PLeftTrim %s %s)" % (e[1], to_coq(e[2]))
    if t == 'rtrim':
        return "(PRightTrim %s %s)" % (e[1], to_coq(e[2]))
    if t == 'suppress':
        return "(PSuppress %s)" % to_coq(e[1])
    if t == 'single':
        return "(PSingle %s)" % to_coq(e[1])
    raise ValueError(t)


def case_text(rules, root, data, offset=1, flags=0):
    return "Eng %s %s %s %d %d" % (lst(to_coq(r) for r in rules), to_coq(root), nums(data), offset, flags)


def seqof(*ps):
    return ('seq', 'SeqOf', 'INone', False, None, list(ps))


def children(e):
    t = e[0]
    if t in ('any', 'choice'):
        return e[1]
    if t == 'seq':
        return e[5]
    if t in ('memo', 'name', 'ltrim', 'rtrim'):
        return [e[2]]
    if t in ('opt', 'suppress', 'single'):
        return [e[1]]
    return []


def walk(e):
    yield e
    for c in children(e):
        yield from walk(c)


# ---------------------------------------------------------------- static analyses

def nullable_table(rules):
    """least fixpoint: can rule k succeed without consuming input (over-approximation)?"""
    tab = [False] * len(rules)
    changed = True
    while changed:
        changed = False
        for k, r in enumerate(rules):
            v = nullable(r, tab)
            if v and not tab[k]:
                tab[k] = True
                changed = True
    return tab


def nullable(e, tab):
    t = e[0]
    if t == 'rune':
        return False
    if t in ('empty', 'end', 'opt'):
        return True
    if t == 'ref':
        return tab[e[1]]
    if t in ('memo', 'name', 'ltrim', 'rtrim'):
        return nullable(e[2], tab)
    if t in ('suppress', 'single'):
        return nullable(e[1], tab)
    if t in ('any', 'choice'):
        return any(nullable(x, tab) for x in e[1])
    if t == 'seq':
        kind, ps = e[1], e[5]
        if kind == 'SeqOf':
            return all(nullable(x, tab) for x in ps)
        if kind in ('SeqTry', 'SeqFirstOrAll'):
            return bool(ps) and nullable(ps[0], tab)
        if kind[0] == 'SMany':
            return kind[1] or nullable(ps[0], tab)
        if kind[0] == 'SSepBy':
            return kind[1] or nullable(ps[0], tab)
    raise ValueError(t)


def repetition_ok(rules, root):
    """operands of Many / SepBy values must consume input (else the Go code recurses forever by design)"""
    tab = nullable_table(rules)
    for e in itertools.chain(*[walk(r) for r in rules + [root]]):
        if e[0] == 'seq' and isinstance(e[1], tuple):
            if nullable(e[5][0], tab):
                return False
            if e[1][0] == 'SSepBy' and nullable(e[5][0], tab) and nullable(e[5][1], tab):
                return False
    return True


def left_refs(e, tab, out):
    """rules reachable at the left edge of e (through nullable prefixes)"""
    t = e[0]
    if t == 'ref':
        out.add(e[1])
    elif t in ('memo', 'name', 'ltrim', 'rtrim'):
        left_refs(e[2], tab, out)
    elif t in ('opt', 'suppress', 'single'):
        left_refs(e[1], tab, out)
    elif t in ('any', 'choice'):
        for x in e[1]:
            left_refs(x, tab, out)
    elif t == 'seq':
        kind, ps = e[1], e[5]
        if isinstance(kind, tuple):
            # value, then separator/value again if nullable (conservative)
            for x in ps:
                left_refs(x, tab, out)
        else:
            for x in ps:
                left_refs(x, tab, out)
                if not nullable(x, tab):
                    break


def lr_free(rules):
    tab = nullable_table(rules)
    reach = []
    for r in rules:
        s = set()
        left_refs(r, tab, s)
        reach.append(s)
    # transitive closure
    changed = True
    while changed:
        changed = False
        for k in range(len(rules)):
            for j in list(reach[k]):
                new = reach[j] - reach[k]
                if new:
                    reach[k] |= new
                    changed = True
    return all(k not in reach[k] for k in range(len(rules)))


def refs_ok(rules, root):
    n = len(rules)
    return all(e[1] < n for e in itertools.chain(*[walk(r) for r in rules + [root]]) if e[0] == 'ref')


# ---------------------------------------------------------------- enumeration

def exprs_of_size(n, nrules, leaves):
    """all monotone expressions (Any/SeqOf with 2 operands, Optional) with exactly n nodes"""
    if n == 1:
        for l in leaves:
            yield l
        for k in range(nrules):
            yield ('ref', k)
        return
    for sub in exprs_of_size(n - 1, nrules, leaves):
        yield ('opt', sub)
    for i in range(1, n - 1):
        for a in exprs_of_size(i, nrules, leaves):
            for b in exprs_of_size(n - 1 - i, nrules, leaves):
                yield ('any', [a, b])
                yield seqof(a, b)


def inputs_upto(n, alphabet=(A, B)):
    for k in range(n + 1):
        for w in itertools.product(alphabet, repeat=k):
            yield list(w)


def one_rule_grammars(size):
    leaves = [('rune', A), ('rune', B), ('empty',)]
    for body in exprs_of_size(size, 1, leaves):
        yield [('memo', 1, body)], ('ref', 0)


# ---------------------------------------------------------------- random

def rand_expr(rng, depth, nrules, ops, leaf_w=None):
    leaves = [('rune', A), ('rune', A), ('rune', B), ('rune', B), ('empty',)] + [('ref', k) for k in range(nrules)] * 2
    if depth <= 0 or rng.random() < 0.25:
        return rng.choice(leaves)
    op = rng.choice(ops)
    sub = lambda: rand_expr(rng, depth - 1, nrules, ops)
    if op == 'any':
        return ('any', [sub() for _ in range(rng.choice([2, 2, 3]))])
    if op == 'choice':
        return ('choice', [sub() for _ in range(rng.choice([2, 2, 3]))])
    if op == 'seq':
        return seqof(*[sub() for _ in range(rng.choice([1, 2, 2, 3]))])
    if op == 'opt':
        return ('opt', sub())
    if op == 'seqtry':
        return ('seq', 'SeqTry', 'INone', False, None, [sub() for _ in range(rng.choice([2, 3]))])
    if op == 'sfoa':
        return ('seq', 'SeqFirstOrAll', 'INone', False, None, [sub() for _ in range(rng.choice([2, 3]))])
    if op == 'many':
        return ('seq', ('SMany', rng.random() < 0.5), 'INone', False, None, [sub()])
    if op == 'sepby':
        return ('seq', ('SSepBy', rng.random() < 0.5), 'INone', False, None, [sub(), sub()])
    if op == 'name':
        return ('name', [78, 48 + rng.randrange(10)], sub())
    if op == 'nseq':
        return ('seq', 'SeqOf', 'INone', rng.random() < 0.3, [83, 48 + rng.randrange(10)],
                [sub() for _ in range(rng.choice([1, 2, 3]))])
    if op == 'suppress':
        return ('suppress', sub())
    if op == 'single':
        return ('single', sub())
    if op == 'memo':
        return ('memo', 100 + rng.randrange(1000000), sub())
    raise ValueError(op)


MONO = ['any', 'any', 'seq', 'seq', 'seq', 'opt']
FULL = MONO + ['choice', 'seqtry', 'sfoa', 'many', 'sepby', 'name', 'nseq', 'suppress', 'single']


def uniquify_memo(rules, root):
    """give every inner memo a distinct index (rule k has index k+1)"""
    counter = [len(rules) + 1]

    def fix(e, top=None):
        t = e[0]
        if t == 'memo':
            if top is not None:
                return ('memo', top, fix(e[2]))
            counter[0] += 1
            return ('memo', counter[0], fix(e[2]))
        if t in ('any', 'choice'):
            return (t, [fix(x) for x in e[1]])
        if t == 'seq':
            return e[:5] + ([fix(x) for x in e[5]],)
        if t in ('name', 'ltrim', 'rtrim'):
            return (t, e[1], fix(e[2]))
        if t in ('opt', 'suppress', 'single'):
            return (t, fix(e[1]))
        return e
    rules2 = [fix(r, top=k + 1) for k, r in enumerate(rules)]
    return rules2, fix(root)


def rand_grammar(rng, ops, max_rules=3, depth=3):
    """rules are memoized bodies; root refers to rule 0 (or is an expression over the rules)"""
    for _ in range(200):
        n = rng.choice(list(range(1, max_rules + 1)))
        rules = [('memo', k + 1, rand_expr(rng, depth, n, ops)) for k in range(n)]
        root = ('ref', 0) if rng.random() < 0.7 else rand_expr(rng, 2, n, ops)
        rules, root = uniquify_memo(rules, root)
        if repetition_ok(rules, root):
            return rules, root
    return [('memo', 1, ('rune', A))], ('ref', 0)


def rand_input(rng, maxlen, alphabet=(A, B)):
    return [rng.choice(alphabet) for _ in range(rng.randrange(maxlen + 1))]


# ---------------------------------------------------------------- productivity, naming

def productive_table(rules):
    """least fixpoint: does rule k derive some string (ignoring left-recursion curtailment)?"""
    tab = [False] * len(rules)
    changed = True
    while changed:
        changed = False
        for k, r in enumerate(rules):
            if not tab[k] and produces(r, tab):
                tab[k] = True
                changed = True
    return tab


def produces(e, tab):
    t = e[0]
    if t in ('rune', 'empty', 'end', 'opt'):
        return True
    if t == 'ref':
        return tab[e[1]]
    if t in ('memo', 'name', 'ltrim', 'rtrim'):
        return produces(e[2], tab)
    if t in ('suppress', 'single'):
        return produces(e[1], tab)
    if t in ('any', 'choice'):
        return any(produces(x, tab) for x in e[1])
    if t == 'seq':
        kind, ps = e[1], e[5]
        if kind == 'SeqOf':
            return all(produces(x, tab) for x in ps)
        if kind in ('SeqTry', 'SeqFirstOrAll'):
            return produces(ps[0], tab)
        return kind[1] or produces(ps[0], tab)
    raise ValueError(t)


def all_productive(rules, root):
    tab = productive_table(rules)
    return all(tab) and produces(root, tab)


def name_alternatives(e, counter):
    """wrap every Any/Choice in a Name"""
    t = e[0]
    if t in ('any', 'choice'):
        counter[0] += 1
        return ('name', [65, 48 + counter[0] % 10, 48 + (counter[0] // 10) % 10], (t, [name_alternatives(x, counter) for x in e[1]]))
    if t == 'seq':
        return e[:5] + ([name_alternatives(x, counter) for x in e[5]],)
    if t in ('memo', 'name', 'ltrim', 'rtrim'):
        return (t, e[1], name_alternatives(e[2], counter))
    if t in ('opt', 'suppress', 'single'):
        return (t, name_alternatives(e[1], counter))
    return e


def has_op(rules, root, ops):
    return any(e[0] in ops for e in itertools.chain(*[walk(r) for r in rules + [root]]))
