"""C01 — engine property check (see DESIGN.md section 6, C01)."""
from engcommon import *          # noqa: F401,F403
import engcommon

ID = "C01"
HARNESS = "c01_harness"
COQ_TARGETS = engcommon.COQ_BASE + ["Props/C01.vo"]
DEV = True    # until Props/C01.v exists
