"""C01 — engine property check (see DESIGN.md section 6, C01)."""
from engcommon import *          # noqa: F401,F403
import engcommon
engcommon.TRIM_FAMILIES = True     # left recursion through trims of every mode

ID = "C01"
HARNESS = "c01_harness"
COQ_TARGETS = engcommon.COQ_BASE + ["Props/C01.vo"]

MANIFEST = {'technique': "Rocq proofs of soundness (all combinators) and of completeness under left recursion (curtailment invariant + pumping lemma) about an executable engine model; model run inside Coq against the Go engine; executable derivation checker and least-fixpoint end sets as oracle on the implementation's trees", 'text': "Props/C01.v: C01_sound (every returned tree is the yield of a valid derivation, contiguous spans, leaves spell the input; all operators of the fragment incl. Choice/Many/SepBy/SeqTry/SeqFirstOrAll), C01_sound_all (all combinators), C01_complete_invariant/ends/trees for the monotone fragment (every reachable end always, every tree without a unit cycle) under direct, indirect and hidden left recursion, and C01_exact_sound/_complete_ends/_complete_trees/_empty for every STRATIFIED grammar with Choice, Many, SepBy, SeqTry, SeqFirstOrAll (exact derivations = valid + first-match + longest-path premises, by recursion on the stratum; decidable stratification check), for all inputs, offsets and fuel. Outside: positional-only stratification (an observer whose operand re-enters its own rule after consuming input), End inside rules, Name/trim/Suppress/Single for completeness (soundness covers them). Every run compares the model (vm_compute) with the real engine on enumerated and random grammars and evaluates the specification (derivation validity, least-fixpoint end set) on the implementation's trees.", 'note': "Trusted: Coq kernel, vm_compute; the hand-written engine model (validated by whole-observation differential runs: results, errors, call counts, activation and failure logs); Go driver with probes; ASCII rune terminals; Memoize indexes unique (Go's atomic counter).", 'ref': 'DESIGN.md section 6, C01'}
RULE = ("all one-rule monotone grammars up to a node bound x all inputs over {a,b} up to a length bound (enumerated), plus random "
        "grammars over all combinators, named and unnamed; non-trivial = non-empty root result or failing Sentence parse; "
        "distinct = distinct case text")
CORRESPONDENCE = "engine model (coq/Engine.v, eng_expected) = implementation on the projection of this property"
FAST = 1
