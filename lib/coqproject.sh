#!/bin/sh
# (Re)generates coq/_CoqProject and coq/Makefile when the set of .v files changed.
# Scratch files written by the checks live under work/, never under coq/.
cd "$(dirname "$0")/../coq" || exit 1
{ echo "-Q . Parsley"; find . -name '*.v' | sed 's|^\./||' | LC_ALL=C sort; } > _CoqProject.new
if [ ! -f Makefile ] || ! cmp -s _CoqProject.new _CoqProject; then
  mv _CoqProject.new _CoqProject
  coq_makefile -f _CoqProject -o Makefile >/dev/null || exit 1
else
  rm -f _CoqProject.new
fi
