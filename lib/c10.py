"""C10 — whitespace modes are enforced exactly and permitted whitespace is transparent."""
import itertools

import engcommon
import gramgen as G
from gramgen import A, B

ID = "C10"
SUBCMD = "eng"
IMPORTS = engcommon.IMPORTS + ["Trim"]
HARNESS = "c10_harness"
COQ_TARGETS = engcommon.COQ_BASE + ["Reader.vo", "ReaderProofs.vo", "Trim.vo", "TrimProofs.vo", "Props/C10.vo"]
STALL = 3
CORRESPONDENCE = ("engine model (Engine.v PLeftTrim/PRightTrim/parse_top, Grammar.v skip_ws) = implementation on: "
                  "Parse(Sentence(root)) node or error text, the root parser's own nodes and error, Parse(root) node or error text")
RULE = ("grammars Sentence(SeqOf(tok_1 .. tok_n)), tok = [RightTrim mr] [LeftTrim ml] Rune(a|b), n = 1..3; every (none|4 modes) x "
        "(none|4 modes) assignment for n = 1 (each with every gap string up to length 2 (quick) / 3 (thorough) over "
        "{space, tab, LF, FF} plus CRLF, lone CR and non-whitespace intruders in the left gap and in the right gap), every one "
        "of the 625 assignments for n = 2 with sampled gap strings, sampled assignments for n = 3, random longer gaps, gaps at "
        "end of file, a stream whose input does not match a token, and a stream of non-token operands (SeqTry / Any under a "
        "trim) where the context's furthest error lies behind the whitespace error, and LeftTrim(SeqOf(a, b), m) (an operand "
        "that fails behind its start); base offsets 1, 2, 7. "
        "non-trivial = some gap of the input is non-empty; distinct = distinct case text")
TRUSTED = ["Coq 8.16.1 kernel and vm_compute",
           "hand-written engine model coq/Engine.v + coq/Grammar.v (skip_ws) tied to the code by this differential run",
           "coq/FileSet.v (error text with file:line:column; C11) used to render the expected whitespace error",
           "Go driver harness/eng.go (public API only)", "lib/core.py, lib/gramgen.py"]
ASSUMPTIONS = ["single-byte (ASCII) rune terminals", "Go ints unbounded", "base offset >= 1 (what NewFile/FileSet assign)",
               "the oracle judges token grammars by coq/Trim.v spec_tokens (the property as written); for a non-matching "
               "rune and a missing end of input it only requires that the parse fails",
               "RightTrim modelled by value (no Memoize in these grammars, so K1 does not apply)"]

MODES = ["WsNone", "WsSpaces", "WsSpacesNl", "WsSpacesForceNl"]
SIDES = [None] + MODES
WS = [32, 9, 10, 12]
SP, TAB, LF, FF, CR, X = 32, 9, 10, 12, 13, 120


def tok(ml, c, mr):
    e = ('rune', c)
    if ml is not None:
        e = ('ltrim', ml, e)
    if mr is not None:
        e = ('rtrim', mr, e)
    return e


def layout(gaps, runes):
    """gaps[0] rune[0] gaps[1] ... rune[n-1] gaps[n]"""
    out = list(gaps[0])
    for c, g in zip(runes, gaps[1:]):
        out.append(c)
        out += g
    return out


def ws_strings(maxlen):
    return [list(s) for n in range(maxlen + 1) for s in itertools.product(WS, repeat=n)]


EXTRA = [[CR, LF], [SP, CR, LF], [CR], [X], [SP, X], [LF, CR, LF]]
SMALL = [[], [], [SP], [LF], [TAB], [FF], [SP, LF], [SP, SP], [CR, LF]]


# ---- a mirror of coq/Trim.v spec_tokens, only to label the cases (stream statistics; "k3" = the shape of the repaired
# defect K3: a violated left mode WsNone/WsSpaces under a right trim); the verdicts come from Coq ----

def normalize(d):
    out, i = [], 0
    while i < len(d):
        if d[i] == CR and i + 1 < len(d) and d[i + 1] == LF:
            out.append(LF)
            i += 2
        else:
            out.append(d[i])
            i += 1
    return out


def run(d, p):
    e, nl = p, None
    while e < len(d) and d[e] in WS:
        if d[e] in (LF, FF) and nl is None:
            nl = e
        e += 1
    return p, e, nl


def mode_ok(m, r):
    s, e, nl = r
    return {"WsNone": e == s, "WsSpaces": nl is None, "WsSpacesNl": True, "WsSpacesForceNl": nl is not None}[m]


def first_outcome(toks, data):
    """('accept'|'b'|'c'|'d', index of the deciding token)"""
    d = normalize(data)
    p = 0
    for i, (ml, c, mr) in enumerate(toks):
        lrun = run(d, p) if ml else (p, p, None)
        q = lrun[1]
        if q < len(d) and d[q] == c:
            if ml and not mode_ok(ml, lrun):
                return 'b', i
            rrun = run(d, q + 1) if mr else (q + 1, q + 1, None)
            if mr and not mode_ok(mr, rrun):
                return 'c', i
            p = rrun[1]
        else:
            return 'd', i
    return ('accept' if p == len(d) else 'noend'), len(toks)


def mk(toks, gaps, stream, rng=None, data=None, offset=None):
    runes = [c for _, c, _ in toks]
    if data is None:
        data = layout(gaps, runes)
    root = G.seqof(*[tok(*t) for t in toks])
    what, i = first_outcome(toks, data)
    k3 = what == 'b' and toks[i][2] is not None and toks[i][0] in ("WsNone", "WsSpaces")
    if offset is None:
        offset = rng.choice([1, 1, 2, 7]) if rng else 1
    meta = {"stream": stream, "outcome": what, "k3": k3, "nontrivial": any(len(g) > 0 for g in gaps)}
    return G.case_text([], root, data, offset=offset, flags=0), meta


def rand_gap(rng, maxlen=4):
    r = rng.random()
    if r < 0.25:
        return []
    if r < 0.35:
        return rng.choice(EXTRA)
    return [rng.choice([SP, SP, TAB, LF, LF, FF]) for _ in range(rng.randrange(1, maxlen + 1))]


def rand_toks(rng, n):
    return [(rng.choice(SIDES), rng.choice([A, B]), rng.choice(SIDES)) for _ in range(n)]


def ctx_further(rng):
    """operands that are not single runes: the whitespace error is returned while the context already holds a
    further error (SeqTry's partial result / Any's failed alternative record it)"""
    a, b = ('rune', A), ('rune', B)
    trya = ('seq', 'SeqTry', 'INone', False, None, [a, b])
    anya = ('any', [G.seqof(a, b), a])
    tryl = ('seq', 'SeqTry', 'INone', False, None, [a, ('ltrim', 'WsSpacesNl', b)])
    out = []
    shapes = []
    for m in ("WsNone", "WsSpaces", "WsSpacesForceNl"):
        shapes.append((('ltrim', m, trya), 'l'))
        shapes.append((('ltrim', m, anya), 'l'))
        shapes.append((('rtrim', m, tryl), 'r'))
        shapes.append((G.seqof(tok("WsSpacesNl", B, None), ('ltrim', m, trya)), 'lb'))
    for root, kind in shapes:
        for _ in range(8):
            g = rand_gap(rng, 3)
            if kind == 'l':
                data = g + [A, 99]
            elif kind == 'lb':
                data = [B] + g + [A, 99, 99]
            else:
                data = [A] + g + [99]
            out.append((G.case_text([], root, data, offset=rng.choice([1, 2, 7]), flags=0),
                        {"stream": "context-error-further", "nontrivial": len(g) > 0, "k3": False, "outcome": "n/a"}))
    return out


def words(rng, quick):
    """LeftTrim(SeqOf(a, b), m): an operand that can fail behind its start (the word breaks off after its first rune)"""
    out = []
    gaps = ws_strings(1 if quick else 2) + [[SP, LF], [CR, LF], [X]] + [rand_gap(rng) for _ in range(3 if quick else 12)]
    for m in MODES:
        for g in gaps:
            for tail in ([A, B], [A, 99], [A], [B, B]):
                root = ('ltrim', m, G.seqof(('rune', A), ('rune', B)))
                out.append((G.case_text([], root, g + tail, offset=rng.choice([1, 2, 7]), flags=0),
                            {"stream": "word-under-lefttrim", "nontrivial": len(g) > 0, "k3": False, "outcome": "n/a"}))
    return out



def decorated_tokens(rng, quick):
    """trimmed tokens inside the combinators that rewrite errors or results: a named sequence / Name / one-element
    sequence / Single / SuppressError / Optional / Choice around (or starting with) the trimmed token: the whitespace
    error of the mode must come through unchanged (a Name replaces only "was expecting" errors at its start)"""
    out = []
    a, b = ('rune', A), ('rune', B)
    gaps = ws_strings(1) + [[SP, SP], [SP, LF], [LF, SP], [CR, LF]] + [rand_gap(rng, 3) for _ in range(1 if quick else 8)]
    for m in MODES:
        lt, rt = ('ltrim', m, b), ('rtrim', m, a)
        lefts = [('seq', 'SeqOf', 'INone', False, [83, 49], [lt, a]), ('seq', 'SeqOf', 'INone', True, [83, 50], [lt]),
                 ('name', [78, 49], lt), ('name', [78, 50], G.seqof(lt, a)), G.seqof(lt), ('single', G.seqof(lt)),
                 ('choice', [lt, a]), ('any', [G.seqof(lt, a), lt]), ('opt', lt), ('suppress', lt),
                 ('seq', 'SeqTry', 'INone', False, [83, 51], [lt, a])]
        rights = [('seq', 'SeqOf', 'INone', False, [83, 52], [rt]), ('name', [78, 51], rt), ('single', G.seqof(rt)),
                  ('choice', [rt, b]), ('seq', 'SeqOf', 'INone', False, [83, 53], [a, ('rtrim', m, b)])]
        for g in gaps:
            for l in lefts:
                for tail in ([B, A], [B], [A]):
                    out.append((G.case_text([], G.seqof(a, l), [A] + g + tail, offset=rng.choice([1, 2, 7]), flags=0),
                                {"stream": "decorated-token", "nontrivial": len(g) > 0, "k3": False, "outcome": "n/a"}))
            # a right trim around something that matched NOTHING (Many, Optional, SepBy): the empty result is moved over
            # the whitespace like any other
            many = ('seq', ('SMany', True), 'INone', False, None, [a])
            sepby = ('seq', ('SSepBy', True), 'INone', False, None, [a, ('rune', 44)])
            for empty in (many, ('opt', a), sepby, G.seqof(('opt', a), ('opt', ('rune', 44)))):
                for lead in ([], [B]):
                    root = G.seqof(*([('rune', B)] if lead else []), ('rtrim', m, empty), b)
                    out.append((G.case_text([], root, lead + g + [B], offset=rng.choice([1, 2, 7]), flags=0),
                                {"stream": "decorated-token", "nontrivial": len(g) > 0, "k3": False, "outcome": "n/a"}))
            for r in rights:
                for tail in ([B], [A, B]):
                    out.append((G.case_text([], G.seqof(r, b), [A] + g + tail, offset=rng.choice([1, 2, 7]), flags=0),
                                {"stream": "decorated-token", "nontrivial": len(g) > 0, "k3": False, "outcome": "n/a"}))
    return out


def ambiguous_tokens(rng, quick):
    """a trimmed token with SEVERAL results (an operator that is a prefix of another: Any('<', '<=')) between two tokens:
    the whitespace behind each alternative has to be skipped and judged for that alternative"""
    out = []
    lt, eq = ('rune', 60), ('rune', 61)
    op = ('any', [lt, G.seqof(lt, eq)])
    op2 = ('any', [G.seqof(lt, eq), lt])
    gaps = ws_strings(1 if quick else 2) + [[SP, SP], [SP, TAB, SP]] + [rand_gap(rng, 3) for _ in range(2 if quick else 10)]
    for o in (op, op2):
        for mode in ("WsSpacesNl", "WsSpaces"):
            for trimmed in (('rtrim', mode, o), G.seqof(o, ('ltrim', mode, ('rune', B)))):
                for g in gaps:
                    for mid in ([60], [60, 61]):
                        if trimmed[0] == 'rtrim':
                            root = G.seqof(('rune', A), trimmed, ('rune', B))
                        else:
                            root = G.seqof(('rune', A), trimmed)
                        out.append((G.case_text([], root, [A] + mid + g + [B], offset=rng.choice([1, 2, 7]), flags=0),
                                    {"stream": "ambiguous-token", "nontrivial": len(g) > 0, "k3": False, "outcome": "n/a"}))
    return out


def generate(rng, tier):
    quick = tier == "quick"
    out = []
    strings = ws_strings(2 if quick else 3) + EXTRA
    # n = 1: every assignment x every gap string on one side
    for ml in SIDES:
        for mr in SIDES:
            t = [(ml, A, mr)]
            few = [[], [SP], [LF], [CR, LF], [X]]
            for g in (strings if ml is not None or not quick else few):      # an untrimmed side: a few strings suffice
                out.append(mk(t, [g, rng.choice(SMALL)], "one-token-left-gap", rng))
            for g in (strings if mr is not None or not quick else few):
                out.append(mk(t, [rng.choice(SMALL), g], "one-token-right-gap", rng))
            if not quick:
                for g1 in ws_strings(2) + EXTRA:
                    for g2 in ws_strings(1) + [[SP, LF], [CR, LF], [X]]:
                        out.append(mk(t, [g1, g2], "one-token-both-gaps", rng))
    # n = 2: every assignment, sampled gaps (the middle gap is shared by a right and a left side)
    reps = 1 if quick else 8
    for ml1, mr1, ml2, mr2 in itertools.product(SIDES, repeat=4):
        t = [(ml1, A, mr1), (ml2, rng.choice([A, B]), mr2)]
        for k in range(reps):
            mid = rng.choice(strings) if k % 2 == 0 else rand_gap(rng)
            out.append(mk(t, [rng.choice(SMALL), mid, rng.choice(SMALL)], "two-tokens", rng))
    if not quick:
        for (mr1, ml2) in itertools.product(SIDES, repeat=2):
            for mid in strings:
                out.append(mk([(None, A, mr1), (ml2, B, None)], [[], mid, []], "two-tokens-middle-gap", rng))
    # n = 3 (and a few longer): sampled
    for _ in range(150 if quick else 4000):
        n = rng.choice([3, 3, 3, 4, 5])
        t = rand_toks(rng, n)
        out.append(mk(t, [rand_gap(rng) for _ in range(n + 1)], "three-or-more-tokens", rng))
    # accepted layouts with long random gaps (Trim on every token, and modes chosen to fit)
    for _ in range(120 if quick else 1500):
        n = rng.choice([1, 2, 3])
        t = [("WsSpacesNl", rng.choice([A, B]), "WsSpacesNl") for _ in range(n)]
        if rng.random() < 0.5:
            t = [(rng.choice([None, "WsSpaces", "WsSpacesNl"]), c, rng.choice(["WsSpaces", "WsSpacesNl"])) for _, c, _ in t]
            gaps = [[]] + [[rng.choice([SP, TAB]) for _ in range(rng.randrange(0, 9))] for _ in range(n)]
        else:
            gaps = [[rng.choice(WS) for _ in range(rng.randrange(0, 12))] for _ in range(n + 1)]
        out.append(mk(t, gaps, "long-gaps", rng))
    # the input does not match a token
    for _ in range(100 if quick else 2000):
        n = rng.choice([1, 2, 3])
        t = rand_toks(rng, n)
        gaps = [rand_gap(rng, 3) for _ in range(n + 1)]
        data = layout(gaps, [c for _, c, _ in t])
        idx = [i for i, x in enumerate(data) if x in (A, B)]
        r = rng.random()
        if idx and r < 0.5:
            i = rng.choice(idx)
            data[i] = A + B - data[i]
        elif idx and r < 0.75:
            del data[rng.choice(idx)]
        else:
            data = data + [rng.choice([A, B])]
        out.append(mk(t, gaps, "mismatch", rng, data=data))
    out += ctx_further(rng)
    out += words(rng, quick)
    out += ambiguous_tokens(rng, quick)
    out += decorated_tokens(rng, quick)
    if not quick:
        out += ctx_further(rng) + ctx_further(rng)
    return out


def nontrivial(case, obs, meta):
    return bool(meta.get("nontrivial"))


def distribution(cases, obs):
    d = {}
    for (c, m), o in zip(cases, obs):
        k = "outcome_" + str(m.get("outcome", "corpus"))
        d[k] = d.get(k, 0) + 1
        if m.get("k3"):
            d["former_k3_shape"] = d.get("former_k3_shape", 0) + 1
        parts = o.split('(OT "Top" ')
        if len(parts) > 1 and parts[1].startswith('[(OT "Node"'):
            d["sentence_accepted"] = d.get("sentence_accepted", 0) + 1
    return d


MANIFEST = {
    'technique': ('Rocq proofs about the engine model (skip_ws = byte-level run specification; LeftTrim/RightTrim accept/reject '
                  'tables; induction over token sequences through seq_step/alts_loop; parse_top error preference) + differential '
                  'run of the model (vm_compute) against the real combinators, with the property itself (coq/Trim.v spec_tokens, '
                  'spec_lefttrim_word, ws_wins_oracle) evaluated on every observation of the implementation'),
    'text': ('Props/C10.v: C10_skip_run / C10_run_unique / C10_skip_ws_spec (SkipWhitespaces = end of the maximal run of {space, '
             'tab, LF, FF} and the mode table with the three error positions), C10_skip_ws_reader (the engine model\'s skip_ws = '
             'the C09 Reader model), C10_lefttrim_spec / C10_righttrim_spec (accept/reject tables for a rune), C10_lefttrim_table / '
             'C10_righttrim_table_node / C10_righttrim_table_err (any operand), C10_lefttrim_word (an operand failing behind its '
             'start: the whitespace error wins), C10_tokens_spec / C10_tokens_code (Parse(Sentence(SeqOf tokens)) = the property\'s '
             'spec_parse for EVERY token list and input), C10_transparent / C10_transparent_top (accepted tokens stand at their own '
             'runes; two whitespace variants give the same token list, starts shifted by the inserted lengths), '
             'C10_trim_any_whitespace (Trim tokens accept every whitespace string in every gap), C10_ws_error_wins. The check runs '
             'token sequences x mode assignments x gap strings through the real parsley.Parse and requires model = '
             'implementation and specification = implementation.'),
    'note': ('Trusted: Coq kernel + vm_compute; the hand-written engine model (validated by this differential run); FileSet.v '
             'for line:column rendering; Go driver; ASCII runes; offsets >= 1. Repaired defect K3 (RightTrim relocated '
             'the whitespace error of an inner LeftTrim to the end of the run) is kept as a regression case.'),
    'ref': 'DESIGN.md section 6, C10; notes/C10.md',
}
