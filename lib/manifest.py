#!/usr/bin/env python3
"""Regenerates /verif/MANIFEST.json from the table below (run from anywhere)."""
import json
import os

ROOT = os.path.dirname(os.path.dirname(os.path.abspath(__file__)))
BASELINE_OFF = ("cd /repo && GOFLAGS=-mod=mod GOPROXY=off GOSUMDB=off GOTOOLCHAIN=local "
                "go test -json -vet=off -count=1 -timeout 25m ./...")

import importlib
import sys
sys.path.insert(0, os.path.join(ROOT, "lib"))

# Every lib/cNN.py that defines MANIFEST = {technique, text, note, ref} is a claimed property.
READY = set(open(os.path.join(ROOT, "lib", "ready.txt")).read().split())   # properties whose check is complete and committed
CLAIMED = {}
for _f in sorted(os.listdir(os.path.join(ROOT, "lib"))):
    if len(_f) == 6 and _f[0] == "c" and _f.endswith(".py") and _f[1:3].isdigit():
        _m = importlib.import_module(_f[:-3])
        if hasattr(_m, "MANIFEST") and _m.ID in READY:
            e = _m.MANIFEST
            CLAIMED[_m.ID] = (e["technique"], e["text"], e["note"], e["ref"])

NOT_YET = {}


def main():
    props = [json.loads(l)["id"] for l in open(os.path.join(ROOT, "properties.jsonl")) if l.strip()]
    checks = []
    na = []
    for pid in props:
        if pid in CLAIMED:
            tech, text, note, ref = CLAIMED[pid]
            checks.append({
                "property_id": pid,
                "quick_cmd": "./check %s --tier quick" % pid,
                "thorough_cmd": "./check %s --tier thorough" % pid,
                "evidence_file": "/verif/evidence/%s.json" % pid,
                "replay_cmd_template": "./check %s --replay {path}" % pid,
                "engine": "rocq-model-correspondence",
                "level_claimed": {"category": "proof", "text": text, "design_ref": ref},
                "level_note": note,
                "technique": tech,
            })
        else:
            na.append({"property_id": pid, "reason": NOT_YET.get(pid, "check not built yet in this round; claimed once its model, theorems and correspondence exist (see DESIGN.md section 9)")})
    man = {
        "version": 1,
        "setup_cmd": "./setup.sh",
        "hooks": {"guard": "verif", "enable": "go build -tags verif (the harness module replaces github.com/opsidian/parsley by /repo)",
                  "baseline_off_cmd": BASELINE_OFF, "source_commits": [], "add_only": True},
        "engines": [{"name": "rocq-model-correspondence", "path": "/verif/coq + /verif/harness + /verif/lib",
                     "serves_properties": sorted(CLAIMED),
                     "kind_free_text": "Rocq (Coq 8.16.1) theorems about a hand-written executable model; the model is run "
                                       "inside Coq (vm_compute) against the Go implementation built from /repo's working tree"}],
        "checks": checks,
        "notes": "See DESIGN.md. Known findings: known_findings.txt.",
        "not_applicable": na,
    }
    json.dump(man, open(os.path.join(ROOT, "MANIFEST.json"), "w"), indent=1)


if __name__ == "__main__":
    main()
