"""C09 — text.Reader primitives match a byte-level specification and stay in bounds."""
import itertools

ID = "C09"
SUBCMD = "c09"
IMPORTS = ["FileSet", "Utf8", "Reader"]
HARNESS = "c09_harness"
COQ_TARGETS = ["FileSet.vo", "Utf8.vo", "Reader.vo", "ReaderProofs.vo", "Props/C09.vo"]
CORRESPONDENCE = ("c09_expected (Reader.v model of every text.Reader primitive, Utf8.v model of utf8.DecodeRune, "
                  "hand-written matchers for the four fixed expressions) = implementation, at every position of the file")
RULE = ("file contents enumerated exhaustively over {a, b, space, LF, CR, tab|FF, 0xC3, 0xA9} (tab and FF alternate with "
        "the content's index) up to a length bound, a second small exhaustive layer over {a, 0xC3, 0xA9, 0xBF, 0xFF}, base "
        "offsets 1, 2, 17 (all three up to a length bound, rotating above), every position offset..offset+len, every "
        "primitive with a fixed small argument set; plus random longer files (valid 2/3/4-byte runes, ill-formed "
        "sequences, CRLF, digits, words) with arguments cut from the content. non-trivial = the file is non-empty; "
        "distinct = distinct case text")
TRUSTED = ["Coq 8.16.1 kernel and vm_compute",
           "hand-written models coq/Reader.v, coq/Utf8.v tied to the code by this differential run",
           "the four fixed regular expressions and three Readf callbacks are mirrored by hand in Coq (Reader.v) and Go (c09.go)",
           "Go driver harness/c09.go", "lib/core.py orchestration"]
ASSUMPTIONS = ["positions lie in [offset, offset+len] and offset >= 1 (what a FileSet / NewFile assigns)",
               "Go int arithmetic does not overflow (unbounded N in the model)",
               "runes are non-negative",
               "Go's regexp is represented by a matcher function (length of the leftmost match anchored at the cursor, "
               "at most the remaining length); Readf's callback by a function obeying Readf's contract",
               "a slice expression beyond len(data) is treated as a panic (Go's bound is the capacity)"]
EXHAUSTIVE = {"quick": False, "thorough": False}

RUNES = [97, 10, 233, 255, 8364, 128512, 65533]        # a LF é ÿ € 😀 U+FFFD
STRS = [[97], [97, 98], [195, 169], [10], [98, 32]]
WORDS = [[97], [97, 98], [98, 98]]
OFFSETS = [1, 2, 17]


def lst(xs):
    return "[" + "; ".join(str(x) for x in xs) + "]"


def lst2(xss):
    return "[" + "; ".join(lst(x) for x in xss) + "]"


def case(raw, off, runes=RUNES, strs=STRS, words=WORDS):
    return "C09 %s %d %s %s %s" % (lst(raw), off, lst(runes), lst2(strs), lst2(words))


def enc(r):
    if r < 0x80:
        return [r]
    if r < 0x800:
        return [0xC0 | r >> 6, 0x80 | r & 63]
    if r < 0x10000:
        return [0xE0 | r >> 12, 0x80 | (r >> 6) & 63, 0x80 | r & 63]
    return [0xF0 | r >> 18, 0x80 | (r >> 12) & 63, 0x80 | (r >> 6) & 63, 0x80 | r & 63]


def is_word(b):
    return 97 <= b <= 122 or 65 <= b <= 90 or 48 <= b <= 57 or b == 95


PIECES = ([[c] for c in b"abzAZ09_ab  \t\n\n\x0c\r;.-"] + [[13, 10]] * 3 + [[97, 98]] * 3 + [[49, 50, 51]] +
          [enc(0xE9), enc(0xFF), enc(0x20AC), enc(0x1F600), enc(0xFFFD), enc(0x7FF), enc(0x800), enc(0xFFFF), enc(0x10000),
           enc(0x10FFFF), enc(0xD7FF), enc(0xE000)] +
          [[0xC0, 0x80], [0xC1, 0xBF], [0xE0, 0x9F, 0xBF], [0xED, 0xA0, 0x80], [0xF0, 0x8F, 0xBF, 0xBF], [0xF4, 0x90, 0x80, 0x80],
           [0xF5, 0x80, 0x80, 0x80], [0xE2, 0x82], [0xF0, 0x9F, 0x98], [0xC3], [0xA9], [0xFF], [0x80], [0xBF], [0xE2], [0xF0, 0x9F]])


def generate(rng, tier):
    out = []
    maxlen = 4 if tier == "quick" else 5
    all_off = 3 if tier == "quick" else 4        # all three offsets up to this length, one (rotating) above
    k = 0
    for n in range(maxlen + 1):
        for c in itertools.product(range(8), repeat=n):
            k += 1
            alpha = [97, 98, 32, 10, 13, 9 if k % 2 else 12, 0xC3, 0xA9]
            raw = [alpha[i] for i in c]
            offs = OFFSETS if n <= all_off else [OFFSETS[k % 3]]
            for off in offs:
                out.append((case(raw, off), {"stream": "enumerated"}))
    # ill-formed / multi-byte layer
    alpha2 = [97, 0xC3, 0xA9, 0xBF, 0xFF]
    for n in range(1, 4 if tier == "quick" else 5):
        for c in itertools.product(alpha2, repeat=n):
            k += 1
            out.append((case(list(c), OFFSETS[k % 3]), {"stream": "enumerated-utf8"}))
    # word boundary: a word followed by every possible byte value (MatchWord's isWordCharacter is a predicate on bytes)
    for b in range(256):
        k += 1
        out.append((case([116, 114, 117, 101, b, 120], OFFSETS[k % 3], words=[[116, 114, 117, 101], [116, 114]]),
                    {"stream": "word-boundary-bytes"}))
    # random longer files
    for _ in range(200 if tier == "quick" else 2000):
        raw = []
        target = rng.choice([6, 8, 12, 20, 40, 80])
        while len(raw) < target:
            raw += rng.choice(PIECES)
        off = rng.choice([1, 2, 17, rng.randrange(1, 1000), rng.randrange(1000, 10 ** 6)])
        runes = list(RUNES)
        strs = [list(s) for s in STRS]
        words = [list(w) for w in WORDS]
        for _ in range(2):
            i = rng.randrange(len(raw))
            j = min(len(raw), i + rng.choice([1, 2, 3, 5]))
            strs.append(raw[i:j])
            w = []
            for b in raw[i:]:
                if not is_word(b) or len(w) >= 4:
                    break
                w.append(b)
            if w:
                words.append(w)
                if rng.random() < 0.5 and len(w) > 1:
                    words.append(w[:-1])
        runes.append(rng.choice([0x7FF, 0x800, 0xFFFF, 0x10000, 0x10FFFF, 0xD7FF, 0xE000, 0x7F, 0x80, 32, 0x5F]))
        out.append((case(raw, off, runes, strs, words), {"stream": "random"}))
    # big files (the rows are taken at the first/last 100 positions and around every multiple of 4096): short lines with
    # CRLF pairs astride multiples of 4096 and 65536 of the raw content
    bigs = [(70000, [65535], 1), (66000, [4095, 8191, 32767, 65534], 17)]
    if tier != "quick":
        bigs += [(140000, [65535, 131071], 2), (70000, [65534], 1), (70000, [65536], 5)]
    for size, crs, off in bigs:
        big = "(big_bytes %d [97; 98; 32; 49; 50; 9; 97; 97; 98] 23 37 %s)" % (size, lst(crs))
        out.append(("C09 %s %d %s %s %s" % (big, off, lst(RUNES), lst2(STRS), lst2(WORDS)), {"stream": "big"}))
    return out


def nontrivial(case_text, obs, meta):
    return not case_text.startswith("C09 [] ") and "Panic" not in obs


def distribution(cases, obs):
    d = {"positions": 0, "empty_files": 0, "with_crlf": 0, "with_multibyte_or_illformed": 0, "panic_rows": 0}
    for (c, _), o in zip(cases, obs):
        d["positions"] += o.count("(OS ")
        d["panic_rows"] += o.count("Panic")
        body = c.split("]")[0]
        if body == "C09 [":
            d["empty_files"] += 1
        if "13; 10" in body:
            d["with_crlf"] += 1
        if any(int(x) >= 128 for x in body[5:].split("; ") if x.strip().isdigit()):
            d["with_multibyte_or_illformed"] += 1
    return d


MANIFEST = {
    "technique": ("Rocq proof that the model of every text.Reader primitive never panics and equals a byte-level "
                  "specification + differential run of the model (vm_compute) against the Go code at every position"),
    "text": ("Theorems C09_* (coq/Props/C09.v) prove, for every byte content, base offset >= 1 and position in "
             "[offset, offset+len], that the model of ReadRune, MatchString, MatchWord, ReadRegexp, ReadRegexpSubmatch, "
             "Readf, Remaining, IsEOF, SkipWhitespaces and Pos evaluates no out-of-range index (never Panic), returns what "
             "the prefix/UTF-8/whitespace-run specification says, moves by exactly the matched length and never beyond "
             "the end of the file, stays put on a mismatch, and commutes with moving the file to another base offset. "
             "utf8.DecodeRune is modelled in full and proved to be the inverse of the encoder on exactly the valid runes. "
             "The hand-written model is tied to /repo by running it inside Coq against the implementation on "
             "exhaustively enumerated small files and random larger ones on every run."),
    "note": ("Trusted: Coq kernel + vm_compute; the hand-written model (validated by the differential run only on the "
             "generated cases); regexp and Readf callbacks are function parameters with stated contracts; Go driver; "
             "offset >= 1; Go ints unbounded."),
    "ref": "DESIGN.md section 6, C09",
}
