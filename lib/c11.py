"""C11 — global positions <-> file, line, column."""
import itertools

ID = "C11"
SUBCMD = "c11"
IMPORTS = ["FileSet"]
HARNESS = "c11_harness"
CORRESPONDENCE = "c11_expected (FileSet.v model of FileSet/File position arithmetic) = implementation"
RULE = ("file sets enumerated exhaustively over contents of {a, CR, LF} up to a length bound, every global position "
        "0..last+2 probed, plus random larger file sets; non-trivial = at least one file contains a line feed or "
        "the set has more than one file; distinct = distinct case text")
TRUSTED = ["Coq 8.16.1 kernel and vm_compute", "hand-written model coq/FileSet.v tied to the code by this differential run",
           "Go driver harness/c11.go", "lib/core.py orchestration"]
ASSUMPTIONS = ["positions are non-negative", "Go int arithmetic does not overflow (unbounded N in the model)",
               "fmt %d formatting is decimal (show_N)"]
EXHAUSTIVE = {"quick": False, "thorough": False}


def lst(xs):
    return "[" + "; ".join(str(x) for x in xs) + "]"


def case(files, positions):
    return "C11 [%s] %s" % ("; ".join("(%s, %s)" % (lst(n), lst(d)) for n, d in files), lst(positions))


def total_len(files):
    # upper bound of the next free position: raw lengths (normalisation only shrinks)
    return 1 + sum(len(d) + 1 for _, d in files)


def generate(rng, tier):
    out = []
    alpha = [97, 13, 10]
    maxlen = 3 if tier == "quick" else 4
    contents = [list(c) for n in range(maxlen + 1) for c in itertools.product(alpha, repeat=n)]
    names = [[102], [], [103, 46, 116]]
    pct = [[37, 100, 46, 116], [53, 48, 37, 111, 102, 102], [109, 37, 50, 48, 115]]     # "%d.t" "50%off" "m%20s"
    # exhaustive: one and two files
    sets = [[]] + [[c] for c in contents] + [[a, b] for a in contents for b in contents]
    if tier != "quick":
        small = [list(c) for n in range(3) for c in itertools.product(alpha, repeat=n)]
        sets += [[a, b, c] for a in small for b in small for c in small]
    for fs in sets:
        files = [(names[i % 3], d) for i, d in enumerate(fs)]
        out.append((case(files, list(range(0, total_len(files) + 2))), {"stream": "enumerated"}))
    # random larger
    n = 300 if tier == "quick" else 3000
    for _ in range(n):
        k = rng.choice([1, 1, 2, 3, 5, 8])
        files = []
        for i in range(k):
            ln = rng.choice([0, 1, 2, 5, 17, 40, 120])
            d = [rng.choice([97, 98, 10, 10, 13, 32, 200]) for _ in range(ln)]
            # sprinkle CRLF pairs
            for j in range(len(d) - 1):
                if rng.random() < 0.1:
                    d[j], d[j + 1] = 13, 10
            nm = rng.choice([[], [102, 48 + i % 10], [47, 120, 47, 121, 46, 116, 120, 116]] + pct)
            files.append((nm, d))
        tl = total_len(files)
        pos = sorted(set([0, 1, tl - 1, tl, tl + 1, tl + 50] + [rng.randrange(0, tl + 3) for _ in range(30)]))
        out.append((case(files, pos), {"stream": "random"}))
    # big files (read from disk in blocks by a streaming ReadFile, say): CRLF pairs astride multiples of 64 KiB / 4 KiB
    bigs = [(70000, [65535]), (140000, [65535, 131071]), (66000, [4095, 8191, 32767, 65534, 65536])]
    if tier != "quick":
        bigs += [(70000, [65535 - k]) for k in (1, 2)] + [(200000, [65535, 131071, 196607]), (70000, [16383, 65535])]
    for size, crs in bigs:
        big = "(big_bytes %d [97] 40 61 %s)" % (size, lst(crs))
        names = [[97], [98, 46, 116], [99]]
        small = [[120, 10, 121], None, [122, 13, 10, 122]]
        tl = 1 + 4 + (size + 1) + 5
        near = [5 + j - i + k for i, j in enumerate(crs) for k in range(-3, 5)]   # position of the pair in the set, roughly
        pos = sorted(set([0, 1, 5, 6, tl - 8, tl - 1, tl, tl + 1] + near + [j + k for j in crs for k in range(0, 9)] +
                         [rng.randrange(0, tl + 3) for _ in range(40)]))
        text = "C11 [%s] %s" % ("; ".join("(%s, %s)" % (lst(n), big if d is None else lst(d)) for n, d in zip(names, small)), lst(pos))
        out.append((text, {"stream": "big"}))
    return out


def nontrivial(case_text, obs, meta):
    body = case_text.split("] [")[0]
    return "10" in body.replace("110", "") or body.count("(") > 1

COQ_TARGETS = ["FileSet.vo", "FileSetProofs.vo", "Props/C11.vo"]
MANIFEST = {
    "technique": "Rocq proof of model = line-feed-counting spec + differential run of the model (vm_compute) against the Go code",
    "text": ("Theorems C11_* (coq/Props/C11.v) prove, for every list of files and every position, that the model of "
             "FileSet.Position/File.Position (both binary searches, lazily built line table, AddFile layout) never panics "
             "and equals the specification that counts line feeds in the CRLF-normalised content; plus round trip, "
             "injectivity, non-overlap and unknown-position theorems. The hand-written model is tied to /repo by running "
             "its definitions inside Coq against the implementation on enumerated and random file sets on every run."),
    "note": ("Trusted: Coq kernel + vm_compute; the hand-written model (validated by the differential run only on the "
             "generated cases); Go driver; positions non-negative; Go ints unbounded; decimal formatting of %d."),
    "ref": "DESIGN.md section 6, C11",
}
