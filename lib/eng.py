"""ENG — development check: whole-observation agreement of the engine model with the implementation."""
import gramgen as G

ID = "ENG"
DEV = True
SUBCMD = "eng"
IMPORTS = ["FileSet", "Grammar", "Engine", "EngineHarness"]
HARNESS = "eng_harness"
COQ_TARGETS = ["EngineHarness.vo"]
STALL = 8


def generate(rng, tier):
    out = []
    maxsize = 3 if tier == "quick" else 4
    for size in range(1, maxsize + 1):
        for rules, root in G.one_rule_grammars(size):
            if not G.repetition_ok(rules, root):
                continue
            for w in G.inputs_upto(3):
                out.append((G.case_text(rules, root, w), {"stream": "enumerated"}))
    n = 150 if tier == "quick" else 3000
    for i in range(n):
        ops = G.MONO if i % 3 == 0 else G.FULL
        rules, root = G.rand_grammar(rng, ops)
        flags = 1 if G.lr_free(rules) else 0
        for _ in range(2):
            out.append((G.case_text(rules, root, G.rand_input(rng, 5), offset=rng.choice([1, 1, 2, 7]), flags=flags),
                        {"stream": "random"}))
    # literal terminals (text/terminal through Literals.v) mixed with trimming, over inputs built from literal fragments
    n = 250 if tier == "quick" else 2000
    for i in range(n):
        if i % 10 == 0:
            rules, root = G.json_like(rng)
        elif i % 10 == 1:
            rules, root = G.arith_like(rng)
        else:
            rules, root = G.rand_lit_grammar(rng)
        flags = 1 if G.lr_free(rules) else 0
        for j in range(3):
            data = G.rand_lit_input(rng) if j == 0 else G.rand_lit_input_for(rng, rules, root)
            out.append((G.case_text(rules, root, data, offset=rng.choice([1, 1, 2, 7]), flags=flags),
                        {"stream": "literals"}))
    return out
