"""C03 — engine property check (see DESIGN.md section 6, C03)."""
from engcommon import *          # noqa: F401,F403
import engcommon
engcommon.TRIM_FAMILIES = True     # left recursion through trims of every mode

ID = "C03"
HARNESS = "c03_harness"
COQ_TARGETS = engcommon.COQ_BASE + ["Props/C03.vo"]

MANIFEST = {'technique': 'Rocq simulation proof memoised vs plain engine for statically left-recursion-free grammars, at-most-once theorem on the body log; differential run of both builds of every generated grammar', 'text': 'Props/C03.v: C03_transparent (same ordered results, same returned error, same furthest-error position with all Memoize wrappers removed; C03_transparent_subset for any two memoisations), C03_once (no (parser, position) pair twice in the body log), C03_deterministic. The check builds every lr-free generated grammar twice (wrappers on/off) on the real engine, compares results/errors/furthest-error position, counts body executions with a probe under Memoize, and compares all of it with the model.', 'note': 'Trusted: as C01. Known finding K1 (RightTrim mutates a cached node in place) is a model/implementation difference for trimmed memoised parsers; generators keep RightTrim out of memoised grammars.', 'ref': 'DESIGN.md section 6, C03'}
RULE = ("all one-rule monotone grammars up to a node bound x all inputs over {a,b} up to a length bound (enumerated), plus random "
        "grammars over all combinators, named and unnamed; non-trivial = non-empty root result or failing Sentence parse; "
        "distinct = distinct case text")
CORRESPONDENCE = "engine model (coq/Engine.v, eng_expected) = implementation on the projection of this property"
FAST = 3

MAXOBS = 4000000


def generate(rng, tier, **kw):
    """the common streams plus LONG inputs: at most once per position must hold for every length (a result cache that
    forgets, say one that keeps a window of positions, shows only after thousands of positions and a late backtrack)"""
    import gramgen as G
    out = engcommon.generate(rng, tier, **kw)
    a, semi, dot = ('rune', G.A), ('rune', 59), ('rune', 46)
    items = ('seq', ('SMany', False), 'INone', False, None, [('ref', 0)])
    rules = [('memo', 1, a)]
    root = ('any', [G.seqof(items, semi), G.seqof(items, dot)])
    rules, root = G.uniquify_memo(rules, root)
    fl = engcommon.flags_for(rules, root, False)
    for n, last in ((5000, 46), (5000, 59), (6500, 33)) if tier == "quick" else ((5000, 46), (5000, 59), (6500, 33), (9000, 46), (12000, 33)):
        out.append((G.case_text(rules, root, [G.A] * n + [last], flags=fl), {"stream": "long-input", "unproductive": False}))
    return out
