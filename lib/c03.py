"""C03 — engine property check (see DESIGN.md section 6, C03)."""
from engcommon import *          # noqa: F401,F403
import engcommon

ID = "C03"
HARNESS = "c03_harness"
COQ_TARGETS = engcommon.COQ_BASE + ["Props/C03.vo"]
DEV = True    # until Props/C03.v exists
