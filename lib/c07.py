"""C07 — a returned result is never modified afterwards (DESIGN.md section 6, C07; notes/C07.md)."""
import itertools
import re

import engcommon
import gramgen as G
from gramgen import A, B

ID = "C07"
SUBCMD = "c07"
IMPORTS = ["FileSet", "Grammar", "Engine", "EngineHarness", "HeapLog", "EngineH"]
HARNESS = "c07_harness"
COQ_TARGETS = ["EngineH.vo", "HeapLogProofs.vo", "EngineHProofs.vo", "Props/C07.vo"]
STALL = 6
CORRESPONDENCE = ("instrumented engine model (coq/EngineH.v: number of returned values, hash of their at-return renderings "
                  "incl. nil / single node / NodeList, cache-served answers, asked-again keys) = implementation")
RULE = ("every sub-parser of the grammar is wrapped in a recorder; each case is run with the root called directly and under "
        "Sentence; streams: corpus; all one-rule monotone grammars up to a node bound x all inputs over {a,b} up to a length "
        "bound; ALL one-rule grammars of the next size in which the rule refers to itself at least twice (the D1 shape: one "
        "cached list, two consumers); random grammars over all combinators incl. nested Memoize; LeftTrim/RightTrim streams: "
        "trims without a Memoize below (compared in full), the harmless shape (Memoize only below one RightTrim WsSpacesNl) "
        "and the K1 shape (labelled); non-trivial = at least one Memoize call answered from the cache or curtailed; "
        "distinct = distinct case text")
TRUSTED = ["Coq 8.16.1 kernel and vm_compute",
           "hand-written models coq/Engine.v and coq/EngineH.v (instrumented copy, proved to erase to Engine.v), tied to the code by "
           "this differential run: every value returned by every sub-parser (nil / single node / NodeList, rendered at return) is hashed "
           "in order on both sides",
           "Go driver harness/c07.go (recorders around every sub-parser, probes inside Memoize, public API only), harness/eng.go "
           "(rendering), harness/term.go", "lib/core.py, lib/gramgen.py, lib/c07.py"]
ASSUMPTIONS = ["Go's append reallocates to SOME capacity > the old one when len = cap and writes in place otherwise (all heap theorems "
               "are for every growth function)", "single-byte (ASCII) rune terminals", "Go ints unbounded",
               "nodes are values in the engine model: RightTrim above a memoised parser that is also reachable otherwise mutates the "
               "cached node in place (known finding K1, refuted in the cell model C07_righttrim_refuted)",
               "the sanctioned update of the check: a RightTrim may move the reader position of the top-level node(s) of values "
               "returned during its own call (see harness/c07.go)",
               "grammars whose ambiguity exceeds the per-case budget are cut and counted (cut_by_budget)"]

WS = ["WsNone", "WsSpaces", "WsSpacesNl", "WsSpacesForceNl"]
SP, NL = 32, 10
X, Y = 120, 121


# ---------------------------------------------------------------- static shape analysis for K1

def memo_trim_contexts(rules, root):
    """for every Memoize index the set of contexts it is reachable in: None (no RightTrim above on that path), 'ok' (every
    RightTrim above has mode WsSpacesNl and only pass-through combinators lie between the outermost of them and the Memoize:
    each of them receives the memoised parser's own result objects) or 'bad' (a RightTrim of another mode above, or a sequence
    or Single in between: a RightTrim then moves an enclosing node or an extracted child)"""
    ctxs = {}
    seen = set()

    def go(e, cur):
        t = e[0]
        if t == 'ref':
            key = (e[1], cur)
            if key in seen or e[1] >= len(rules):
                return
            seen.add(key)
            go(rules[e[1]], cur)
            return
        if t == 'memo':
            ctxs.setdefault(e[1], set()).add(cur)
        if t == 'rtrim':
            go(e[2], 'ok' if cur in (None, 'ok') and e[1] == "WsSpacesNl" else 'bad')
            return
        if t in ('seq', 'single') and cur is not None:
            cur = 'bad'
        for c in G.children(e):
            go(c, cur)
    go(root, None)
    return ctxs


def shape(rules, root):
    """'plain': no Memoize below a RightTrim; 'harmless': every Memoize below a RightTrim is reachable ONLY as the
    pass-through operand of RightTrims with mode WsSpacesNl (trimming a moved node again is then the identity and never an
    error, and nobody else can see the cached node); otherwise 'k1'"""
    ctxs = memo_trim_contexts(rules, root)
    below = {k: v for k, v in ctxs.items() if any(c is not None for c in v)}
    if not below:
        return 'plain'
    for v in below.values():
        if v != {'ok'}:
            return 'k1'
    return 'harmless'


def classify_known(case, meta, finding):
    """K1: a violation or model difference on a grammar with a RightTrim above a memoised parser that is also reachable
    untrimmed, under another RightTrim, or under a mode whose verdict changes when the trim is applied twice"""
    return finding["id"] == "K1" and meta.get("shape") == "k1"


# ---------------------------------------------------------------- generators

def mk(rules, root, w, stream, offset=1, full=False, extra=None):
    sh = shape(rules, root)
    flags = (1 if full and sh == 'plain' else 0) | (2 if sh != 'plain' else 0)
    meta = {"stream": stream, "shape": sh}
    if extra:
        meta.update(extra)
    return (G.case_text(rules, root, w, offset=offset, flags=flags), meta)


def d1_shaped(size):
    """one-rule grammars whose rule refers to itself at least twice: the cached list of the rule can reach two consumers"""
    for rules, root in G.one_rule_grammars(size):
        body = rules[0][2]
        if sum(1 for e in G.walk(body) if e[0] == 'ref') >= 2 and not engcommon.exponential_shape(rules, root) \
                and G.repetition_ok(rules, root):
            yield rules, root


def trimmed(rng, e, p=0.5):
    r = rng.random()
    if r < p * 0.5:
        return ('rtrim', rng.choice(WS), e)
    if r < p * 0.8:
        return ('ltrim', rng.choice(WS), e)
    if r < p:
        return ('rtrim', "WsSpacesNl", ('ltrim', "WsSpacesNl", e))
    return e


def sprinkle(rng, e, p, allow_ref_below):
    """wrap random sub-expressions in trims; with allow_ref_below=False no RightTrim gets a reference or Memoize below it"""
    t = e[0]

    def has_memo_or_ref(x):
        return any(y[0] in ('ref', 'memo') for y in G.walk(x))
    if t in ('any', 'choice'):
        e = (t, [sprinkle(rng, x, p, allow_ref_below) for x in e[1]])
    elif t == 'seq':
        e = e[:5] + ([sprinkle(rng, x, p, allow_ref_below) for x in e[5]],)
    elif t in ('memo', 'name'):
        e = (t, e[1], sprinkle(rng, e[2], p, allow_ref_below))
    elif t in ('opt', 'suppress', 'single'):
        e = (t, sprinkle(rng, e[1], p, allow_ref_below))
    if rng.random() < p:
        w = trimmed(rng, e, 1.0)
        if not allow_ref_below and has_memo_or_ref(e):
            w = ('ltrim', rng.choice(WS), e)
        return w
    return e


def rand_ws_input(rng, maxlen, alphabet=(A, A, B, B, SP, SP, NL)):
    return [rng.choice(alphabet) for _ in range(rng.randrange(maxlen + 1))]


def memo_bodies(rng):
    return rng.choice([('rune', A),
                       G.seqof(('rune', A), ('opt', ('rune', B))),
                       ('any', [('rune', A), G.seqof(('rune', A), ('rune', B))]),
                       ('any', [('empty',), G.seqof(('empty',)), ('rune', A)]),
                       ('opt', ('rune', A))])


def harmless_case(rng):
    """a memoised parser used only as the operand of RightTrim WsSpacesNl, reached several times at one position"""
    m = ('memo', 50, memo_bodies(rng))
    use = ('rtrim', "WsSpacesNl", ('ref', 0))
    use2 = ('rtrim', "WsSpacesNl", ('name', [78, 49], ('ref', 0)))
    root = rng.choice([
        G.seqof(use, ('opt', ('rune', B))),
        ('any', [G.seqof(use, ('rune', X)), G.seqof(use2, ('rune', Y))]),
        G.seqof(('seq', ('SMany', True), 'INone', False, None, [use]), ('opt', ('rune', Y))),
        ('any', [G.seqof(use, ('rune', B)), use2, G.seqof(use, use)]),
        ('choice', [G.seqof(use, ('rune', X)), G.seqof(use, ('opt', ('rune', Y)))]),
    ])
    return [m], root


def k1_case(rng):
    """a RightTrim above a memoised parser that is also reachable untrimmed / under another trim / under a mode whose
    verdict is not idempotent"""
    m = ('memo', 50, memo_bodies(rng))
    rules = [m]
    r0 = ('ref', 0)
    m1, m2 = rng.choice(WS), rng.choice(WS)
    sp = ('rune', SP)
    root = rng.choice([
        ('any', [G.seqof(('rtrim', m1, r0), ('rune', X)), G.seqof(r0, sp, ('rune', Y))]),          # the DESIGN.md witness (trimmed first)
        ('any', [G.seqof(r0, sp, ('rune', Y)), G.seqof(('rtrim', m1, r0), ('rune', Y))]),          # untrimmed first: the recorded node moves
        ('any', [G.seqof(('rtrim', m1, r0), ('rune', X)), G.seqof(('rtrim', m2, r0), ('rune', Y))]),
        ('rtrim', m1, ('any', [G.seqof(r0, ('opt', ('rune', B))), r0])),
        G.seqof(('opt', G.seqof(r0, sp)), ('rtrim', m1, r0), ('opt', ('rune', Y))),
    ])
    return rules, root


def trim_inputs(rng):
    base = [[A, SP, Y], [A, SP, X], [A, SP, SP, Y], [A, NL, Y], [A, SP, NL, Y], [A, SP], [A], [SP], [A, B, SP, Y], [A, SP, A, SP, Y]]
    return [rng.choice(base), rng.choice(base), rand_ws_input(rng, 6, (A, A, B, SP, SP, NL, X, Y))]


def generate(rng, tier):
    quick = tier == "quick"
    out = []
    # 1. the engine generators (enumerated one-rule grammars, the next size sampled, random grammars with all operators)
    for case, meta in engcommon.generate(rng, "quick", enum_size=4 if quick else 5, enum_len=3 if quick else 4,
                                         sample5=150 if quick else 1500, n_random=250 if quick else 2500):
        m = re.match(r"(Eng .*) \d+$", case)
        out.append((m.group(1) + " 0", {"stream": meta["stream"], "shape": "plain"}))
    # 2. every one-rule grammar of 5 and 6 nodes (thorough: 7 sampled) whose rule refers to itself twice: D1 lives here
    inputs6 = [[A, B, B, B], [B, B], [A, B, B], [A, A, B], [A, B, A, B]]
    for size in (5, 6):
        for rules, root in d1_shaped(size):
            for w in (inputs6 if quick else list(G.inputs_upto(4))):
                out.append(mk(rules, root, w, "two-consumers-%d" % size))
    if not quick:
        g7 = list(d1_shaped(7))
        rng.shuffle(g7)
        for rules, root in g7[:3000]:
            for w in inputs6:
                out.append(mk(rules, root, w, "two-consumers-7"))
    # 3. random grammars with nested Memoize
    ops = G.FULL + ['memo', 'memo']
    for i in range(150 if quick else 2000):
        rules, root = G.rand_grammar(rng, ops)
        if engcommon.exponential_shape(rules, root):
            continue
        for _ in range(2):
            out.append(mk(rules, root, G.rand_input(rng, 5), "random-nested-memo", offset=rng.choice([1, 1, 2, 7]),
                          full=(i % 10 == 0)))
    # 4. trims
    for i in range(120 if quick else 1500):
        # 4a. no Memoize below a RightTrim: compared in full with the model
        rules, root = G.rand_grammar(rng, G.FULL)
        if engcommon.exponential_shape(rules, root):
            continue
        rules = [sprinkle(rng, r, 0.25, False) for r in rules]
        root = sprinkle(rng, root, 0.25, False)
        assert shape(rules, root) == 'plain'
        for _ in range(2):
            out.append(mk(rules, root, rand_ws_input(rng, 6), "trim-plain", offset=rng.choice([1, 2, 7])))
    for i in range(60 if quick else 600):
        toks = [trimmed(rng, ('rune', rng.choice([A, B])), 0.8) for _ in range(rng.choice([1, 2, 3, 4]))]
        body = G.seqof(*toks)
        rules = [('memo', 1, ('any', [G.seqof(('ref', 0), body), body]))] if i % 2 else []
        root = ('ref', 0) if rules else body
        for _ in range(2):
            out.append(mk(rules, root, rand_ws_input(rng, 7), "trim-tokens"))
    for i in range(100 if quick else 1000):
        rules, root = harmless_case(rng)
        while not G.repetition_ok(rules, root):
            rules, root = harmless_case(rng)
        assert shape(rules, root) == 'harmless', (rules, root)
        for w in trim_inputs(rng):
            out.append(mk(rules, root, w, "trim-harmless", full=False))
    for i in range(100 if quick else 1000):
        rules, root = k1_case(rng)
        while shape(rules, root) != 'k1' or not G.repetition_ok(rules, root):
            rules, root = k1_case(rng)
        for w in trim_inputs(rng):
            out.append(mk(rules, root, w, "trim-k1"))
    for i in range(60 if quick else 600):
        # 4e. random grammars with trims anywhere: classified by the static analysis
        rules, root = G.rand_grammar(rng, G.MONO if i % 2 else G.FULL)
        if engcommon.exponential_shape(rules, root):
            continue
        rules = [sprinkle(rng, r, 0.2, True) for r in rules]
        root = sprinkle(rng, root, 0.2, True)
        if not G.repetition_ok(rules, root):
            continue
        for _ in range(2):
            out.append(mk(rules, root, rand_ws_input(rng, 6), "trim-random"))
    return out


FIELDS = re.compile(r'\(OT "R" \[\(ON (\d+)\); \(ON (\d+)\); \(OL \[.*?\]\); \(ON (\d+)\); \(ON (\d+)\); \(ON (\d+)\); \(ON (\d+)\); \(ON (\d+)\)')


def nontrivial(case, obs, meta):
    return any(int(m.group(3)) > 0 for m in FIELDS.finditer(obs))


def distribution(cases, obs):
    d = {"recorded_values": 0, "cases_with_served_answer": 0, "cases_with_changed_value": 0, "cases_with_list_result": 0,
         "asked_again": 0, "timeouts_or_crashes": 0, "by_shape": {}}
    for (c, m), o in zip(cases, obs):
        fs = list(FIELDS.finditer(o))
        d["recorded_values"] += sum(int(f.group(1)) for f in fs)
        d["cases_with_changed_value"] += any(int(f.group(2)) > 0 for f in fs)
        d["cases_with_served_answer"] += any(int(f.group(3)) > 0 for f in fs)
        d["asked_again"] += sum(int(f.group(5)) for f in fs)
        d["cases_with_list_result"] += '(OT "L"' in o
        d["timeouts_or_crashes"] += '"Timeout"' in o or '"Crash"' in o
        sh = m.get("shape", "?")
        d["by_shape"][sh] = d["by_shape"].get(sh, 0) + 1
    d["skipped_exponential_shape"] = engcommon.SKIPPED["exponential_shape"]
    return d


MANIFEST = {
    "technique": ("Rocq proofs: heap replay of the engine's list-operation log (linear logs are stable for every growth function), "
                  "an instrumented engine proved to erase to the engine model and to emit only linear logs; on the implementation the "
                  "property itself is observed: every value returned by every sub-parser is re-rendered at the end of the parse"),
    "text": ("Props/C07.v. About the model: replay_stable (a linear log of NodeList operations — every header appended to at most once "
             "unless its capacity equals its length — replayed on a heap of backing arrays with Go's append leaves every header "
             "reading the list it read when created, for every growth function), replay_unstable_example (the log of defect D1, "
             "produced by the instrumented engine without the capacity clamp, is not linear and changes an earlier header), erasure "
             "(the instrumented engine EngineH computes exactly Engine.parse), engine_log_linear (on every grammar without RightTrim "
             "every log of EngineH with the clamp of the repaired Memoize is linear), C07_immutable (hence every list header returned, "
             "cached or accumulated during a parse still reads its list at the end), C07_cache_same_answer (a second request to a "
             "Memoize at the same position with a context passing the reuse test returns exactly the stored list, error and "
             "curtailing set), C07_righttrim_refuted (cell model with a mutable reader position: RightTrim above a memoised parser "
             "changes the cached node — known finding K1). About the implementation: the observation IS the property — the driver "
             "wraps every sub-parser in a recorder, keeps every returned parsley.Node value (NodeList headers as received) with its "
             "rendering (token, value, positions, children, list elements), renders all of them again at the end of the parse and "
             "after asking every Memoize again; the oracle demands zero changed values and identical cache-served answers. The model "
             "side predicts the number of returned values and a hash of all at-return renderings (nil / single node / list)."),
    "note": ("Known finding K1 (RightTrim moves the reader position of a cached node in place; not repaired) is listed in "
             "known_findings.txt with a corpus witness and matched narrowly: the grammar has a RightTrim above a memoised parser that "
             "is also reachable untrimmed, under another RightTrim or under a mode other than WsSpacesNl. A RightTrim moving the node "
             "its own operand has just returned is not counted as a modification. Trusted: Coq kernel, vm_compute, the hand-written "
             "models tied to the code by the differential run, the Go driver; Go's append growth is arbitrary in the theorems."),
    "ref": "DESIGN.md section 6, C07; notes/C07.md",
}


# ---------------------------------------------------------------- entry point
# lib/core.py reports model/implementation differences without an oracle violation ("no-failing-input-found") only when NO case
# at all violates the oracle — and the K1 witness always does.  The cases attributed to K1 are therefore taken out of the oracle's
# violation list before the verdict (they stay in the list of differences: the corpus witness of K1 is one, so the KNOWN-FINDING
# line is still printed) — otherwise a change that only breaks the correspondence (e.g. a result handler that stops copying its
# scratch slice: values are damaged BEFORE they are returned) would go unreported.
K1_TEXTS = set()


def main(tier, seed, replay=None):
    import sys
    import core
    mod = sys.modules[__name__]
    for case, meta in core.corpus_cases(ID):
        if meta.get("shape") == "k1":
            K1_TEXTS.add(case)
    gen = mod.generate

    def generate_and_remember(rng, tier_):
        out = gen(rng, tier_)
        for case, meta in out:
            if meta.get("shape") == "k1":
                K1_TEXTS.add(case)
        return out
    mod.generate = generate_and_remember
    orig = core.run_model

    def run_model(pid, imports, harness, pairs, **kw):
        d, v, det, err = orig(pid, imports, harness, pairs, **kw)
        known = [i for i in v if pairs[i][0] in K1_TEXTS]
        d = sorted(set(d) | set(known))
        v = [i for i in v if pairs[i][0] not in K1_TEXTS]
        return d, v, det, err
    core.run_model = run_model
    try:
        return core.standard_check(mod, tier, seed, replay)
    finally:
        core.run_model = orig
        mod.generate = gen
