"""C04 — engine property check (see DESIGN.md section 6, C04)."""
from engcommon import *          # noqa: F401,F403
import engcommon

ID = "C04"
HARNESS = "c04_harness"
COQ_TARGETS = engcommon.COQ_BASE + ["Props/C04.vo"]
DEV = True    # until Props/C04.v exists
