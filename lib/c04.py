"""C04 — engine property check (see DESIGN.md section 6, C04)."""
from engcommon import *          # noqa: F401,F403
import engcommon

ID = "C04"
HARNESS = "c04_harness"
COQ_TARGETS = engcommon.COQ_BASE + ["Props/C04.vo"]

MANIFEST = {'technique': 'Rocq proofs: Parse returns node xor error; Sentence success = exactly one tree spanning the whole file and (monotone fragment) iff some derivation consumes the whole input; differential run of parsley.Parse with and without Sentence', 'text': 'Props/C04.v: C04_xor, C04_sentence_sound (+_all, _spells, _single), C04_sentence_complete_partial (monotone fragment). The check runs parsley.Parse with a Sentence root and with the bare root on every generated grammar/input, requires exactly one of node/error, checks the span of a success, and (monotone grammars) success iff the least-fixpoint end set contains end of input.', 'note': "Trusted: as C01. Evaluate's panic-freedom for trees with complete interpreters is covered by C13 (tree passes) and C16.", 'ref': 'DESIGN.md section 6, C04'}
RULE = ("all one-rule monotone grammars up to a node bound x all inputs over {a,b} up to a length bound (enumerated), plus random "
        "grammars over all combinators, named and unnamed; non-trivial = non-empty root result or failing Sentence parse; "
        "distinct = distinct case text")
CORRESPONDENCE = "engine model (coq/Engine.v, eng_expected) = implementation on the projection of this property"
FAST = 4
