"""C04 — engine property check (see DESIGN.md section 6, C04)."""
from engcommon import *          # noqa: F401,F403
import engcommon

ID = "C04"
HARNESS = "c04_harness"
COQ_TARGETS = engcommon.COQ_BASE + ["Props/C04.vo"]

MANIFEST = {'technique': 'Rocq proofs: Parse returns node xor error; Sentence success = exactly one tree spanning the whole file and (monotone fragment) iff some derivation consumes the whole input; differential run of parsley.Parse with and without Sentence', 'text': 'Props/C04.v: C04_xor, C04_sentence_sound (+_all, _spells, _single), C04_sentence_complete_partial (monotone fragment). The check runs parsley.Parse with a Sentence root and with the bare root on every generated grammar/input, requires exactly one of node/error, checks the span of a success, and (monotone grammars) success iff the least-fixpoint end set contains end of input.', 'note': "Trusted: as C01. Evaluate's panic-freedom for trees with complete interpreters is covered by C13 (tree passes) and C16.", 'ref': 'DESIGN.md section 6, C04'}
RULE = ("all one-rule monotone grammars up to a node bound x all inputs over {a,b} up to a length bound (enumerated), plus random "
        "grammars over all combinators, named and unnamed; non-trivial = non-empty root result or failing Sentence parse; "
        "distinct = distinct case text")
CORRESPONDENCE = "engine model (coq/Engine.v, eng_expected) = implementation on the projection of this property"
FAST = 4


# ---------------------------------------------------------------- Evaluate clause (flags bit 2)
# "parsley.Evaluate, given an interpreter for every non-terminal, returns a value or an error instead of panicking":
# grammars whose sequences carry interpreters; the driver appends the part Ev [Evaluate(Sentence(root)); Evaluate(root)].
import gramgen as G

EV_TERMS = [('rune', G.A), ('rune', G.B), ('rune', G.A), ('rune', G.B), G.LIT_INTEGER, G.LIT_INTEGER, G.LIT_STRING, G.LIT_BOOL,
            G.LIT_NIL, G.LIT_CHAR, G.lit_op(","), G.lit_op("+"), G.lit_word("x")]
EV_OPS = G.MONO + ['choice', 'seqtry', 'sfoa', 'many', 'sepby', 'name', 'nseq', 'suppress', 'single', 'seq', 'many', 'sepby']
# no Float terminal: the harness input has dummy converters (a lexeme such as 1.5e2071 overflows strconv.ParseFloat, the dummy
# converter accepts it); float64 / time.Duration values are still rendered ("fl" / "du") should a grammar produce them
EV_FRAGMENTS = ["1", "12", "-3", '"ab"', '""', "true", "false", "null", "x", "'a'", ",", "+", "a", "b", "a", "b", "ab"]


def min_children(kind, n):
    """mirror of EngineOracles.min_children (used only to CHOOSE interpreters; the oracle decides in Coq)"""
    if kind == 'SeqOf':
        return n
    if kind == 'SeqTry':
        return 1
    if kind == 'SeqFirstOrAll':
        return min(1, n)
    return 0 if kind[1] else 1


def bind_interpreters(rng, e, partial):
    """every sequence gets an interpreter: Nil, Array, a user interpreter, Select(i) in range; with partial=True some get
    none, Object, or Select out of range (a panic is then the documented behaviour)"""
    t = e[0]
    rec = lambda x: bind_interpreters(rng, x, partial)
    if t in ('any', 'choice'):
        return (t, [rec(x) for x in e[1]])
    if t in ('memo', 'name', 'ltrim', 'rtrim'):
        return (t, e[1], rec(e[2]))
    if t in ('opt', 'suppress', 'single'):
        return (t, rec(e[1]))
    if t != 'seq':
        return e
    _, kind, _, single, name, ps = e
    m = min_children(kind, len(ps))
    pool = [('IUser', rng.randrange(1, 9)), ('IUser', rng.randrange(1, 9)), 'INil', 'IArray']
    if m > 0:
        pool += [('ISelect', rng.randrange(m))] * 3
    ip = rng.choice(pool)
    if partial and rng.random() < 0.35:
        ip = rng.choice(['INone', ('ISelect', m), ('ISelect', len(ps) + rng.randrange(2)), 'IObject'])
    return ('seq', kind, ip, single, name, [rec(x) for x in ps])


def sample(rng, rules, e, depth):
    """a string the expression derives (ignoring first-match / longest-match rules), or None when the depth budget runs out"""
    t = e[0]
    if t == 'rune':
        return chr(e[1])
    if t == 'lit':
        ex = G.lit_examples(e)
        return rng.choice(ex[:2]) if ex else None
    if t in ('empty', 'end'):
        return ""
    if t == 'ref':
        return sample(rng, rules, rules[e[1]], depth - 1) if depth > 0 else None
    if t in ('memo', 'name', 'ltrim', 'rtrim'):
        return sample(rng, rules, e[2], depth)
    if t in ('suppress', 'single'):
        return sample(rng, rules, e[1], depth)
    if t == 'opt':
        return "" if rng.random() < 0.4 else sample(rng, rules, e[1], depth)
    if t in ('any', 'choice'):
        for x in rng.sample(e[1], len(e[1])):
            r = sample(rng, rules, x, depth)
            if r is not None:
                return r
        return None
    kind, ps = e[1], e[5]
    if kind == 'SeqOf':
        todo = ps
    elif kind == 'SeqTry':
        todo = ps[:rng.randrange(1, len(ps) + 1)]
    elif kind == 'SeqFirstOrAll':
        todo = ps[:1] if rng.random() < 0.5 else ps
    elif kind[0] == 'SMany':
        todo = ps[:1] * rng.randrange(0 if kind[1] else 1, 4)
    else:
        n = rng.randrange(0 if kind[1] else 1, 4)
        todo = ([ps[0], ps[1]] * n)[:max(0, 2 * n - 1)]
    out = ""
    for x in todo:
        r = sample(rng, rules, x, depth)
        if r is None:
            return None
        out += r
    return out


def ev_input(rng, rules, root):
    if rng.random() < 0.6:
        w = sample(rng, rules, root, 3)
        if w is not None and len(w) <= 12:
            return list(w.encode())
    pool = []
    for e in __import__("itertools").chain(*[G.walk(r) for r in rules + [root]]):
        pool += G.lit_examples(e)
    out = ""
    for _ in range(rng.randrange(6)):
        out += rng.choice(pool) if pool and rng.random() < 0.75 else rng.choice(EV_FRAGMENTS)
    return list(out.encode())


def json_object_like(rng):
    """value = string | integer | bool | null | '[' sep_by(value, ',') ']' (Array) | '{' sep_by(key ':' value, ',') '}' (Object):
    maps (rendered sorted by key, a later duplicate key wins), nested lists, Select(1) around both"""
    value = ('ref', 0)
    arr = ('seq', 'SeqOf', ('ISelect', 1), False, None,
           [G.lit_op("["), ('seq', ('SSepBy', True), 'IArray', False, None, [value, G.lit_op(",")]), G.lit_op("]")])
    kv = ('seq', 'SeqOf', rng.choice(['INil', ('IUser', 7), 'INone']), False, None, [G.LIT_STRING, G.lit_op(":"), value])
    obj = ('seq', 'SeqOf', ('ISelect', 1), False, None,
           [G.lit_op("{"), ('seq', ('SSepBy', True), 'IObject', False, None, [kv, G.lit_op(",")]), G.lit_op("}")])
    alts = [G.LIT_STRING, G.LIT_INTEGER, G.LIT_BOOL, G.LIT_NIL, arr, obj]
    return [('memo', 1, (rng.choice(['choice', 'any']), alts))], ('ref', 0)


def json_text(rng, depth=2):
    r = rng.random()
    if depth <= 0 or r < 0.45:
        return rng.choice(["1", "-7", '"a"', '"b"', '""', "true", "false", "null", "12"])
    if r < 0.7:
        return "[" + ",".join(json_text(rng, depth - 1) for _ in range(rng.randrange(4))) + "]"
    return "{" + ",".join('"%s":%s' % (rng.choice("abca"), json_text(rng, depth - 1)) for _ in range(rng.randrange(4))) + "}"


def heavy(rules, root):
    """left-recursive grammars with more than three rule references: some of them (unit cycles through nullable contexts) are so
    ambiguous that implementation and model both exceed the per-case budget; skipped and counted, to keep the quick tier short"""
    refs = sum(1 for e in __import__("itertools").chain(*[G.walk(r) for r in rules + [root]]) if e[0] == 'ref')
    return (not G.lr_free(rules)) and refs > 3


def eval_cases(rng, n_total, n_partial, n_json):
    out = []
    for partial, n in ((False, n_total), (True, n_partial)):
        for i in range(n):
            terms = None if i % 3 == 0 else EV_TERMS
            rules, root = G.rand_grammar(rng, EV_OPS if i % 4 else G.MONO, max_rules=2, depth=3, terminals=terms)
            if engcommon.exponential_shape(rules, root) or heavy(rules, root):
                engcommon.SKIPPED["exponential_shape"] += 1
                continue
            rules = [bind_interpreters(rng, r, partial) for r in rules]
            root = bind_interpreters(rng, root, partial)
            fl = engcommon.flags_for(rules, root, False) | 4
            for _ in range(3):
                w = ev_input(rng, rules, root)
                if terms is None and not set(w) <= {G.A, G.B}:
                    w = G.rand_input(rng, 5)
                out.append((G.case_text(rules, root, w, offset=rng.choice([1, 1, 2, 7]), flags=fl),
                            {"stream": "evaluate-documented-panics" if partial else "evaluate-total",
                             "unproductive": engcommon.unprod(rules, root)}))
    for i in range(n_json):
        rules, root = json_object_like(rng)
        fl = engcommon.flags_for(rules, root, False) | 4
        for _ in range(3):
            w = json_text(rng)
            if rng.random() < 0.15:
                w = w[:rng.randrange(len(w) + 1)]
            out.append((G.case_text(rules, root, list(w.encode()), offset=rng.choice([1, 1, 7]), flags=fl),
                        {"stream": "evaluate-json-object", "unproductive": False}))
    # the historical defect D3 and its neighbours, always present: roots that return neither node nor error of their own
    # (Any/Choice of not-found alternatives, SuppressError, a purely curtailed rule U -> U)
    ab = ('any', [('rune', G.A), ('rune', G.B)])
    sup = ('suppress', ('rune', G.A))
    for root in (ab, ('choice', [('rune', G.A), ('rune', G.B)]), ('memo', 5, ab), ('seq', 'SeqOf', ('IUser', 1), False, None, [ab]),
                 sup, ('seq', 'SeqOf', ('ISelect', 0), False, None, [sup]), ('opt', sup)):
        for w in ([99], [G.A], [], [G.A, G.B]):
            out.append((G.case_text([], root, w, flags=4), {"stream": "evaluate-total", "unproductive": False}))
    for w in ([], [G.A]):
        out.append((G.case_text([('memo', 1, ('ref', 0))], ('ref', 0), w, flags=4), {"stream": "evaluate-total", "unproductive": True}))
    return out


def generate(rng, tier):
    if tier == "quick":
        return engcommon.generate(rng, tier) + eval_cases(rng, 400, 160, 40)
    return engcommon.generate(rng, tier) + eval_cases(rng, 8000, 3000, 800)


_nontrivial_base = engcommon.nontrivial


def nontrivial(case, obs, meta):
    if str(meta.get("stream", "")).startswith("evaluate"):
        return '(OT "Val"' in obs or '(OT "EErr"' in obs or '"Panic"' in obs
    return _nontrivial_base(case, obs, meta)


RULE = RULE + ("; Evaluate clause (flags bit 2): random grammars over all combinators except trimming, rune and literal terminals, every "
               "sequence bound to Nil / Array / a user interpreter / Select in range (stream evaluate-total: the oracle forbids a panic), "
               "the same with some sequences left without interpreter, bound to Object or to Select out of range (stream "
               "evaluate-documented-panics: the oracle says nothing, model and implementation must still agree, panics included), a JSON-like "
               "object/array grammar (maps), and the fixed roots that return neither node nor error; non-trivial there = Evaluate returned "
               "a value, an evaluation error or panicked")
MANIFEST = dict(MANIFEST)
MANIFEST["technique"] += "; parsley.Evaluate run on grammars with interpreters against Top.evaluate, panic-freedom decided per grammar by interp_ok_expr"
MANIFEST["text"] += (" Evaluate clause: C04_evaluate_outcomes, C04_evaluate_never_nil, C04_evaluate_panic_is_interpreter, C04_parse_no_panic, "
                     "C04_interp_total_evaluates, C04_grammar_interp_total(_frag), C04_evaluate_total, C04_evaluate_sentence_total (coq/TopProofs.v): "
                     "for a well-formed grammar whose sequences carry Nil/Array/user interpreters or Select(i) below the least number of children "
                     "(decidable check interp_ok_expr), Evaluate returns a value or an error for every input, never a panic; and never evaluates a "
                     "missing node for any grammar. The check calls parsley.Evaluate with the Sentence root and the bare root (recover = Panic "
                     "observation), compares value / error text / panic with the model and requires 'no panic' whenever interp_ok_expr holds.")
MANIFEST["note"] = ("Trusted: as C01, plus coq/Top.v (EvaluateNode, NonTerminalNode.Value, ast/interpreter) tied to the code by the same differential "
                    "run. A user interpreter is modelled as 'evaluate all children in order, first error aborts, return the values' (the driver "
                    "binds exactly that ast.InterpreterFunc); interpreter.Object is outside interp_ok_expr (covered for the JSON grammar by C16).")
