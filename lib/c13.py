"""C13 — tree passes (Walk, StaticCheck, Transform, EvaluateNode) reach every node once, in the documented order."""
import functools
import re

ID = "C13"
SUBCMD = "c13"
IMPORTS = ["Tree"]
HARNESS = "c13_harness"
COQ_TARGETS = ["Tree.vo", "TreeProofs.vo", "Props/C13.vo"]
CORRESPONDENCE = ("c13_expected (Tree.v model of Walk/StaticCheck/Transform/EvaluateNode and the library "
                  "interpreters) = implementation on callback logs, results, schemas and tree shapes")
RULE = ("every tree shape with at most 5 (quick) / 6 (thorough) nodes over terminal, empty, non-terminal and "
        "alternative-list nodes, each with no stop and a stop/failure injected at node positions in turn; random "
        "trees of arity 0-4 and depth <= 5 with sampled interpreter capabilities and a failure injected at every "
        "capable node in turn; array/object shaped trees for the library interpreters. non-trivial = the tree has "
        "at least 3 nodes and the observed callback log is not empty; distinct = distinct case text")
TRUSTED = ["Coq 8.16.1 kernel and vm_compute",
           "hand-written model coq/Tree.v tied to the code by this differential run",
           "Go driver harness/c13.go (builds real ast nodes, recording interpreters)", "lib/core.py orchestration"]
ASSUMPTIONS = ["node identifiers (tokens/positions given by the driver) are pairwise distinct",
               "trees are trees: no node is shared between two parents",
               "user callbacks behave as functions of the node they receive (tables keyed by node id)",
               "a transformer returns either a node or an error, never (nil, nil)"]
EXHAUSTIVE = {"quick": False, "thorough": False}
STALL = 60


# ----------------------------------------------------------------------
# trees: dicts {k: leaf|empty|nt|list, c: [children], id, pos, ik, schema, v}

def lst(xs):
    return "[" + "; ".join(str(x) for x in xs) + "]"


def val_s(v):
    if v is None:
        return "VNil"
    if isinstance(v, int):
        return "VInt %d" % v
    if isinstance(v, str):
        return "VStr %s" % lst([ord(c) for c in v])
    if isinstance(v, list):
        return "VList %s" % lst(["%s" % val_s(x) for x in v])
    if isinstance(v, dict):
        return "VMap %s" % lst(["(%s, %s)" % (lst([ord(c) for c in k]), val_s(x)) for k, x in v.items()])
    raise ValueError(v)


def opt_s(o):
    return "None" if o is None else "(Some %d)" % o


def ik_s(ik):
    if ik[0] == "rec":
        return "(IRec %d %s %s)" % (ik[1], "true" if ik[2] else "false", "true" if ik[3] else "false")
    if ik[0] == "select":
        return "(ISelect %s)" % (("(%d)" % ik[1]) if ik[1] < 0 else str(ik[1]))
    return {"none": "INone", "nil": "INil", "array": "IArray", "object": "IObject"}[ik[0]]


def tree_s(t):
    k = t["k"]
    if k == "leaf":
        v = val_s(t.get("v"))
        return "TLeaf %d %s %s" % (t["id"], opt_s(t.get("schema")), v if v == "VNil" else "(" + v + ")")
    if k == "empty":
        return "TEmpty %d" % t["id"]
    if k == "nt":
        return "TNonTerm %d %d %s %s" % (t["id"], t["pos"], ik_s(t["ik"]), lst([tree_s(c) for c in t["c"]]))
    return "TList %d %s" % (t["id"], lst([tree_s(c) for c in t["c"]]))


def err_s(e):
    return "EUser %d %d" % e if len(e) == 2 else "ENoValue %d" % e[0]


def nodes_pre(t):
    yield t
    for c in t.get("c", []):
        yield from nodes_pre(c)


def post(t):
    """the specification's listing (first alternative only); None marks an empty list"""
    if t["k"] == "nt":
        for c in t["c"]:
            yield from post(c)
        yield t
    elif t["k"] == "list":
        if not t["c"]:
            yield None
            return
        yield from post(t["c"][0])
        yield t
    else:
        yield t


def set_pos(t):
    """computes pos bottom-up; returns the node's Pos() or None (empty list reached); marks bad trees"""
    k = t["k"]
    if k in ("leaf", "empty"):
        return t["id"]
    ps = [set_pos(c) for c in t["c"]]
    if k == "list":
        return ps[0] if ps else None
    if not ps:
        t["pos"] = t["id"]
        return t["pos"]
    if ps[0] is None or ps[-1] is None:
        t["pos"] = 0
        t["bad"] = True
        return 0
    t["pos"] = ps[0]
    return ps[0]


def is_bad(t):
    return any(n.get("bad") for n in nodes_pre(t))


def assign_ids(t, rng, base=0, shuffle=True):
    ns = list(nodes_pre(t))
    ids = list(range(base + 1, base + len(ns) + 1))
    if shuffle:
        rng.shuffle(ids)
    for n, i in zip(ns, ids):
        n["id"] = i
    set_pos(t)
    return t


@functools.lru_cache(maxsize=None)
def shapes(n):
    """all ordered trees with exactly n nodes; childless: L (terminal/empty), nt, list; inner: nt, list"""
    res = []
    if n == 1:
        res.append(("L",))
    for f in forests(n - 1):
        res.append(("nt", f))
        res.append(("list", f))
    return tuple(res)


@functools.lru_cache(maxsize=None)
def forests(n):
    if n == 0:
        return ((),)
    res = []
    for k in range(1, n + 1):
        for t in shapes(k):
            for f in forests(n - k):
                res.append((t,) + f)
    return tuple(res)


def inflate(shape, rng, ikgen):
    if shape[0] == "L":
        if rng.random() < 0.2:
            return {"k": "empty"}
        return {"k": "leaf", "schema": rng.choice([None, None, 1, 2, 7]),
                "v": rng.choice([None, 0, 3, 41, "a", "k", "key"])}
    cs = [inflate(c, rng, ikgen) for c in shape[1]]
    if shape[0] == "nt":
        return {"k": "nt", "c": cs, "ik": ikgen(rng, len(cs))}
    return {"k": "list", "c": cs}


def random_tree(rng, depth, ikgen, plist=0.08, maxar=4):
    r = rng.random()
    if depth == 0 or r < 0.25:
        if rng.random() < 0.15:
            return {"k": "empty"}
        return {"k": "leaf", "schema": rng.choice([None, None, 1, 2, 7, 30]),
                "v": rng.choice([None, 0, 3, 41, "a", "k", "key", "zz"])}
    if r < 0.25 + plist:
        n = rng.choice([0, 1, 1, 2, 2, 3])
        return {"k": "list", "c": [random_tree(rng, depth - 1, ikgen, plist, maxar) for _ in range(n)]}
    n = rng.choice(list(range(0, maxar + 1)) + [1, 2, 2, 3])
    cs = [random_tree(rng, depth - 1, ikgen, plist, maxar) for _ in range(n)]
    return {"k": "nt", "c": cs, "ik": ikgen(rng, n)}


def ik_any(rng, arity):
    r = rng.random()
    if r < 0.55:
        return ("rec", rng.choice([1, 2, 3, 10 + rng.randrange(90)]), rng.random() < 0.5, rng.random() < 0.4)
    if r < 0.7:
        return ("select", rng.randrange(-1, arity + 2))
    return (rng.choice(["none", "nil", "array", "object"]),)


def ik_check(rng, arity):
    r = rng.random()
    if r < 0.6:
        return ("rec", rng.choice([1, 2, 3, 10 + rng.randrange(90)]), rng.random() < 0.75, rng.random() < 0.3)
    if r < 0.85:
        return ("select", rng.randrange(0, arity) if arity and rng.random() < 0.85 else rng.randrange(-1, arity + 2))
    return (rng.choice(["none", "nil", "array"]),)


def ik_trans(rng, arity):
    r = rng.random()
    if r < 0.75:
        return ("rec", rng.choice([1, 2, 3, 10 + rng.randrange(90)]), rng.random() < 0.3, rng.random() < 0.45)
    if r < 0.85:
        return ("select", rng.randrange(0, arity + 1))
    return (rng.choice(["none", "nil", "array", "object"]),)


def ik_eval(rng, arity):
    r = rng.random()
    if r < 0.5:
        return ("rec", rng.choice([1, 2, 3, 10 + rng.randrange(90)]), rng.random() < 0.3, rng.random() < 0.3)
    if r < 0.7:
        return ("select", rng.randrange(0, arity) if arity and rng.random() < 0.85 else rng.randrange(-1, arity + 2))
    if r < 0.85:
        return ("array",)
    return (rng.choice(["none", "nil", "object"]),)


# ----------------------------------------------------------------------
# cases

def walk_case(t, stops):
    return "CWalk (%s) %s" % (tree_s(t), lst(stops))


def check_case(t, beh):
    def b(x):
        if x[0] == "ret":
            return "CBRet %s" % opt_s(x[1])
        if x[0] == "fail":
            return "CBFail (%s)" % err_s(x[1])
        return "CBSum"
    return "CCheck (%s) %s" % (tree_s(t), lst(["(%d, %s)" % (i, b(x)) for i, x in beh]))


def trans_case(t, beh):
    def b(x):
        if x[0] == "repl":
            return "TBRepl (%s)" % tree_s(x[1])
        if x[0] == "fail":
            return "TBFail (%s)" % err_s(x[1])
        return "TBSame"
    return "CTransform (%s) %s" % (tree_s(t), lst(["(%d, %s)" % (i, b(x)) for i, x in beh]))


def eval_case(t, beh):
    def b(x):
        if x[0] == "ret":
            return "EBRet (%s)" % val_s(x[1]) if x[1] is not None else "EBRet VNil"
        if x[0] == "fail":
            return "EBFail (%s)" % err_s(x[1])
        return "EBChildren"
    return "CEval (%s) %s" % (tree_s(t), lst(["(%d, %s)" % (i, b(x)) for i, x in beh]))


def is_rec(n, what):
    if n["k"] != "nt" or n["ik"][0] != "rec":
        return False
    return {"chk": n["ik"][2], "trf": n["ik"][3], "any": True}[what]


def walk_cases(t, rng, every, stream, out):
    ids = [n["id"] for n in nodes_pre(t)]
    out.append((walk_case(t, []), {"stream": stream, "pass": "walk", "n": len(ids)}))
    targets = ids if every else rng.sample(ids, min(len(ids), 2))
    for i in targets:
        stops = [i] + ([rng.choice(ids)] if rng.random() < 0.3 else [])
        out.append((walk_case(t, stops), {"stream": stream, "pass": "walk", "n": len(ids)}))


def check_cases(t, rng, every, stream, out):
    ns = list(nodes_pre(t))
    cap = [n for n in ns if is_rec(n, "chk")]
    base = [(n["id"], ("ret", rng.choice([None, 5, 9, n["id"]]))) for n in cap if rng.random() < 0.3]
    out.append((check_case(t, base), {"stream": stream, "pass": "check", "n": len(ns)}))
    targets = cap if every else rng.sample(cap, min(len(cap), 2))
    for n in targets:
        beh = [(n["id"], ("fail", (rng.randrange(50), 100 + n["id"])))] + [b for b in base if b[0] != n["id"]]
        # sometimes a second failure later on: only the first may be reported
        if rng.random() < 0.3 and cap:
            m = rng.choice(cap)
            if m is not n:
                beh = [b for b in beh if b[0] != m["id"]] + [(m["id"], ("fail", (rng.randrange(50), 200 + m["id"])))]
        out.append((check_case(t, beh), {"stream": stream, "pass": "check", "n": len(ns)}))


def trans_cases(t, rng, every, stream, out):
    ns = list(nodes_pre(t))
    cap = [n for n in ns if is_rec(n, "trf")]
    top = max(n["id"] for n in ns)
    base = []
    for n in cap:
        r = rng.random()
        if r < 0.5:
            top += 1000
            rep = assign_ids(random_tree(rng, 2, ik_trans, 0.1, 2), rng, base=top)
            if not is_bad(rep):
                base.append((n["id"], ("repl", rep)))
        elif r < 0.6:
            base.append((n["id"], ("same",)))
    out.append((trans_case(t, base), {"stream": stream, "pass": "transform", "n": len(ns)}))
    targets = cap if every else rng.sample(cap, min(len(cap), 2))
    for n in targets:
        beh = [(n["id"], ("fail", (rng.randrange(50), 100 + n["id"])))] + [b for b in base if b[0] != n["id"]]
        if rng.random() < 0.3:
            m = rng.choice(cap)
            if m is not n:
                beh = [(m["id"], ("fail", (rng.randrange(50), 200 + m["id"])))] + [b for b in beh if b[0] != m["id"]]
        out.append((trans_case(t, beh), {"stream": stream, "pass": "transform", "n": len(ns)}))


def eval_cases(t, rng, every, stream, out):
    ns = list(nodes_pre(t))
    cap = [n for n in ns if is_rec(n, "any")]
    base = [(n["id"], ("ret", rng.choice([None, 5, "s", [1, "x"]]))) for n in cap if rng.random() < 0.15]
    out.append((eval_case(t, base), {"stream": stream, "pass": "eval", "n": len(ns)}))
    targets = cap if every else rng.sample(cap, min(len(cap), 2))
    for n in targets:
        beh = [(n["id"], ("fail", (rng.randrange(50), 100 + n["id"])))] + [b for b in base if b[0] != n["id"]]
        out.append((eval_case(t, beh), {"stream": stream, "pass": "eval", "n": len(ns)}))


def json_tree(rng, depth):
    """array/object shaped trees as the JSON example builds them, with occasional damage"""
    r = rng.random()
    if depth == 0 or r < 0.3:
        return {"k": "leaf", "schema": None, "v": rng.choice([None, 1, 2, 33, "a", "b", "s"])}
    sep = lambda: rng.choice([{"k": "leaf", "schema": None, "v": ","}, {"k": "empty"},
                              {"k": "nt", "c": [], "ik": ("none",)}])
    if r < 0.6:
        n = rng.randrange(0, 4)
        cs = []
        for i in range(n):
            if i:
                cs.append(sep())
            cs.append(json_tree(rng, depth - 1))
        if cs and rng.random() < 0.15:
            cs.append(sep())       # trailing separator: even length
        return {"k": "nt", "c": cs, "ik": ("array",)}
    if r < 0.9:
        n = rng.randrange(0, 4)
        cs = []
        for i in range(n):
            if i:
                cs.append(sep())
            key = {"k": "leaf", "schema": None, "v": rng.choice(["a", "b", "ab", "", "k", "k"])}
            d = rng.random()
            if d < 0.06:
                key["v"] = rng.choice([None, 4])                      # key.(string) fails
            kv = {"k": "nt", "c": [key, sep(), json_tree(rng, depth - 1)], "ik": rng.choice([("none",), ("nil",)])}
            if 0.06 <= d < 0.1:
                kv["c"] = kv["c"][:rng.randrange(0, 3)]               # Children()[0] / [2] out of range
            elif 0.1 <= d < 0.13:
                kv = rng.choice([{"k": "leaf", "schema": None, "v": "x"}, {"k": "empty"},
                                 {"k": "list", "c": [kv]}])          # type assertion fails
            elif 0.13 <= d < 0.16:
                kv["c"][0] = {"k": "empty"}                           # key evaluation fails
            cs.append(kv)
        return {"k": "nt", "c": cs, "ik": ("object",)}
    n = rng.randrange(1, 4)
    cs = [json_tree(rng, depth - 1) for _ in range(n)]
    ik = rng.choice([("select", rng.randrange(0, n)), ("rec", rng.randrange(1, 4), False, False),
                     ("select", rng.randrange(-1, n + 2))])
    return {"k": "nt", "c": cs, "ik": ik}


def generate(rng, tier):
    out = []
    quick = tier == "quick"
    # 1. exhaustive small shapes
    nmax = 5 if quick else 6
    for n in range(1, nmax + 1):
        for sh in shapes(n):
            t = assign_ids(inflate(sh, rng, ik_any), rng)
            if is_bad(t):
                continue
            every = n <= (4 if quick else 6)
            walk_cases(t, rng, every, "enumerated", out)
            if quick and n == nmax and rng.random() < 0.5:
                continue
            for gen, ikg in ((check_cases, ik_check), (trans_cases, ik_trans), (eval_cases, ik_eval)):
                t2 = assign_ids(inflate(sh, rng, ikg), rng)
                if not is_bad(t2) and any(x["k"] == "nt" for x in nodes_pre(t2)):
                    gen(t2, rng, n <= (4 if quick else 5), "enumerated", out)
    # 2. random trees, arity 0-4, depth <= 5, failure injected at every capable node in turn
    count = 120 if quick else 2500
    for gen, ikg in ((walk_cases, ik_any), (check_cases, ik_check), (trans_cases, ik_trans), (eval_cases, ik_eval)):
        made = 0
        while made < count:
            t = assign_ids(random_tree(rng, rng.choice([2, 3, 4, 5]), ikg), rng)
            n = sum(1 for _ in nodes_pre(t))
            if is_bad(t) or n > 60 or n < 2:
                continue
            made += 1
            gen(t, rng, n <= 25, "random", out)
    # 3. array / object shaped trees
    made = 0
    while made < (250 if quick else 3000):
        t = assign_ids(json_tree(rng, rng.choice([1, 2, 3, 4])), rng)
        n = sum(1 for _ in nodes_pre(t))
        if is_bad(t) or n > 70:
            continue
        made += 1
        out.append((eval_case(t, []), {"stream": "json-shaped", "pass": "eval", "n": n}))
    return out


def nontrivial(case_text, obs, meta):
    if meta.get("n", 3) < 3:
        return False
    m = re.match(r'\(OT "\w+" \[\(OL \[(.*?)\]\)', obs)
    return bool(m and m.group(1).strip())


def distribution(cases, obs):
    d = {}
    for (c, m), o in zip(cases, obs):
        key = "%s/%s" % (m.get("stream"), m.get("pass", c.split(" ")[0]))
        e = d.setdefault(key, {"cases": 0, "panic": 0, "error": 0, "nodes": 0})
        e["cases"] += 1
        e["panic"] += 1 if '"Panic"' in o else 0
        e["error"] += 1 if ('"User"' in o or '"NoValue"' in o) else 0
        e["nodes"] += m.get("n", 0)
    return d


MANIFEST = {
    "technique": "Rocq proof of model = post-order / frontier / log-free specifications + differential run of the model (vm_compute) against the Go code",
    "text": ("Theorems C13_* (coq/Props/C13.v) prove for every tree (any arity and depth, terminal/empty leaves, "
             "alternative lists anywhere, every interpreter capability set, every callback behaviour) that the model of "
             "parsley.Walk applies a stateful callback exactly along the post-order listing (first alternative, then the list) "
             "until it stops or panics; that StaticCheck is that walk with the schema-storing callback, so checkers run "
             "bottom-up, see the final schemas of everything below them, record their result and abort at the first error; "
             "that Transform equals the frontier specification (outermost transformer nodes left to right, first error "
             "aborts, other nodes rebuilt); and that evaluation logs only (interpreter, own node) pairs and returns the "
             "log-free value. The model is tied to /repo by running it inside Coq against real ast nodes with recording "
             "interpreters on enumerated and random trees on every run."),
    "note": ("Trusted: Coq kernel + vm_compute; the hand-written model coq/Tree.v (validated by the differential run only "
             "on generated cases); the Go driver and its recording interpreters; distinct node identifiers; trees without "
             "sharing; transformers return a node or an error."),
    "ref": "DESIGN.md section 6, C13",
}
