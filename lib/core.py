"""Common machinery of the parsley verification checks.

A check = (1) build the Coq development and re-check the property's theorems
(Props/<ID>.v, Print Assumptions), (2) build the Go driver against /repo's working
tree, (3) generate cases, run the implementation, (4) let Coq (vm_compute)
compare every observation with the model's prediction and evaluate the
property's executable oracle on it, (5) verdict, evidence, replay.
"""
import hashlib
import json
import os
import random
import re
import select
import subprocess
import sys
import time
from concurrent.futures import ThreadPoolExecutor

ROOT = os.path.dirname(os.path.dirname(os.path.abspath(__file__)))
COQ = os.path.join(ROOT, "coq")
WORK = os.path.join(ROOT, "work" + os.environ.get("VERIF_WORKTAG", ""))
BIN = os.path.join(WORK, "bin")
REPO = os.environ.get("VERIF_REPO", "/repo")
os.environ.setdefault("OCAMLRUNPARAM", "s=4M")
GOENV = dict(os.environ, GOFLAGS="-mod=mod", GOPROXY="off", GOSUMDB="off", GOTOOLCHAIN="local",
             CGO_ENABLED="0")
FORBIDDEN = re.compile(
    r"\b(Admitted|admit|Axiom|Axioms|Parameter|Parameters|Conjecture|Conjectures|Hypothesis|Hypotheses|"
    r"Variable|Variables|bypass_check|Admit Obligations)\b|Unset\s+Guard\s+Checking|Unset\s+Positivity|"
    r"Unset\s+Universe\s+Checking|-type-in-type|-impredicative-set")


def log(*a):
    print(*a, file=sys.stderr, flush=True)


def sh(cmd, cwd=None, env=None, timeout=None, inp=None):
    try:
        p = subprocess.run(cmd, cwd=cwd, env=env, timeout=timeout, input=inp, shell=isinstance(cmd, str),
                           stdout=subprocess.PIPE, stderr=subprocess.STDOUT, text=True)
        return p.returncode, p.stdout
    except subprocess.TimeoutExpired as e:
        out = e.stdout if isinstance(e.stdout, str) else (e.stdout or b"").decode("utf8", "replace")
        return 124, out + "\n[timeout]"


# --------------------------------------------------------------------------
# Coq

def strip_comments(src):
    out, depth, i = [], 0, 0
    while i < len(src):
        if src.startswith("(*", i):
            depth += 1
            i += 2
        elif src.startswith("*)", i) and depth:
            depth -= 1
            i += 2
        else:
            if not depth:
                out.append(src[i])
            i += 1
    return "".join(out)


def forbidden_scan():
    """Forbidden words in the development.  Variable/Hypothesis are allowed inside
    a Section only (they are then ordinary lambda abstractions after End)."""
    hits = []
    for dp, _, fs in os.walk(COQ):
        for f in fs:
            if not f.endswith(".v"):
                continue
            path = os.path.join(dp, f)
            src = strip_comments(open(path).read())
            # drop string literals
            src = re.sub(r'"(?:[^"]|"")*"', '""', src)
            depth = 0
            for ln, line in enumerate(src.split("\n"), 1):
                if re.match(r"\s*Section\b", line):
                    depth += 1
                for m in FORBIDDEN.finditer(line):
                    w = m.group(0)
                    if w in ("Variable", "Variables", "Hypothesis", "Hypotheses") and depth > 0:
                        continue
                    hits.append("%s:%d:%s" % (os.path.relpath(path, ROOT), ln, w))
                if re.match(r"\s*End\b", line) and depth:
                    depth -= 1
    return hits


def coq_make(targets=None, timeout=3000):
    """Incremental full (.vo) build under a lock; returns (ok, log)."""
    rc, out = sh("flock %s/.lock %s/lib/coqproject.sh" % (COQ, ROOT), cwd=COQ)
    if rc:
        return False, out
    tgt = " ".join(targets) if targets else ""
    rc, out = sh("flock %s/.lock make -j16 %s" % (COQ, tgt), cwd=COQ, timeout=timeout)
    return rc == 0, out


def props_check(pid):
    """Recompile Props/<ID>.v (its dependencies must already be built) and collect
    the theorem names and the Print Assumptions output."""
    path = os.path.join(COQ, "Props", pid + ".v")
    src = strip_comments(open(path).read())
    theorems = re.findall(r"^\s*(?:Theorem|Corollary)\s+(\w+)", src, re.M)
    work = os.path.join(WORK, pid)
    os.makedirs(work, exist_ok=True)
    rc, out = sh(["coqc", "-Q", COQ, "Parsley", "-o", os.path.join(work, pid + ".vo"), path], cwd=COQ, timeout=1200)
    assumptions = []
    closed = 0
    for blk in re.split(r"\n(?=Closed under|Axioms:)", "\n" + out):
        if blk.startswith("Closed under"):
            closed += 1
        elif blk.startswith("Axioms:"):
            assumptions.append(" ".join(blk.split()))
    return {"ok": rc == 0, "theorems": theorems, "closed": closed, "axioms": assumptions, "log": out}


# --------------------------------------------------------------------------
# Go driver

def go_build(pid="common"):
    """Builds the driver against REPO's working tree; go.mod/go.sum and the binary are per
    property (work/<pid>/) so that concurrent checks do not disturb each other."""
    h = os.path.join(ROOT, "harness")
    work = os.path.join(WORK, pid)
    os.makedirs(work, exist_ok=True)
    mod = open(os.path.join(h, "go.mod")).read()
    mod = re.sub(r"replace github.com/opsidian/parsley => \S+", "replace github.com/opsidian/parsley => %s" % REPO, mod)
    open(os.path.join(work, "go.mod"), "w").write(mod)
    sh(["cp", os.path.join(REPO, "go.sum"), os.path.join(work, "go.sum")])
    exe = os.path.join(work, "impl_driver")
    rc, out = sh(["go", "build", "-tags", "verif", "-modfile", os.path.join(work, "go.mod"), "-o", exe, "."], cwd=h,
                 env=GOENV, timeout=900)
    return rc == 0, out, exe


def _run_chunk(exe, subcmd, lines, stall, burn=False, retry=True):
    """Run one driver process over lines; a crash or a stall marks that case and restarts after it."""
    out = []
    i = 0
    while i < len(lines):
        p = subprocess.Popen([exe, subcmd], stdin=subprocess.PIPE, stdout=subprocess.PIPE,
                             stderr=subprocess.DEVNULL,
                             env=dict(GOENV, VERIF_SCRATCH=os.path.join(os.path.dirname(exe), "scratch"),
                                      **({"VERIF_MEMO_BURN": "1"} if burn else {})))
        payload = ("\n".join(lines[i:]) + "\n").encode()
        # feed stdin from a thread so that a big batch cannot deadlock on the pipe
        import threading

        def feed(proc=p, data=payload):
            try:
                proc.stdin.write(data)
                proc.stdin.close()
            except (BrokenPipeError, OSError):
                pass
        th = threading.Thread(target=feed, daemon=True)
        th.start()
        got = 0
        buf = b""
        died = None
        fd = p.stdout.fileno()
        last = time.time()
        while i + got < len(lines):
            r, _, _ = select.select([fd], [], [], 1.0)
            if r:
                data = os.read(fd, 1 << 20)
                if not data:
                    died = "Crash"
                    break
                buf += data
                while b"\n" in buf:
                    line, buf = buf.split(b"\n", 1)
                    out.append(line.decode())
                    got += 1
                    last = time.time()
            elif time.time() - last > stall:
                died = "Timeout"
                break
        if died:
            p.kill()
            p.wait()
            verdict = '(OT "%s" [])' % died
            if retry:
                verdict = "\0RETRY " + verdict       # judged after run_impl has run the case once more, on its own
            out.append(verdict)
            i += got + 1
        else:
            p.wait()
            i += got
    return out


def run_impl(exe, subcmd, lines, procs=8, stall=20):
    if not lines:
        return []
    n = max(1, min(procs, (len(lines) + 49) // 50))
    size = (len(lines) + n - 1) // n
    chunks = [lines[k:k + size] for k in range(0, len(lines), size)]
    with ThreadPoolExecutor(max_workers=n) as ex:
        res = list(ex.map(lambda kc: _run_chunk(exe, subcmd, kc[1], stall, burn=kc[0] % 2 == 1), enumerate(chunks)))
    out = [o for r in res for o in r]
    # a stall can be machine load and a crash can be collateral: such a case is run once more on its own (eight of them
    # at a time), with a longer limit (ten times the batch limit, at least 30 s), and that run is the one that is judged
    again = [i for i, o in enumerate(out) if o.startswith("\0RETRY ")]
    if again:
        limit = min(300, max(30, stall * 10))
        with ThreadPoolExecutor(max_workers=8) as ex:
            redo = list(ex.map(lambda i: _run_chunk(exe, subcmd, [lines[i]], limit, burn=(i // size) % 2 == 1, retry=False)[0], again))
        for i, o in zip(again, redo):
            out[i] = o
    return out


# --------------------------------------------------------------------------
# model side: cases.v evaluated by vm_compute

HEADER = """From Coq Require Import String List NArith ZArith Bool.
From Parsley Require Import Obs Base %s.
Import ListNotations.
Open Scope string_scope.
Open Scope N_scope.
Definition cases : list (H_case %s * obs) := [
%s
].
Definition R := Eval vm_compute in run_cases %s cases.
Definition D := Eval vm_compute in V_disagree R.
Definition V := Eval vm_compute in V_violate R.
Definition X := Eval vm_compute in V_detail R.
Set Printing Width 100000.
Set Printing Depth 100000.
Print D.
Print V.
Print X.
"""


def _idx(out, name):
    m = re.search(r"^%s = \[(.*?)\]\s*: list N" % name, out, re.S | re.M)
    if not m:
        return None
    body = m.group(1).strip()
    return [int(x) for x in re.findall(r"\d+", body)] if body else []


def _run_shard(args):
    k, pid, imports, harness, pairs, timeout = args
    work = os.path.join(WORK, pid)
    path = os.path.join(work, "cases_%d.v" % k)
    body = ";\n".join("(%s, %s)" % (c, o) for c, o in pairs)
    open(path, "w").write(HEADER % (" ".join(imports), harness, body, harness))
    rc, out = sh(["coqc", "-noglob", "-Q", COQ, "Parsley", "-Q", work, "Cases" + pid, path], cwd=work, timeout=timeout)
    for ext in (".vo", ".vok", ".vos", ".glob"):
        try:
            os.remove(path[:-2] + ext)
        except OSError:
            pass
    d, v = _idx(out, "D"), _idx(out, "V")
    if rc != 0 or d is None or v is None:
        return {"error": out[-3000:], "shard": k}
    m = re.search(r"^X = (.*?)\s*: list \(N \* obs\)", out, re.S | re.M)
    return {"disagree": d, "violate": v, "detail": split_entries(m.group(1) if m else "")}


def split_entries(txt):
    """'[(3, OT ...); (7, ...)]' -> {3: 'OT ...', 7: '...'} (bracket-depth aware)."""
    res = {}
    depth = 0
    start = None
    for i, ch in enumerate(txt):
        if ch in "[(":
            depth += 1
            if depth == 2 and ch == "(":
                start = i
        elif ch in "])":
            if depth == 2 and ch == ")" and start is not None:
                ent = txt[start + 1:i]
                m = re.match(r"\s*(\d+),\s*(.*)", ent, re.S)
                if m:
                    res[int(m.group(1))] = " ".join(m.group(2).split())
                start = None
            depth -= 1
    return res


BUDGET_CUT = []


def run_model(pid, imports, harness, pairs, shard=None, procs=16, timeout=1500):
    """pairs: list of (case_text, obs_text).  Returns (disagree, violate, details, errors).
    Elaborating the literal case terms dominates (about 27 us per byte), so shards are
    balanced by size, one per core."""
    os.makedirs(os.path.join(WORK, pid), exist_ok=True)
    for f in os.listdir(os.path.join(WORK, pid)):
        if f.startswith("cases_") or f.startswith(".cases_"):
            os.remove(os.path.join(WORK, pid, f))
    total = sum(len(c) + len(o) for c, o in pairs)
    target = max(60000, total // procs + 1)
    shards, cur, size = [], [], 0
    solo = []
    for i, (c, o) in enumerate(pairs):
        if '"Timeout"' in o or '"Crash"' in o:
            solo.append([i])       # the model may exceed the budget too: evaluated alone
            continue
        if "big_bytes" in c:
            shards.append([i])     # short to write, long to evaluate: a shard of its own (started first)
            continue
        cur.append(i)
        size += len(c) + len(o)
        if size >= target or (shard and len(cur) >= shard):
            shards.append(cur)
            cur, size = [], 0
    if cur:
        shards.append(cur)
    nfull = len(shards)
    shards += solo
    jobs = [(k, pid, imports, harness, [pairs[i] for i in idx], timeout if k < nfull else 25) for k, idx in enumerate(shards)]
    with ThreadPoolExecutor(max_workers=procs) as ex:
        res = list(ex.map(_run_shard, jobs))
    disagree, violate, details, errors = [], [], {}, []
    for k, r in enumerate(res):
        if "error" in r:
            if k >= nfull and "[timeout]" in r["error"]:
                BUDGET_CUT.append(shards[k][0])   # implementation and model both exceed the budget
                continue
            errors.append(r)
            continue
        idx = shards[k]
        disagree += [idx[i] for i in r["disagree"]]
        violate += [idx[i] for i in r["violate"]]
        for i, e in r["detail"].items():
            details[idx[i]] = e
    return disagree, violate, details, errors


# --------------------------------------------------------------------------
# model side, fast path: the extracted OCaml driver (ocaml/, ExtrOcamlBasic only)

def ocaml_build():
    """(Re)extracts and compiles ocaml/model_driver when a Coq source is newer."""
    d = os.path.join(ROOT, "ocaml")
    exe = os.path.join(d, "model_driver")
    srcs = [os.path.join(COQ, f) for f in os.listdir(COQ) if f.endswith(".v")] + [os.path.join(d, "driver.ml"), os.path.join(d, "extract.v")]
    if os.path.exists(exe) and all(os.path.getmtime(x) <= os.path.getmtime(exe) for x in srcs):
        return True, ""
    ok, out = coq_make(["EngineExtract.vo"])
    if not ok:
        return False, out
    rc, out = sh("flock %s/.lock sh -c 'coqc -noglob -Q %s Parsley extract.v && "
                 "ocamlfind ocamlopt -O3 model.mli model.ml driver.ml -o model_driver'" % (COQ, COQ), cwd=d, timeout=1800)
    return rc == 0, out


def _fast_chunk(args):
    which, pairs, timeout = args
    exe = os.path.join(ROOT, "ocaml", "model_driver")
    inp = "".join("%s\t%s\n" % (c, o) for c, o in pairs)
    rc, out = sh(["sh", "-c", "ulimit -s unlimited; exec %s %d" % (exe, which)], inp=inp, timeout=timeout)
    res = {}
    for line in out.split("\n"):
        parts = line.split(" ", 3)
        if len(parts) >= 3 and parts[0].isdigit():
            res[int(parts[0])] = (parts[1], parts[2], parts[3] if len(parts) > 3 else "")
    return rc, res, out[-2000:]


def run_model_fast(pid, which, pairs, procs=16, timeout=1500):
    ok, out = ocaml_build()
    if not ok:
        return [], [], {}, [{"error": "ocaml build failed: " + out[-3000:], "shard": -1}]
    normal = [i for i, (c, o) in enumerate(pairs) if '"Timeout"' not in o and '"Crash"' not in o]
    solo = [i for i in range(len(pairs)) if i not in set(normal)]
    size = max(1, (len(normal) + procs - 1) // procs)
    chunks = [normal[k:k + size] for k in range(0, len(normal), size)] + [[i] for i in solo]
    nfull = len(chunks) - len(solo)
    jobs = [(which, [pairs[i] for i in idx], timeout if k < nfull else 25) for k, idx in enumerate(chunks)]
    with ThreadPoolExecutor(max_workers=procs) as ex:
        res = list(ex.map(_fast_chunk, jobs))
    disagree, violate, details, errors = [], [], {}, []
    for k, (rc, r, tail) in enumerate(res):
        idx = chunks[k]
        if k >= nfull and len(r) < 1:
            BUDGET_CUT.append(idx[0])
            continue
        if len(r) != len(idx):
            errors.append({"error": "model driver stopped after %d of %d cases (rc=%s): %s; next case: %s" % (
                len(r), len(idx), rc, tail[-300:], pairs[idx[len(r)]][0][:500] if len(r) < len(idx) else ""), "shard": k})
        for j, (d, v, e) in r.items():
            if d == "E":
                errors.append({"error": "model driver: %s on case %s" % (e, pairs[idx[j]][0][:500]), "shard": k})
                continue
            if d == "1":
                disagree.append(idx[j])
            if v == "1":
                violate.append(idx[j])
            if e:
                details[idx[j]] = e
    return disagree, violate, details, errors


# --------------------------------------------------------------------------
# known findings

def known_findings(pid):
    """Entries of known_findings.txt for this property: list of dicts."""
    res = []
    path = os.path.join(ROOT, "known_findings.txt")
    if not os.path.exists(path):
        return res
    for line in open(path):
        line = line.strip()
        if not line or line.startswith("#"):
            continue
        m = re.match(r"finding: property=(\S+) id=(\S+) corpus=(\S+) (.*)", line)
        if m and m.group(1) == pid:
            res.append({"id": m.group(2), "corpus": m.group(3), "what": m.group(4)})
    return res


# --------------------------------------------------------------------------
# the generic check

class Outcome:
    def __init__(self):
        self.violations = []   # dicts written as replays
        self.known = []


def out_dir(name):
    """evidence/ and replays/ of /verif are written only by runs against /repo itself; runs against a
    private copy (VERIF_REPO, mutation testing) write under their work directory"""
    if REPO != "/repo":
        return os.path.join(WORK, name)
    return os.path.join(ROOT, name)


def write_replay(pid, payload):
    d = out_dir("replays")
    os.makedirs(d, exist_ok=True)
    h = hashlib.sha1(json.dumps(payload, sort_keys=True).encode()).hexdigest()[:12]
    path = os.path.join(d, "%s-%s.json" % (pid, h))
    json.dump(payload, open(path, "w"), indent=1)
    return path


def write_evidence(pid, tier, seed, coverage, assumptions, wall, violations):
    os.makedirs(out_dir("evidence"), exist_ok=True)
    ev = {"property_id": pid, "tier": tier, "seed": seed, "level": "proof", "coverage": coverage,
          "assumptions": assumptions, "wall_s": round(wall, 1), "violations": violations}
    json.dump(ev, open(os.path.join(out_dir("evidence"), pid + ".json"), "w"), indent=1)


def sample_cases(cases, per_stream=1, limit=8):
    """one case of every stream (the middle one), written out"""
    by = {}
    for c, m in cases:
        by.setdefault(m.get("stream", "?"), []).append(c)
    out = []
    for st, cs in by.items():
        out.append({"stream": st, "case": cs[len(cs) // 2][:700]})
    return out[:limit]


def corpus_cases(pid):
    """corpus/<ID>/*.case: first non-comment line is the case; '# key: value' lines are metadata."""
    d = os.path.join(ROOT, "corpus", pid)
    res = []
    if os.path.isdir(d):
        for f in sorted(os.listdir(d)):
            if not f.endswith(".case"):
                continue
            meta = {"stream": "corpus", "file": f}
            case = None
            for line in open(os.path.join(d, f)):
                line = line.rstrip("\n")
                if line.startswith("#"):
                    m = re.match(r"#\s*(\w+):\s*(.*)", line)
                    if m:
                        meta[m.group(1)] = m.group(2)
                elif line.strip() and case is None:
                    case = line.strip()
            if case:
                res.append((case, meta))
    return res


def standard_check(mod, tier, seed, replay=None):
    """mod provides: ID, SUBCMD, IMPORTS, HARNESS, PROPS_TARGETS, generate(rng, tier) -> [(case, meta)],
    optional nontrivial(case, obs, meta) -> bool, TRUSTED (list of str), ASSUMPTIONS (list of str),
    RULE (str), optional classify_known(case, meta, finding) -> bool, THEOREM_FOR_CORRESPONDENCE (str)."""
    t0 = time.time()
    pid = mod.ID
    problems = []      # broken obligations (no concrete input yet)
    # 1. Coq build + theorems
    ok, out = coq_make(getattr(mod, "COQ_TARGETS", None))
    if not ok:
        # which file failed?
        m = re.findall(r"File \"([^\"]+)\", line (\d+)", out)
        problems.append({"kind": "coq-build", "where": m[-1] if m else None, "log": out[-4000:]})
    pr = {"ok": False, "theorems": [], "closed": 0, "axioms": [], "log": ""}
    if ok and getattr(mod, "DEV", False):
        pr["ok"] = True
    elif ok:
        pr = props_check(pid)
        if not pr["ok"]:
            problems.append({"kind": "props", "log": pr["log"][-4000:]})
    hits = forbidden_scan()
    if hits:
        problems.append({"kind": "forbidden-words", "hits": hits})
    coqchk = None
    if ok and pr["ok"] and tier == "thorough" and not replay and not getattr(mod, "DEV", False):
        # independent re-check of the compiled Props file and everything it depends on
        limit = getattr(mod, "COQCHK_TIMEOUT", 1500)
        rc, out = sh("flock -s %s/.lock coqchk -silent -o -Q . Parsley Parsley.Props.%s" % (COQ, pid), cwd=COQ, timeout=limit)
        m = re.search(r"\* Axioms:(.*?)\n\s*\n", out, re.S)
        coqchk = {"rc": rc, "axioms": " ".join((m.group(1) if m else "?").split())}
        if rc == 124:
            coqchk["note"] = "coqchk exceeded %ds (it re-checks VM casts with the lazy machine); not counted as a failure" % limit
        elif rc != 0:
            problems.append({"kind": "coqchk", "log": out[-3000:]})
        log("%s: coqchk rc=%d axioms=%s" % (pid, rc, coqchk["axioms"]))
    # 2. Go driver from the working tree
    gok, gout, exe = go_build(pid)
    if not gok:
        print("ERROR: cannot build the Go driver against %s:\n%s" % (REPO, gout[-3000:]))
        return 2
    # 3. cases
    rng = random.Random(seed)
    if replay:
        rp = json.load(open(replay))
        cases = [(rp["case"], {"stream": "replay"})]
    else:
        cases = corpus_cases(pid) + mod.generate(rng, tier)
    lines = [c for c, _ in cases]
    t1 = time.time()
    obs = run_impl(exe, mod.SUBCMD, lines, stall=getattr(mod, "STALL", 20))
    log("%s: build %.1fs, implementation run %.1fs" % (pid, t1 - t0, time.time() - t1))
    t1 = time.time()
    assert len(obs) == len(lines), (len(obs), len(lines))
    # 4. model + oracle
    disagree, violate, details, errors = ([], [], {}, [])
    if ok:
        # observations beyond the size budget (hugely ambiguous grammars) are cut and counted, not evaluated
        maxobs = getattr(mod, "MAXOBS", 300000)
        for i, o in enumerate(obs):
            if len(o) > maxobs:
                BUDGET_CUT.append(i)
                obs[i] = '(OT "CutBySize" [])'
        keep = [i for i in range(len(obs)) if obs[i] != '(OT "CutBySize" [])']
        pairs = [(lines[i], obs[i]) for i in keep]
        if hasattr(mod, "FAST") and os.environ.get("VERIF_MODEL", "ocaml") == "ocaml":
            disagree, violate, details, errors = run_model_fast(pid, mod.FAST, pairs)
            k = getattr(mod, "CROSSCHECK", {}).get(tier, 0)
            if k:   # cross-check of the extraction: the same definitions evaluated by vm_compute on a sample
                sample = [i for i in range(len(pairs)) if '"Timeout"' not in obs[i] and '"Crash"' not in obs[i]][:k]
                d2, v2, _, e2 = run_model(pid, mod.IMPORTS, mod.HARNESS, [pairs[i] for i in sample])
                if e2 or sorted(sample[i] for i in d2) != sorted(i for i in disagree if i in set(sample)) or \
                        sorted(sample[i] for i in v2) != sorted(i for i in violate if i in set(sample)):
                    errors.append({"error": "extracted driver and vm_compute disagree on the cross-check sample: %r %r %r" % (d2, v2, e2)})
                log("%s: extraction cross-checked by vm_compute on %d cases" % (pid, len(sample)))
        else:
            disagree, violate, details, errors = run_model(pid, mod.IMPORTS, mod.HARNESS, pairs,
                                                           shard=getattr(mod, "SHARD", None))
        disagree = [keep[i] for i in disagree]
        violate = [keep[i] for i in violate]
        details = {keep[i]: v for i, v in details.items()}
        for e in errors:
            problems.append({"kind": "model-evaluation", "log": e["error"]})
        log("%s: model evaluation %.1fs" % (pid, time.time() - t1))
    # 5. verdict
    findings = known_findings(pid)
    exit_code = 0
    reported = set()
    nviol = 0

    def is_known(i):
        case, meta = cases[i]
        for f in findings:
            if meta.get("file") == f["corpus"] or (hasattr(mod, "classify_known") and mod.classify_known(case, meta, f)):
                return f
        return None

    for f in findings:
        # a listed finding is printed when its corpus witness still fails as recorded
        idx = [i for i, (c, m) in enumerate(cases) if m.get("file") == f["corpus"]]
        if idx and (idx[0] in violate or idx[0] in disagree):
            print("KNOWN-FINDING: property=%s %s" % (pid, f["what"]))
    bad = sorted(set(violate))
    for i in bad:
        if is_known(i):
            continue
        nviol += 1
        if len(reported) < 3:
            path = write_replay(pid, {"property": pid, "kind": "failing-input", "case": lines[i], "implementation": obs[i],
                                      "model_expectation": details.get(i, "")[:20000], "stream": cases[i][1],
                                      "replay_cmd": "./check %s --replay <this file>" % pid})
            print("VIOLATION property=%s replay=%s" % (pid, path))
            reported.add(i)
        exit_code = 1
    only_dis = [i for i in sorted(set(disagree)) if i not in set(violate) and not is_known(i)]
    if only_dis and not [i for i in bad if not is_known(i)]:
        i = only_dis[0]
        nviol += len(only_dis)
        path = write_replay(pid, {"property": pid, "kind": "correspondence-broken",
                                  "correspondence": getattr(mod, "CORRESPONDENCE", "model = implementation on projected observables"),
                                  "first_differing_case": lines[i], "implementation": obs[i],
                                  "model_expectation": details.get(i, "")[:20000], "differing_cases": len(only_dis)})
        print("VIOLATION property=%s replay=%s no-failing-input-found" % (pid, path))
        exit_code = 1
    if problems and exit_code == 0:
        path = write_replay(pid, {"property": pid, "kind": "obligation-broken", "problems": problems})
        print("VIOLATION property=%s replay=%s no-failing-input-found" % (pid, path))
        nviol += 1
        exit_code = 1
    # 6. evidence
    nt = getattr(mod, "nontrivial", lambda c, o, m: True)
    distinct = {}
    for (c, m), o in zip(cases, obs):
        if c not in distinct:
            distinct[c] = nt(c, o, m)
    streams = {}
    for _, m in cases:
        streams[m.get("stream", "?")] = streams.get(m.get("stream", "?"), 0) + 1
    cov = {
        "obligations": max(1, len(pr["theorems"])),
        "discharged": pr["closed"] + len(pr["axioms"]) if pr["ok"] else 0,
        "theorems": pr["theorems"],
        "print_assumptions": ["Closed under the global context"] * pr["closed"] + pr["axioms"],
        "checker_cmd": "make -C coq -j16 && coqc -Q coq Parsley coq/Props/%s.v" % pid,
        "trusted_base": getattr(mod, "TRUSTED", []),
        "evaluations": len(cases),
        "distinct_nontrivial": sum(1 for v in distinct.values() if v),
        "rule": getattr(mod, "RULE", ""),
        "streams": streams,
        "samples": sample_cases(cases),
        "model_vs_implementation_disagreements": len(set(disagree)),
        "oracle_violations": len(set(violate)),
        "exhaustive": bool(getattr(mod, "EXHAUSTIVE", {}).get(tier, False)),
        "cut_by_budget": len(BUDGET_CUT),
        "coqchk": coqchk,
        "distribution": mod.distribution(cases, obs) if hasattr(mod, "distribution") else {},
    }
    write_evidence(pid, tier, seed, cov, getattr(mod, "ASSUMPTIONS", []), time.time() - t0, nviol)
    log("%s: %d cases, %d disagreements, %d oracle violations, %d theorems, %.1fs" % (
        pid, len(cases), len(set(disagree)), len(set(violate)), len(pr["theorems"]), time.time() - t0))
    return exit_code
