"""C05 — the left-recursive arithmetic grammar evaluates like a reference evaluator."""
import itertools

ID = "C05"
SUBCMD = "c05"
IMPORTS = ["Grammar", "Arith"]
HARNESS = "c05_engine_harness"
COQ_TARGETS = ["ArithSpec.vo", "ArithSpecProofs.vo", "Arith.vo", "ArithProofs.vo", "CompleteTrim.vo", "ArithAccept.vo", "Props/C05.vo"]
CORRESPONDENCE = ("c05e_expected: Arith.arith_run (the ENGINE MODEL's parsley.Evaluate on the grammar Arith.arith_rules with the "
                  "binop interpreter, inputs up to 64 bytes: value and complete error text) = parsley.Evaluate on the real "
                  "combinators built from the same grammar term; ArithSpec.arith_ref (lexer + iterative reference evaluator) = "
                  "the driver's own scannerless Go reference evaluator; above 64 bytes the reference's prediction (value / "
                  "exact division-by-zero text / parse-error prefix) = parsley.Evaluate")
RULE = ("the grammar-text case; every byte string up to length 4 over {1 0 - + * / ( ) space} (thorough: also length 5 without +); random well-formed "
        "expressions (depth <= 8, chains of - and /, mixed precedence, redundant parentheses, signed / hex / octal / "
        "int64-edge literals, overflowing sums and products, zero divisors at random depths, white space styles none / "
        "spaces / tabs / LF / FF / CRLF / leading / trailing, 1 to ~300 bytes); long left-nested chains; ill-formed "
        "mutations of well-formed texts (dropped, doubled, replaced, inserted byte, unbalanced parenthesis, dangling "
        "operator, missing operator, out-of-range literal, float, empty / blank input); base offsets 1, 2, 50. "
        "non-trivial = the text holds at least one operator or parenthesis; distinct = distinct case text")
TRUSTED = ["Coq 8.16.1 kernel and vm_compute",
           "the specification coq/ArithSpec.v (lexer, reference evaluator; ArithSpecProofs.v proves it equal to the "
           "structural semantics of the left-recursive token grammar)",
           "the hand-written engine model (Grammar.v, Engine.v, Top.v, Literals.v) and Arith.arith_eval (the binop "
           "interpreter on engine nodes), tied to the code by this differential run (and by the ENG/C01-C04/C08 runs)",
           "the grammar is one Coq term (Arith.arith_rules/arith_root); the driver builds the real combinators from its "
           "text and the corpus case C05Grammar makes both sides compare that text with their own definition; the binop "
           "interpreter is written twice (harness/c05.go c05Binop, Arith.apply_op)",
           "Literals.int_lexeme / parse_int_base0 (C08) for the literal syntax and value",
           "Go driver harness/c05.go (incl. its recursion/work budget probe)", "lib/core.py orchestration"]
ASSUMPTIONS = ["the file is placed at base offset 1, 2 or 50 behind a filler file (harness/eng.go layout)",
               "Go int arithmetic on positions does not overflow (unbounded N in the model)",
               "int64 arithmetic = Z arithmetic wrapped to 64 bits, / = truncated quotient",
               "bytes are < 256 (bytes_ok) in the theorems about the engine model",
               "the engine model is evaluated for inputs of at most 64 bytes (Arith.MODEL_CAP); longer inputs are "
               "compared with the reference only"]
EXHAUSTIVE = {"quick": False, "thorough": False}
OFFSETS = [1, 2, 50]

I64MAX = 9223372036854775807
I64MIN = -9223372036854775808


def case(text, off):
    if isinstance(text, str):
        text = text.encode("latin1")
    return "C05 [%s] %d" % ("; ".join(str(b) for b in text), off)


# ----------------------------------------------------------------------
# well-formed expressions: trees ('n', literal) | ('b', op, l, r) | ('p', e); printed with the
# parentheses the grammar needs (plus redundant ones) and a white-space style

def literal(rng, style):
    r = rng.random()
    if style == "edge" and r < 0.5:
        v = rng.choice([I64MAX, I64MIN, I64MAX - 1, I64MIN + 1, 4294967296, 3037000500, -3037000500, 2 ** 62, -2 ** 62,
                        4611686018427387904, 1 << 32, -1, 2, 3])
        return str(v)
    if r < 0.08:
        return "0"
    if r < 0.16:
        return rng.choice(["0x", "0X"]) + "".join(rng.choice("0123456789abcdefABCDEF") for _ in range(rng.choice([1, 1, 2, 4, 8])))
    if r < 0.24:
        return "0" + "".join(rng.choice("01234567") for _ in range(rng.choice([0, 1, 2, 3])))
    v = rng.choice([1, 2, 3, 5, 7, 9, 10, 12, 100, rng.randrange(1, 1000), rng.randrange(1, 10 ** 6)])
    s = rng.random()
    sign = "-" if s < 0.25 else "+" if s < 0.33 else ""
    return sign + str(v)


OPS = {"mixed": "+-*/", "subdiv": "--//-/+*", "addmul": "+*", "sub": "-", "div": "/", "edge": "+-**", "div0": "+-*//"}


def tree(rng, depth, style, budget):
    """budget: [remaining leaves]"""
    if depth == 0 or budget[0] <= 1 or rng.random() < 0.18:
        budget[0] -= 1
        if style == "div0" and rng.random() < 0.12:
            return ("n", rng.choice(["0", "0", "00", "0x0", "-0", "+0"]))
        return ("n", literal(rng, style))
    if rng.random() < 0.12:
        return ("p", tree(rng, depth - 1, style, budget))
    op = rng.choice(OPS[style])
    # left-heavy more often than right-heavy: the left recursion is what is being exercised
    if rng.random() < 0.6:
        l = tree(rng, depth - 1, style, budget)
        r = tree(rng, max(0, depth - 1 - rng.choice([0, 1, 2, 5])), style, budget)
    else:
        l = tree(rng, max(0, depth - 1 - rng.choice([0, 1, 2])), style, budget)
        r = tree(rng, depth - 1, style, budget)
    if style == "div0" and op == "/" and rng.random() < 0.1:
        z = rng.choice([("n", "0"), ("b", "-", ("n", "3"), ("n", "3")), ("b", "*", ("n", "0"), ("n", "5")),
                        ("b", "/", ("n", "1"), ("n", "2"))])
        r = z
    return ("b", op, l, r)


def prec(t):
    if t[0] == "b":
        return 1 if t[1] in "+-" else 2
    return 3


def toks(t, rng, extra=0.05):
    """token strings of the expression with the parentheses the left-recursive grammar needs"""
    if t[0] == "n":
        return [t[1]]
    if t[0] == "p":
        return ["("] + toks(t[1], rng, extra) + [")"]
    p = prec(t)
    l, r = t[2], t[3]
    lt = toks(l, rng, extra)
    if prec(l) < p or rng.random() < extra:
        lt = ["("] + lt + [")"]
    rt = toks(r, rng, extra)
    if prec(r) <= p or rng.random() < extra:
        rt = ["("] + rt + [")"]
    return lt + [t[1]] + rt


WS = {"none": [""], "space": [" "], "spaces": ["", " ", "  "], "nl": ["", " ", "\n", " \n "], "tab": ["\t", " ", ""],
      "all": ["", "", " ", "\t", "\n", "\f", "\r\n", " \n\t"], "crlf": ["", " ", "\r\n"]}


def render(ts, rng, ws):
    gaps = WS[ws]
    out = []
    if ws not in ("none", "space") and rng.random() < 0.3:
        out.append(rng.choice(gaps))
    for i, t in enumerate(ts):
        if i:
            out.append(rng.choice(gaps))
        out.append(t)
    if ws != "none" and rng.random() < 0.4:
        out.append(rng.choice(gaps) + rng.choice(gaps))
    return "".join(out)


def wellformed(rng, maxlen=300):
    style = rng.choice(["mixed", "mixed", "subdiv", "subdiv", "addmul", "edge", "div0", "div0", "sub", "div"])
    depth = rng.choice([1, 2, 3, 4, 5, 6, 8])
    budget = [rng.choice([2, 3, 4, 6, 8, 12, 20, 40])]
    t = tree(rng, depth, style, budget)
    ws = rng.choice(["none", "none", "space", "spaces", "nl", "tab", "all", "all", "crlf"])
    s = render(toks(t, rng, rng.choice([0, 0.05, 0.3])), rng, ws)
    if len(s) > maxlen:
        return wellformed(rng, maxlen)
    return s, style, ws


def chain(rng):
    """long left-nested chains a op b op c ...: the depth of left recursion grows with the input"""
    n = rng.choice([5, 10, 20, 40, 60, 90])
    ops = rng.choice(["-", "/", "-/", "-+", "*/", "+-*/"])
    sep = rng.choice(["", "", " ", "\n"])
    first = rng.choice(["1", "100", "1000000", str(I64MAX), "-7", "(2)", "0x7fffffffffffffff"])
    parts = [first]
    for _ in range(n):
        nxt = [rng.choice(ops), rng.choice(["1", "2", "3", "7", "-2", "(1)", "10"]) if rng.random() < 0.97 else "0"]
        if len(sep.join(parts + nxt)) > 298:
            break
        parts += nxt
    return sep.join(parts)


def nested(rng):
    """deep parentheses, left and right"""
    d = rng.choice([1, 2, 5, 10, 25, 50])
    core = rng.choice(["1", "1-2", "7/2", "3*(4-5)", "1/0"])
    kind = rng.random()
    if kind < 0.4:
        return "(" * d + core + ")" * d
    s = core
    for i in range(min(d, 30)):
        op = rng.choice("+-*/")
        s = ("(%s)%s%d" % (s, op, i + 1)) if kind < 0.7 else ("%d%s(%s)" % (i + 1, op, s))
    return s


def mutate(rng, s):
    b = list(s)
    k = rng.choice(["drop", "dup", "repl", "ins", "paren", "dangle", "noop", "range", "float", "trunc", "lead"])
    if not b:
        return rng.choice(["", " ", "\n", "+", "()", ")"]), k
    i = rng.randrange(len(b))
    if k == "drop":
        del b[i]
    elif k == "dup":
        b.insert(i, b[i])
    elif k == "repl":
        b[i] = rng.choice("+-*/() 0129x.a\n\r_%\x00\xe9")
    elif k == "ins":
        b.insert(i, rng.choice("+-*/() 0189x.e\n\t,"))
    elif k == "paren":
        ps = [j for j, c in enumerate(b) if c in "()"]
        if ps and rng.random() < 0.6:
            del b[rng.choice(ps)]
        else:
            b.insert(i, rng.choice("()"))
    elif k == "dangle":
        op = rng.choice("+-*/")
        if rng.random() < 0.5:
            b.append(rng.choice(["", " "]) + op + rng.choice(["", " "]))
        else:
            b.insert(0, op + rng.choice(["", " "]))
    elif k == "noop":
        ops = [j for j, c in enumerate(b) if c in "+-*/"]
        if ops:
            b[rng.choice(ops)] = rng.choice([" ", "", "  "])
    elif k == "range":
        ds = [j for j, c in enumerate(b) if c in "123456789"]
        if ds:
            j = rng.choice(ds)
            b[j] = rng.choice(["9223372036854775808", "99999999999999999999", "0x8000000000000000", "18446744073709551616",
                               "01000000000000000000000"])
    elif k == "float":
        ds = [j for j, c in enumerate(b) if c in "0123456789"]
        if ds:
            j = rng.choice(ds)
            b[j] = b[j] + rng.choice([".5", ".", ".0", "e3"])
    elif k == "trunc":
        b = b[:i]
    elif k == "lead":
        b.insert(0, rng.choice(["- ", "-(", "--", "+ ", ") ", "\r"]))
    return "".join(b), k


HAND = ["1 -2", "1--2", "1 - -2", "1 - - 2", "1 -- 2", "- 1", "-(1)", "--1", "2*-3", "2* -3", "2 *- 3", "+1", "1+-+2", "1 +2", "1+ +2",
        "08", "09", "0x", "0xg", "0x1g", "00", "007", "1.5", "1.", "1 .", ".5", "1 2", "(1)2", "(1)(2)", "1(2)", "()", "(", ")", "",
        " ", "\n", "1", " 1 ", "\t1\n", "1\f", "\f\f1", "1\r", "1\r\n", "\r\n1\r\n+\r\n2", "1\r2", "9223372036854775807",
        "9223372036854775808", "-9223372036854775808", "-9223372036854775809", "0-9223372036854775808",
        "-9223372036854775808/-1", "-9223372036854775808*-1", "9223372036854775807+1", "-9223372036854775808-1",
        "3037000500*3037000500", "4294967296*4294967296", "0x7fffffffffffffff", "0x8000000000000000", "-0x8000000000000000",
        "0777777777777777777777", "01000000000000000000000", "1/0", "1/(1-1)", "1/0/0", "(1/0)/(2/0)", "1/0+2/0", "2/0*(1/0)",
        "0/0", "1/-0", "1/+0", "1/00", "1/0x0", "1 +\n 2/0", "\n\n1/\n0", "1\n/\n0", "7/2", "-7/2", "7/-2", "-7/-2",
        "1-2-3", "8/4/2", "2-3+4", "8/4*2", "1+2*3", "1*2+3", "2*3-4/2", "(1+2)*3", "1+(2*3)", "((1))", "1e5", "1_000", "0b101", "0o17",
        "a", "1+a", "1 + é", "\xff", "1\x00", "1 + 2 ;", "1,2", "1 % 2", "2**3", "2//3", "1+*2", "1*/2", "1-*2", "1*+2", "1/+2", "1/-2",
        "1-2-3-4-5-6-7-8-9-10-11-12-13-14-15-16-17-18-19-20", "64/2/2/2/2/2/2/2"]


def generate(rng, tier):
    out = []
    seen = set()

    def add(s, meta):
        off = OFFSETS[len(out) % 3] if meta.get("off") is None else meta["off"]
        c = case(s, off)
        if c not in seen:
            seen.add(c)
            m = dict(meta)
            m["len"] = len(s)
            out.append((c, m))

    for s in HAND:
        for off in OFFSETS:
            add(s, {"stream": "hand", "off": off})
    # exhaustive small strings
    for k in range(0, 5):
        for tpl in itertools.product("10-+*/() ", repeat=k):
            add("".join(tpl), {"stream": "enumerated"})
    if tier != "quick":
        for tpl in itertools.product("10-*/() ", repeat=5):
            add("".join(tpl), {"stream": "enumerated"})
    nw, nc, nn, nm = (1200, 150, 100, 1300) if tier == "quick" else (14000, 1500, 800, 14000)
    good = []
    for _ in range(nw):
        s, style, ws = wellformed(rng)
        good.append(s)
        add(s, {"stream": "wellformed", "style": style, "ws": ws})
    for _ in range(nc):
        s = chain(rng)
        good.append(s)
        add(s, {"stream": "chain"})
    for _ in range(nn):
        s = nested(rng)
        good.append(s)
        add(s, {"stream": "nested"})
    for _ in range(nm):
        s, k = mutate(rng, rng.choice(good))
        if rng.random() < 0.15:
            s, k2 = mutate(rng, s)
            k = k + "+" + k2
        add(s, {"stream": "mutated", "mutation": k})
    return out


def nontrivial(case_text, obs, meta):
    if case_text.startswith("C05Grammar"):
        return False
    body = case_text[case_text.index("[") + 1:case_text.index("]")]
    bs = set(body.split("; ")) if body else set()
    return bool(bs & {"40", "41", "42", "43", "45", "47"})


def distribution(cases, obs):
    d = {"value": 0, "div0": 0, "rejected": 0, "other": 0, "len<=4": 0, "len<=32": 0, "len<=100": 0, "len>100": 0,
         "max_len": 0}
    for (c, m), o in zip(cases, obs):
        if c.startswith("C05Grammar"):
            continue
        second = o.rsplit("(OT ", 1)[-1]
        if second.startswith('"Val"'):
            d["value"] += 1
        elif second.startswith('"Div0"'):
            d["div0"] += 1
        elif second.startswith('"Reject"'):
            d["rejected"] += 1
        else:
            d["other"] += 1
        n = m.get("len")
        if n is None:
            body = c[c.index("[") + 1:c.index("]")]
            n = len(body.split("; ")) if body else 0
        d["max_len"] = max(d["max_len"], n)
        d["len<=4" if n <= 4 else "len<=32" if n <= 32 else "len<=100" if n <= 100 else "len>100"] += 1
    return d


MANIFEST = {
    "technique": ("Rocq proof that the engine model's Evaluate on the grammar returns the reference evaluator's answer "
                  "(soundness, rejection, totality; acceptance for the white-space-free sub-language and bounded with "
                  "white space) + differential run of parsley.Evaluate on the real combinators against the engine model, "
                  "the specification (vm_compute) and a second reference evaluator in Go"),
    "text": ("coq/ArithSpec.v defines the token syntax the workload grammar accepts (context-dependent sign handling "
             "documented there) and the reference evaluator arith_ref (int64 wrap-around, truncated division, position of "
             "the offending '/'); ArithSpecProofs.v proves it equal to the structural semantics of the left-recursive token "
             "grammar (ref_complete, ref_sound, precedence/associativity equations, round trip). coq/Arith.v gives the "
             "grammar as a pexpr over the engine model and the binop interpreter on engine nodes; ArithProofs.v proves, for "
             "every input: every derivation tree of expr spells tokens the reference accepts and evaluates to the "
             "reference's value, and the reference's lexer reads exactly those tokens (C05_arith_tree_value, _lex); the "
             "model of Evaluate returns the reference's value / division by zero at the reference's position, and a parse "
             "error whenever the reference rejects (C05_eval_sound, C05_rejects); with C02's fuel it neither runs out of "
             "fuel nor panics (C05_total); every well-formed expression without white space is accepted with its value "
             "(C05_accepts (full, via CompleteTrim.v: completeness for LeftTrim/RightTrim in mode WsSpacesNl), C05_accepts_nows_partial, via C01/C04 completeness and C05_strip_sim), and for all byte strings up to 4/5 "
             "bytes incl. white space model and reference agree completely (kernel computation). Every run compares "
             "parsley.Evaluate on the combinators built from the same grammar term with the engine model (value and complete "
             "error text, inputs <= 64 bytes) and with the specification (value, exact 'division by zero at f:<line>:<col>' "
             "by FileSet.spec_position, 'failed to parse the input: ...' for ill-formed input) over enumerated short "
             "strings, generated expressions and their mutations at three base offsets."),
    "note": ("Partial: acceptance of well-formed expressions WITH white space is not proved for all inputs (no completeness "
             "theorem for trimming combinators); covered by the bounded theorems and the differential run. Trusted: Coq "
             "kernel + vm_compute; the specification; the engine model and the interpreter model (validated by the "
             "differential runs); Literals.int_lexeme/parse_int_base0; the Go driver."),
    "ref": "DESIGN.md section 6, C05; notes/C05.md",
}
COQCHK_TIMEOUT = 600      # ArithProofs.v contains two kernel VM computations that coqchk re-checks with the lazy machine
