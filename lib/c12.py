"""C12 — parsing is invariant under the file's placement in a file set."""
from engcommon import *          # noqa: F401,F403
import engcommon
import gramgen as G

ID = "C12"
SUBCMD = "c12"
HARNESS = "c12_harness"
COQ_TARGETS = engcommon.COQ_BASE + ["Props/C12.vo"]
CORRESPONDENCE = "engine model at two base offsets = implementation at two base offsets"
RULE = ("each case is run with the file alone (base offset 1) and behind a filler file (base offset 2..60); grammars: random "
        "over all combinators incl. LeftTrim/RightTrim (trimmed token sequences), named alternatives, Memoize; inputs over "
        "{a, b, space, LF}; non-trivial = non-empty result or a failing sentence; distinct = distinct case text")

WS = ["WsNone", "WsSpaces", "WsSpacesNl", "WsSpacesForceNl"]


def trimmed(rng, e):
    r = rng.random()
    if r < 0.4:
        return ('ltrim', rng.choice(WS), e)
    if r < 0.6:
        return ('rtrim', rng.choice(WS), e)
    if r < 0.7:
        return ('rtrim', "WsSpacesNl", ('ltrim', "WsSpacesNl", e))
    return e


def token_seq(rng):
    n = rng.choice([1, 2, 3, 4])
    toks = [trimmed(rng, ('rune', rng.choice([G.A, G.B]))) for _ in range(n)]
    return [], G.seqof(*toks)


def rand_ws_input(rng, maxlen):
    return [rng.choice([G.A, G.A, G.B, 32, 32, 10, 9]) for _ in range(rng.randrange(maxlen + 1))]


def generate(rng, tier):
    out = []
    n = 250 if tier == "quick" else 3000
    for i in range(n):
        if i % 3 == 0:
            rules, root = token_seq(rng)
        else:
            rules, root = G.rand_grammar(rng, G.FULL if i % 3 == 1 else G.MONO)
            if engcommon.k1_shape(rules, root):
                continue
            if rng.random() < 0.3:
                cnt = [0]
                rules = [G.name_alternatives(r, cnt) for r in rules]
        for _ in range(2):
            out.append((G.case_text(rules, root, rand_ws_input(rng, 6), offset=rng.choice([2, 3, 7, 17, 60]), flags=0),
                        {"stream": "token-seq" if i % 3 == 0 else "random"}))
    # far placements: the file sits behind 16 MiB+ of other files (positions need more than 24 bits)
    for i in range(6 if tier == "quick" else 40):
        rules, root = G.rand_grammar(rng, G.MONO + ['memo', 'memo'], max_rules=3)
        if engcommon.k1_shape(rules, root) or engcommon.exponential_shape(rules, root):
            continue
        out.append((G.case_text(rules, root, G.rand_input(rng, 5), offset=(1 << 24) + rng.randrange(1, 1000), flags=0),
                    {"stream": "far-placement"}))
    # literal terminals (Word/Bool/Nil use MatchWord, Integer a look-ahead, String a custom reader): same shift relation
    for i in range(n // 2):
        # every third: the JSON-shaped / arithmetic-shaped workload grammars in miniature
        rules, root = G.rand_lit_grammar(rng) if i % 3 else (G.json_like(rng) if i % 2 else G.arith_like(rng))
        if engcommon.k1_shape(rules, root):
            continue        # known finding K1 (C07): outside the value-level model
        for _ in range(2):
            out.append((G.case_text(rules, root, G.rand_lit_input_for(rng, rules, root), offset=rng.choice([2, 3, 7, 17, 60]), flags=0),
                        {"stream": "literals"}))
    return out

MANIFEST = {'technique': 'Rocq simulation proof: the engine commutes with shifting every position; with C11, rendered line:column unchanged; the real engine is run at two base offsets per case and the two observations must be shifts of each other', 'text': 'Props/C12.v: C12_shift_engine (all combinators: nodes, errors, cache, logs shift uniformly), C12_placement_invariant (file alone vs behind arbitrary other files: same trees shifted, same error cause, identical error text), C12_rendered_unchanged (uses C11). The check parses every generated case alone and behind a filler file and requires observation2 = shift(observation1) on the implementation, and both equal to the model.', 'note': 'Trusted: as C01; positions >= 1 (File.SetOffset(0) excluded, C12_offset0_refuted documents why).', 'ref': 'DESIGN.md section 6, C12'}
FAST = 12
