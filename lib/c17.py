"""C17 — work stays polynomial on unambiguous grammars, left-recursive or not."""
import engcommon
import gramgen as G

ID = "C17"
SUBCMD = "c17"
IMPORTS = engcommon.IMPORTS + ["Cost"]
HARNESS = "c17_harness"
COQ_TARGETS = engcommon.COQ_BASE + ["Cost.vo", "CostProofs.vo", "ClosedForm.vo", "Props/C17.vo"]
STALL = 60
CORRESPONDENCE = "Context.CallCount of the implementation = calls of the engine model, for the six families at sizes n and 2n"
RULE = ("the six grammar families of the property (P -> P b | a; expr/term/factor; mutually left-recursive pair; hidden left "
        "recursion; nested brackets; separated lists) at every size parameter n of the theorem's domain (quick: every second), "
        "each parsed at sizes n and 2n and n again; non-trivial = every case (left-recursive families have re-entry at every "
        "position); distinct = distinct (family, n)")
TRUSTED = engcommon.TRUSTED
ASSUMPTIONS = ["the theorem's quantifier is the bounded one of the property (sizes 8..160, inputs up to 320 bytes; arithmetic family "
               "up to 160 bytes); no bound is proved for arbitrary grammars or sizes"]
EXHAUSTIVE = {"quick": False, "thorough": True}
A, B = 97, 98


def sq(*ps):
    return G.seqof(*ps)


def rn(c):
    return ('rune', c)


FAMILIES = [
    ([('memo', 1, ('any', [sq(('ref', 0), rn(98)), rn(97)]))], lambda n: [97] + [98] * (n - 1), 20),
    ([('memo', 1, ('any', [sq(('ref', 0), rn(43), ('ref', 1)), ('ref', 1)])),
      ('memo', 2, ('any', [sq(('ref', 1), rn(42), ('ref', 2)), ('ref', 2)])),
      ('memo', 3, ('any', [rn(49), sq(rn(40), ('ref', 0), rn(41))]))], lambda n: [49] + [43, 49, 42, 49] * (n // 4), 10),
    ([('memo', 1, ('any', [sq(('ref', 1), rn(120)), rn(97)])), ('memo', 2, ('any', [sq(('ref', 0), rn(121)), rn(98)]))],
     lambda n: [97] + [121, 120] * (n // 2), 20),
    ([('memo', 1, ('any', [sq(('opt', rn(120)), ('ref', 0), rn(98)), rn(97)]))], lambda n: [97] + [98] * (n - 1), 20),
    ([('memo', 1, ('any', [sq(rn(40), ('ref', 0), rn(41)), ('empty',)]))], lambda n: [40] * (n // 2) + [41] * (n // 2), 20),
    ([('memo', 1, ('seq', ('SSepBy', False), 'INone', False, None, [rn(97), rn(44)]))], lambda n: [97] + [44, 97] * (n // 2), 20),
]


# families beyond the theorem's table (no model comparison; the implementation's own doubling bound, polynomial bound and
# reproducibility): a pure sum (term positions are re-queried at every curtailment level: needs > 128 operands to notice a
# bounded cache) and nested brackets with three forms sharing a prefix (a failed alternative must be memoized too)
EXTRA = [
    (FAMILIES[1][0], lambda n: [49] + [43, 49] * (n // 2), 20),
    # four operations: two left-recursive alternatives per rule (the rule looks itself up twice at every level)
    ([('memo', 1, ('any', [sq(('ref', 0), rn(43), ('ref', 1)), sq(('ref', 0), rn(45), ('ref', 1)), ('ref', 1)])),
      ('memo', 2, ('any', [sq(('ref', 1), rn(42), ('ref', 2)), sq(('ref', 1), rn(47), ('ref', 2)), ('ref', 2)])),
      ('memo', 3, ('any', [rn(49), sq(rn(40), ('ref', 0), rn(41))]))],
     lambda n: [49] + [43, 49, 45, 49, 42, 49, 47, 49] * (n // 8), 20),
    ([('choice', [('ref', 1), ('ref', 2), ('ref', 3), rn(97)]),      # the dispatching Choice is NOT memoized
      ('memo', 2, sq(rn(40), ('ref', 0), rn(44), ('ref', 0), rn(44), ('ref', 0), rn(41))),
      ('memo', 3, sq(rn(40), ('ref', 0), rn(44), ('ref', 0), rn(41))),
      ('memo', 4, sq(rn(40), ('ref', 0), rn(41)))],
     lambda n: [40] * (n // 2) + [97] + [41] * (n // 2), 20),
]


def generate(rng, tier):
    out = []
    for k, (rules, inp, top) in enumerate(FAMILIES):
        sizes = [8 * i for i in range(1, top + 1) if not (tier == "quick" and i % 2 == 1 and i > 1)]
        # beyond the theorem's domain (no model comparison there): the implementation's own doubling bound and
        # reproducibility up to 320-byte inputs for every family
        sizes += [n for n in ((128, 160) if tier == "quick" else (96, 112, 128, 144, 160)) if n not in sizes]
        for n in sizes:
            small = "(%s)" % G.case_text(rules, ('ref', 0), inp(n))
            big = "(%s)" % G.case_text(rules, ('ref', 0), inp(2 * n))
            out.append(("C17 %d %d %s %s" % (k, n, small, big), {"stream": "family-%d" % k}))
    for j, (rules, inp, top) in enumerate(EXTRA):
        for n in ((16, 64, 128, 160) if tier == "quick" else range(8, 161, 8)):
            if j == 1 and n > 64:
                continue      # the ambiguous-free four-operation family is the heaviest: up to 128-byte inputs
            small = "(%s)" % G.case_text(rules, ('ref', 0), inp(n))
            big = "(%s)" % G.case_text(rules, ('ref', 0), inp(2 * n))
            out.append(("C17 %d %d %s %s" % (len(FAMILIES) + j, n, small, big), {"stream": "extra-family-%d" % j}))
    return out


MANIFEST = {
    "technique": "kernel computation (vm_compute, forallb lifted by forallb_forall) of the model's call counts over the property's bounded domain + exact equality of the implementation's CallCount with the model's",
    "text": ("Props/C17.v: C17_direct_closed_form / C17_direct_growth_unbounded — for the direct family an UNBOUNDED theorem: for every n >= 1 the model makes exactly (n^2+9n+16)/2 calls (symbolic proof by induction on the curtailment depth), hence calls(2n) <= 4 calls(n) for all n; and C17_growth_bounded — for each of the six families and EVERY size n in {8,16,...,160} (arithmetic family "
             "up to 80): calls(2n) <= 16 calls(n) and calls(n) <= 4(n+1)^4, computed by the Coq kernel on the engine model and lifted to "
             "a quantified statement; C17_deterministic. This matches the property's own bounded quantifier (inputs up to several "
             "hundred bytes); it is NOT a bound for arbitrary grammars or sizes (partial, said in DESIGN.md). The check requires the "
             "real Context.CallCount to equal the model's for every family and size, to be reproduced on a repeated run, and to "
             "satisfy the doubling bound itself."),
    "note": "Trusted: as C01 plus vm_compute for the finite-domain theorem. Partial: bounded domain only.",
    "ref": "DESIGN.md section 6, C17",
}
COQCHK_TIMEOUT = 240      # coqchk re-checks the VM casts of CostProofs.v with the lazy machine and cannot finish them: bounded, reported as a note
