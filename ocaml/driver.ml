(* model_driver <which>: reads "case<TAB>observation" lines, evaluates the extracted harness
   (Model.eng_check_text) and prints "<index> <disagree> <violate> [<expected>]" per line. *)
exception Bad of string
open Model

let rec pos_of_int i = if i = 1 then XH else if i land 1 = 0 then XO (pos_of_int (i lsr 1)) else XI (pos_of_int (i lsr 1))
let n_of_int i = if i = 0 then N0 else Npos (pos_of_int i)
let z_of_int i = if i = 0 then Z0 else if i > 0 then Zpos (pos_of_int i) else Zneg (pos_of_int (-i))
let rec int_of_pos = function XH -> 1 | XO p -> 2 * int_of_pos p | XI p -> 2 * int_of_pos p + 1
let int_of_n = function N0 -> 0 | Npos p -> int_of_pos p
let int_of_z = function Z0 -> 0 | Zpos p -> int_of_pos p | Zneg p -> - (int_of_pos p)
let ascii_of_char c =
  let b i = (Char.code c lsr i) land 1 = 1 in
  Ascii (b 0, b 1, b 2, b 3, b 4, b 5, b 6, b 7)
let char_of_ascii (Ascii (a, b, c, d, e, f, g, h)) =
  let v x i = if x then 1 lsl i else 0 in
  Char.chr (v a 0 + v b 1 + v c 2 + v d 3 + v e 4 + v f 5 + v g 6 + v h 7)
let cstring s =
  let r = ref EmptyString in
  for i = String.length s - 1 downto 0 do r := String (ascii_of_char s.[i], !r) done; !r
let rec ostring = function EmptyString -> "" | String (a, t) -> String.make 1 (char_of_ascii a) ^ ostring t

(* ---- reader ---- *)
let parse s : obs =
  let n = String.length s in
  let i = ref 0 in
  let ws () = while !i < n && (s.[!i] = ' ' || s.[!i] = '\t') do incr i done in
  let is_id c = c = '_' || c = '\'' || (c >= 'a' && c <= 'z') || (c >= 'A' && c <= 'Z') || (c >= '0' && c <= '9') in
  let is_alpha c = c = '_' || (c >= 'a' && c <= 'z') || (c >= 'A' && c <= 'Z') in
  let ident () = let j = !i in while !i < n && is_id s.[!i] do incr i done; String.sub s j (!i - j) in
  let nums l = List.map (function ON x -> x | _ -> raise (Bad "number expected")) l in
  let build head args =
    match head, args with
    | "ON", [ON x] -> ON x
    | "OZ", [ON x] -> OZ (z_of_int (int_of_n x))
    | "OZ", [OZ z] -> OZ z
    | "OB", [OB b] -> OB b
    | "OS", [OL l] -> OS (nums l)
    | "OL", [OL l] -> OL l
    | "OT", [OT (t, []); OL l] -> OT (t, l)
    | "true", [] -> OB true
    | "false", [] -> OB false
    | _ -> OT (cstring head, args) in
  let rec term () =
    ws ();
    if !i < n && is_alpha s.[!i] then begin
      let h = ident () in
      let args = ref [] in
      let continue = ref true in
      while !continue do
        ws ();
        if !i >= n then continue := false
        else match s.[!i] with
          | ';' | ']' | ')' | ',' -> continue := false
          | _ -> args := atom () :: !args
      done;
      build h (List.rev !args)
    end else atom ()
  and atom () =
    ws ();
    if !i >= n then raise (Bad "unexpected end");
    let c = s.[!i] in
    if c >= '0' && c <= '9' then begin
      let j = !i in while !i < n && s.[!i] >= '0' && s.[!i] <= '9' do incr i done;
      ON (n_of_int (int_of_string (String.sub s j (!i - j))))
    end else if c = '-' then begin
      incr i; let j = !i in while !i < n && s.[!i] >= '0' && s.[!i] <= '9' do incr i done;
      OZ (z_of_int (- (int_of_string (String.sub s j (!i - j)))))
    end else if c = '"' then begin
      incr i; let b = Buffer.create 16 in
      while !i < n && s.[!i] <> '"' do Buffer.add_char b s.[!i]; incr i done;
      incr i; OT (cstring (Buffer.contents b), [])       (* a tag: consumed by OT's builder *)
    end else if c = '[' then begin
      incr i; ws ();
      if !i < n && s.[!i] = ']' then (incr i; OL [])
      else begin
        let items = ref [] in
        let continue = ref true in
        while !continue do
          items := term () :: !items; ws ();
          if !i < n && s.[!i] = ';' then incr i
          else if !i < n && s.[!i] = ']' then (incr i; continue := false)
          else raise (Bad "bad list")
        done;
        OL (List.rev !items)
      end
    end else if c = '(' then begin
      incr i; let t = term () in ws ();
      if !i < n && s.[!i] = ')' then (incr i; t) else raise (Bad "bad paren")
    end else if is_alpha c then build (ident ()) []
    else raise (Bad (Printf.sprintf "bad char %c at %d" c !i)) in
  let t = term () in ws ();
  if !i <> n then raise (Bad "trailing input"); t

(* ---- printer ---- *)
let rec show (o : obs) =
  match o with
  | ON x -> Printf.sprintf "(ON %d)" (int_of_n x)
  | OZ z -> Printf.sprintf "(OZ (%d))" (int_of_z z)
  | OB b -> if b then "(OB true)" else "(OB false)"
  | OS l -> "(OS [" ^ String.concat "; " (List.map (fun x -> string_of_int (int_of_n x)) l) ^ "])"
  | OL l -> "(OL [" ^ String.concat "; " (List.map show l) ^ "])"
  | OT (t, l) -> "(OT \"" ^ ostring t ^ "\" [" ^ String.concat "; " (List.map show l) ^ "])"

let () =
  let which = n_of_int (int_of_string Sys.argv.(1)) in
  let idx = ref 0 in
  (try
     while true do
       let line = input_line stdin in
       (match String.index_opt line '\t' with
        | None -> Printf.printf "%d E E no-tab\n" !idx
        | Some k ->
          let c = String.sub line 0 k and o = String.sub line (k + 1) (String.length line - k - 1) in
          (try
             match eng_check_text which (parse c) (parse o) with
             | None -> Printf.printf "%d E E undecodable-case\n" !idx
             | Some ((d, v), e) ->
               if d || v then Printf.printf "%d %d %d %s\n" !idx (if d then 1 else 0) (if v then 1 else 0) (show e)
               else Printf.printf "%d 0 0\n" !idx
           with Bad m -> Printf.printf "%d E E %s\n" !idx m
              | Stack_overflow -> Printf.printf "%d E E stack-overflow\n" !idx));
       incr idx;
       flush stdout
     done
   with End_of_file -> ())
