(* Extraction of the model driver: ExtrOcamlBasic only (bool, option, unit, list, prod, sumbool mapped to OCaml's;
   N, Z, positive, nat, string, ascii stay Coq inductives).  No Extract Constant / Extract Inductive of our own. *)
From Coq Require Import ExtrOcamlBasic.
From Parsley Require Import Obs EngineExtract.
Extraction Language OCaml.
Extraction "model.ml" eng_check_text.
